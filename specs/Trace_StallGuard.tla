--------------------------- MODULE Trace_StallGuard ---------------------------
(* Trace validation for C13 / C12: ms-resolution histories recorded from the  *)
(* real selector (vh record stallguard).                                       *)
EXTENDS StallGuard, Sequences, Json, IOUtils, TLC

CONSTANT Exact   \* FALSE: property level -- the latch / pull / gate flags are whatever the code reported and
                 \*        only the C13 / C12 statements are checked against the monitor.
                 \* TRUE : every decision must also equal the code-shaped Select (rejection = MODEL-DRIFT).

Rec == ndJsonDeserialize(IOEnv.TRACE)

VARIABLE i

NewRun(r) ==
    /\ conn' = TRUE /\ loaded' = FALSE /\ pa' = -1 /\ ra' = 0 /\ srtt' = 0
    /\ guard' = r.guard /\ ceil' = r.ceil
    /\ latched' = FALSE /\ rec' = -1 /\ pulled' = FALSE /\ gated' = FALSE
    /\ fr' = -1 /\ heard' = FALSE /\ pwEng' = 0 /\ act' = "Init"

(* a decision whose outcome is taken from the log; the monitor advances from the statement *)
SelectObs(other, l1, p1, g1, r1) ==
    /\ act' = "Select"
    /\ UNCHANGED cvars
    /\ latched' = l1 /\ pulled' = p1 /\ gated' = g1 /\ rec' = r1
    /\ guard => g1 = (other /\ (l1 \/ p1))
    /\ IF ~guard THEN fr' = -1 /\ UNCHANGED <<heard, pwEng>>
       ELSE /\ fr' = IF ProofFresh THEN (IF fr = -1 THEN 0 ELSE fr) ELSE -1
            /\ heard' = IF ~pulled /\ p1 THEN FALSE ELSE heard
            /\ pwEng' = IF ~pulled /\ p1 THEN PullWin ELSE pwEng

TraceInit ==
    /\ i = 1 /\ conn = TRUE /\ loaded = FALSE /\ pa = -1 /\ ra = 0 /\ srtt = 0 /\ guard = TRUE /\ ceil = 3000
    /\ latched = FALSE /\ rec = -1 /\ pulled = FALSE /\ gated = FALSE /\ fr = -1 /\ heard = FALSE /\ pwEng = 0
    /\ act = "Init"

TraceNext ==
    /\ i <= Len(Rec)
    /\ i' = i + 1
    /\ LET r == Rec[i] IN
       \/ r.ev = "Init" /\ NewRun(r)
       \/ r.ev = "Advance" /\ Advance(r.d)
       \/ r.ev = "Select" /\ r.frame_ok /\ ~r.blackout /\ ~r.dec_gated
                          /\ IF Exact
                             THEN Select(r.other) /\ latched' = r.latched /\ pulled' = r.pulled
                                  /\ gated' = r.gated /\ rec' = r.rec
                             ELSE SelectObs(r.other, r.latched, r.pulled, r.gated, r.rec)
       \/ r.ev = "ProofHere" /\ ProofHere
       \/ r.ev = "ProofForeign" /\ ProofForeign
       \/ r.ev = "Recv" /\ Recv
       \/ r.ev = "SetLoad" /\ SetLoad(r.b)
       \/ r.ev = "RttSample" /\ SetRtt(r.srtt)
       \/ r.ev = "Disconnect" /\ Disconnect
       \/ r.ev = "Reg3" /\ Reg3
       \/ r.ev = "SetGuard" /\ SetGuard(r.g)
       \/ r.ev = "Reset" /\ Reset(r.full) /\ srtt' = r.srtt

TraceSpec == TraceInit /\ [][TraceNext]_<<vars, i>>

TraceAccepted ==
    LET d == TLCGet("stats").diameter IN
    IF d - 1 = Len(Rec) THEN TRUE
    ELSE /\ PrintT(<<"TRACE-REJECTED", d, ToJson(Rec[d])>>)
         /\ FALSE
=============================================================================
