SPECIFICATION MCSpec
CONSTANTS
  Floor = 1000
  RttMult = 4
  DwellMult = 2
  PullFloor = 250
  PullMult = 2
  Sat = 6500
  Rtts = {0, 500}
  Ceils = {3000}
  StepSet = {500, 1500}
  Export = FALSE
INVARIANT NeverBlind
PROPERTIES LatchRiseOK LatchFallOK PullFallOKModuloD4 GuardOffClears OnlySelectMoves
CHECK_DEADLOCK FALSE
