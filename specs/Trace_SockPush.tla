--------------------------- MODULE Trace_SockPush ---------------------------
(* C20 / C18 on the wire of the real control socket: what a connected client *)
(* reads when (a) a burst of events is queued for its connection before the  *)
(* connection's task runs again, and (b) it has a request in the socket when *)
(* far more events than its queue holds are published at once.  Read from    *)
(* the `bursts` field of the control engine's socket runs; everything else   *)
(* on those lines is Trace_Control's business.                               *)
EXTENDS Integers, Sequences, Json, IOUtils, TLC

CONSTANT Check      \* {"C20"}: order of pushed events; {"C18"}: a request is answered whatever is queued

Rec == ndJsonDeserialize(IOEnv.TRACE)

VARIABLE i

Increasing(s) == \A j \in 1..(Len(s) - 1) : s[j] < s[j + 1]

BurstOK(b) ==
    IF "backlog" \in DOMAIN b
    THEN "C18" \in Check => b.answered                 \* exactly one response, however backed up the events are
    ELSE "C20" \in Check =>
           /\ Increasing(b.got)                        \* publication order, each at most once
           /\ \A j \in 1..Len(b.got) : b.got[j] < b.k  \* only what was published
           /\ b.sid                                    \* under the topic's method name

TraceInit == i = 1
TraceNext ==
    /\ i <= Len(Rec)
    /\ i' = i + 1
    /\ LET r == Rec[i] IN
       ("bursts" \in DOMAIN r) => \A j \in 1..Len(r.bursts) : BurstOK(r.bursts[j])
TraceSpec == TraceInit /\ [][TraceNext]_i

TraceAccepted ==
    LET d == TLCGet("stats").diameter IN
    IF d - 1 = Len(Rec) THEN TRUE
    ELSE /\ PrintT(<<"TRACE-REJECTED", d, ToJson(Rec[d])>>)
         /\ FALSE
=============================================================================
