SPECIFICATION TraceSpec
CONSTANTS
  Check = {"C20"}
POSTCONDITION TraceAccepted
CHECK_DEADLOCK FALSE
