--------------------------- MODULE Trace_InFlight ---------------------------
(***************************************************************************)
(* Trace validation for C02: a recorded history of the real code           *)
(* (vh record inflight) is accepted iff it is a behaviour of the           *)
(* property-level set model InFlight, with the in-flight count the code    *)
(* reported after every event equal to Cardinality(out[l]) on every link.  *)
(* Lists (SRTLA ACK lists, cumulative ACK lists) are compositions of the   *)
(* module's single-number actions.                                         *)
(***************************************************************************)
EXTENDS InFlight, Sequences, Json, IOUtils, TLC

Rec == ndJsonDeserialize(IOEnv.TRACE)

VARIABLE i      \* next line of the trace to consume

TSeqs == Nat

Has(r, k) == k \in DOMAIN r

Rm(f, l, s) == [f EXCEPT ![l] = @ \ {s}]

(* all results of one SRTLA ACK for s arriving on arr *)
OneSrtlaAck(f, arr, s) ==
    IF s \in f[arr] THEN {Rm(f, arr, s)}
    ELSE LET H == {l \in Links : s \in f[l]}
         IN IF H = {} THEN {f} ELSE {Rm(f, l, s) : l \in H}

RECURSIVE AfterSrtlaAcks(_, _, _)
AfterSrtlaAcks(F, arr, lst) ==
    IF lst = <<>> THEN F
    ELSE AfterSrtlaAcks(UNION {OneSrtlaAck(f, arr, Head(lst)) : f \in F}, arr, Tail(lst))

RECURSIVE AfterCumAcks(_, _)
AfterCumAcks(f, lst) ==
    IF lst = <<>> THEN f
    ELSE AfterCumAcks([l \in Links |-> {s \in f[l] : s > Head(lst)}], Tail(lst))

Matches(r, f) == \A l \in 1..Len(r.infl) : Cardinality(f[l]) = r.infl[l]

TraceInit == out = [l \in Links |-> {}] /\ i = 1

TraceNext ==
    /\ i <= Len(Rec)
    /\ i' = i + 1
    /\ LET r == Rec[i] IN
       /\ ~Has(r, "inconsistent")
       /\ \/ r.ev = "Init" /\ out' = [l \in Links |-> {}]
          \/ r.ev = "Send" /\ Send(r.l, r.s)
          \/ r.ev = "CumAck" /\ out' = AfterCumAcks(out, r.list)
          \/ r.ev = "SrtlaAck" /\ out' \in AfterSrtlaAcks({out}, r.l, r.list)
          \/ r.ev = "Nak" /\ IF r.ch = 0 THEN UNCHANGED out
                             ELSE r.seq \in out[r.ch] /\ out' = Rm(out, r.ch, r.seq)
          \/ r.ev = "Reset" /\ Reset(r.l)
       /\ Matches(r, out')

TraceSpec == TraceInit /\ [][TraceNext]_<<out, i>>

(* Acceptance: the whole trace was consumed.  On rejection print the first *)
(* line that no step of the model explains.                                *)
TraceAccepted ==
    LET d == TLCGet("stats").diameter IN
    IF d - 1 = Len(Rec) THEN TRUE
    ELSE /\ PrintT(<<"TRACE-REJECTED", d, ToJson(Rec[d])>>)
         /\ FALSE
=============================================================================
