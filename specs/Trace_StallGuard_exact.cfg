SPECIFICATION TraceSpec
CONSTANTS
  Floor = 1000
  RttMult = 4
  DwellMult = 2
  PullFloor = 250
  PullMult = 2
  Sat = 100000000
  Exact = TRUE
INVARIANT NeverBlind
PROPERTIES LatchRiseOK LatchFallOK PullFallOKModuloD4 GuardOffClears OnlySelectMoves
POSTCONDITION TraceAccepted
CHECK_DEADLOCK FALSE
