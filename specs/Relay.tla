-------------------------------- MODULE Relay --------------------------------
(***************************************************************************)
(* C09 -- the return path: what one datagram arriving on an uplink may do  *)
(* (src/sender/uplink_recv.rs process_uplink_packet,                        *)
(*  packet_handler.rs process_connection_events).                           *)
(*                                                                         *)
(* A datagram is described by its class (from its first two bytes, see     *)
(* Class), its length, and for a keepalive echo the age of the timestamp   *)
(* it carries.  Per link the model keeps the liveness stamp and the        *)
(* delivery-proof stamp (as times, -1 = none).  The action has NO          *)
(* precondition on content: the code must be total.                        *)
(***************************************************************************)
EXTENDS Integers, FiniteSets

CONSTANTS MaxLinks

Links == 1..MaxLinks

VARIABLES recv,      \* recv[l]: last_received (-1: none)
          proof,     \* proof[l]: last delivery proof (-1: none)
          delivered, \* how many copies of the last datagram went to the client
          act

vars == <<recv, proof, delivered, act>>

Registration == {"reg2", "reg3", "reg_err", "reg_ngp"}       \* consumed by the handshake
Internal     == Registration \cup {"srtla_ack", "ka"}         \* never relayed
(* everything else of >= 2 bytes is receiver traffic for the SRT client: SRT ACK / NAK / other control, data,
   and SRTLA types the sender does not consume (REG1, REG_NAK, unknown 0x9xxx)                          *)

Init == /\ recv = [l \in Links |-> -1] /\ proof = [l \in Links |-> -1] /\ delivered = 0 /\ act = "Init"

(* l: arrival link; cls, len: the datagram; known: a client address is known; now: the clock;
   copies: how many copies the client received; waiting: a keepalive probe was outstanding on l;
   age: now - echoed timestamp (keepalive only);
   recv1, proof1: the stamps after the call; earned: links whose in-flight count dropped during it *)
Datagram(l, cls, len, known, now, copies, waiting, age, recv1, proof1, earned) ==
    /\ act' = "Datagram"
    /\ delivered' = copies /\ recv' = recv1 /\ proof' = proof1
    \* ---- relay
    /\ IF len >= 2 /\ cls \notin Internal /\ known THEN copies >= 1 ELSE copies = 0
    \* ---- liveness: every non-registration datagram (of >= 2 bytes) refreshes the arrival link's stamp;
    \*      REG3 does too; REG_ERR drops it; nothing touches another link's stamp
    /\ \A k \in Links : k # l => recv1[k] = recv[k]
    /\ len >= 2 => CASE cls \notin Registration -> recv1[l] = now
                     [] cls = "reg3"    -> recv1[l] = now
                     [] cls = "reg_err" -> recv1[l] = -1
                     [] OTHER           -> recv1[l] = recv[l]
    /\ len < 2 => recv1[l] \in {recv[l], now}
    \* ---- delivery proof: only an earned SRTLA ACK or an answered keepalive
    /\ \A k \in Links : proof1[k] # proof[k] =>
          /\ proof1[k] = now
          /\ \/ cls = "srtla_ack" /\ len >= 8 /\ k \in earned
             \/ cls = "ka" /\ k = l /\ len >= 10 /\ waiting /\ 0 < age /\ age <= 10000

(* a reset of link l clears both stamps; a selection / housekeeping / client-side step changes neither proof
   nor (except for resets) the stamps -- the trace spec hands those steps in as Other *)
Other(recv1, proof1) == /\ act' = "Other" /\ recv' = recv1 /\ proof' = proof1 /\ delivered' = 0

(* proof is stamped only inside Datagram (or cleared by a reset) *)
ProofOnlyFromReturnPath ==
    [][\A k \in Links : (proof'[k] # proof[k] /\ proof'[k] # -1) => act' = "Datagram"]_vars
=============================================================================
