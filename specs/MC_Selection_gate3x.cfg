SPECIFICATION SpecL
CONSTANTS
  QDen = 100
  CDen = 10
  ConnInHealthy = TRUE
  OverrideEligible = TRUE
  N = 3
  Recs <- GateRecs
  Cfgs <- GateCfgs
  Kinds <- PlainKind
  Export = TRUE
INVARIANTS L_Emit
CHECK_DEADLOCK FALSE
