SPECIFICATION TraceSpec
CONSTANTS
  MaxLinks = 4
  MaxBatch = 32
  ProbeGap = 100
  CheckEligibility = FALSE
INVARIANTS QueueBound EmptyAfterTick
POSTCONDITION TraceAccepted
CHECK_DEADLOCK FALSE
