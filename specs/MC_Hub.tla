------------------------------- MODULE MC_Hub -------------------------------
(* Bounded exhaustive configurations of Hub.tla and the behaviour export for  *)
(* the manual-executor replay (engine `hub`).                                 *)
(*                                                                            *)
(* Tasks carry no identity beyond their program counter, so a new operation   *)
(* is always started by the lowest-numbered idle task (LowestIdle): a sound   *)
(* symmetry reduction.  Budgets bound the number of operations of each kind;  *)
(* within them every choice of topic / channel / id and every interleaving at *)
(* the step boundaries is explored.                                           *)
EXTENDS Hub, TLC, Json

CONSTANTS MaxSubs, MaxPubs, MaxUnsubs, MaxRecvs, MaxCloses, Export

VARIABLES hist,     \* the events taken so far (hidden by VIEW: one line per transition)
          cnt       \* [u, r]: unsubscribes / receives done

Cap11 == <<1, 1>>
Cap12 == <<1, 2>>
Cap21 == <<2, 1>>
Cap22 == <<2, 2>>
Cap112 == <<1, 1, 2>>

MCInit == Init /\ hist = <<>> /\ cnt = [u |-> 0, r |-> 0]

LowestIdle(t) == pc[t].k = "idle" /\ \A u \in Tasks : u < t => pc[u].k # "idle"
NClosed == Cardinality({c \in Chans : closed[c]})

Ev(e) == hist' = Append(hist, e)

MCNext ==
    \/ \E t \in Tasks :
         \/ /\ LowestIdle(t) /\ nextId < MaxSubs
            /\ \E tp \in Topics, c \in Chans :
                 AllocId(t, tp, c) /\ Ev([ev |-> "AllocId", t |-> t, topic |-> tp, ch |-> c, id |-> nextId])
            /\ UNCHANGED cnt
         \/ Insert(t) /\ Ev([ev |-> "Insert", t |-> t]) /\ UNCHANGED cnt
         \/ /\ LowestIdle(t) /\ cnt.u < MaxUnsubs
            /\ \E id \in 0..(nextId - 1) : Unsub(t, id) /\ Ev([ev |-> "Unsub", t |-> t, id |-> id])
            /\ cnt' = [cnt EXCEPT !.u = @ + 1]
         \/ /\ LowestIdle(t) /\ Len(pubs) < MaxPubs
            /\ \E tp \in Topics : Fanout(t, tp) /\ Ev([ev |-> "Fanout", t |-> t, topic |-> tp, n |-> Len(pubs) + 1])
            /\ UNCHANGED cnt
         \/ Prune(t) /\ Ev([ev |-> "Prune", t |-> t]) /\ UNCHANGED cnt
    \/ \E c \in Chans :
         \/ cnt.r < MaxRecvs /\ Recv(c) /\ Ev([ev |-> "Recv", c |-> c]) /\ cnt' = [cnt EXCEPT !.r = @ + 1]
         \/ NClosed < MaxCloses /\ Close(c) /\ Ev([ev |-> "Close", c |-> c]) /\ UNCHANGED cnt
    \* observation only: take everything off every channel and probe the membership of every id ever
    \* returned (through the return value of unsubscribe); leaves the hub state as it is
    \/ Export /\ UNCHANGED <<vars, cnt>> /\ Ev([ev |-> "Drain"])

MCSpec == MCInit /\ [][MCNext]_<<vars, hist, cnt>>

View == <<hvars, pubs, subs, enq, rcv, found, cnt>>     \* `ret` is write-only

Present == [i \in 1..nextId |-> (i - 1) \in EntryIds]
Obs == [r |-> ret, len |-> Len(entries), q |-> [c \in Chans |-> Len(buf[c])], p |-> Present]
DrainObs == [bufs |-> [c \in Chans |-> buf[c]], p |-> Present, len |-> Len(entries)]

Emit ==
    Export =>
      LET n == Len(hist')
          o == IF hist'[n].ev = "Drain" THEN DrainObs' ELSE Obs'
      IN PrintT(<<"EDGE", ToJson([cfg |-> [cap |-> [c \in Chans |-> Cap[c]]],
                                  steps |-> [i \in 1..n |-> IF i = n THEN [e |-> hist'[i], o |-> o]
                                                                   ELSE [e |-> hist'[i]]]])>>)
=============================================================================
