----------------------------- MODULE MC_Keepalive -----------------------------
(* Design-level check of C14's cadence and sampling rules: the code's needs_keepalive / needs_rtt_measurement /
   keepalive_packet / handle_keepalive_response rules for one link, housekeeping passes 1000 or 1500 ms apart,
   echoes of every kind (timely, late, duplicate, truncated, zero / future timestamp), disconnects, resets,
   all interleavings, ages saturating.                                                                    *)
EXTENDS Keepalive, TLC

CONSTANTS Spacings, Sat

VARIABLES ka,      \* age of last_keepalive_sent (-1: none)
          wait,    \* waiting_for_keepalive_response
          kats,    \* age of the timestamp of the outstanding probe (-1: none)
          meas,    \* age of last_rtt_measurement_ms (-1: never)
          conn

mcvars == <<vars, ka, wait, kats, meas, conn>>

Age(a, d) == IF a = -1 THEN -1 ELSE (IF a + d > Sat THEN Sat ELSE a + d)
T1 == [l \in Links |-> NoTele]

MCInit == Init /\ ka = -1 /\ wait = FALSE /\ kats = -1 /\ meas = -1 /\ conn = TRUE

(* a pass after d ms: keepalive_packet if needs_keepalive, once more if an RTT measurement is due *)
Hk(d) ==
    LET ka1   == Age(ka, d)  kats1 == Age(kats, d)  meas1 == Age(meas, d)
        due   == conn /\ (ka1 = -1 \/ ka1 >= 1000)
        arm(w) == ~w /\ (meas1 = -1 \/ meas1 > 3000)            \* keepalive_packet arms the probe
        w1    == IF due /\ arm(wait) THEN TRUE ELSE wait
        due2  == conn /\ ~w1 /\ (meas1 = -1 \/ meas1 > 3000)     \* needs_rtt_measurement
        w2    == IF due2 THEN TRUE ELSE w1
        nfr   == (IF due THEN 1 ELSE 0) + (IF due2 THEN 1 ELSE 0)
        frame == [len |-> 38, std10 |-> TRUE, ext |-> TRUE, ts |-> 0, kw |-> 0, ki |-> 0, kn |-> 0, kr |-> 0]
    IN /\ Pass(0, [l \in Links |-> IF l = 1 THEN [k \in 1..nfr |-> frame] ELSE <<>>],
               [l \in Links |-> l # 1], [l \in Links |-> FALSE], T1, [l \in Links |-> l = 1 /\ conn], srtt)
       /\ ka' = IF nfr > 0 THEN 0 ELSE ka1
       /\ wait' = w2
       /\ kats' = IF (due /\ arm(wait)) \/ due2 THEN 0 ELSE kats1
       /\ meas' = meas1 /\ conn' = conn

(* an echo whose timestamp age is `age` (-5: future, 0: same ms) of `len` bytes *)
EchoIn(len, age) ==
    LET ok == wait /\ len >= 10 /\ 0 < age /\ age <= 10000 IN
    /\ Echo(1, len, wait, age, ok, T1, live, srtt)
    /\ wait' = FALSE /\ meas' = IF ok THEN 0 ELSE meas
    /\ UNCHANGED <<ka, kats, conn>>

Reset == /\ Other({1}, T1, [l \in Links |-> FALSE], srtt) /\ conn' = FALSE /\ ka' = -1 /\ wait' = FALSE /\ kats' = -1
         /\ meas' = meas
Reg3  == /\ Other({}, T1, [l \in Links |-> l = 1], srtt) /\ conn' = TRUE /\ UNCHANGED <<ka, wait, kats, meas>>

MCNext == \/ \E d \in Spacings : Hk(d)
          \/ \E len \in {2, 9, 10, 38, 60}, age \in {-5, 0, 1, 500, 10000, 10001} : EchoIn(len, age)
          \/ Reset \/ Reg3

MCSpec == MCInit /\ [][MCNext]_mcvars
=============================================================================
