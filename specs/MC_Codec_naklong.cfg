INIT NakLong
NEXT Next
CONSTANTS
  Cap = 1000
  Export = TRUE
INVARIANTS C15_NakBounded C15_AckBounded C15_OneType C15_DataVsControl C15_SegsAgree C15_Layout C15_RoundTrip Emit
CHECK_DEADLOCK FALSE
