-------------------------- MODULE Trace_Registration --------------------------
(* Trace validation for C07: ms-resolution histories of the real manager.     *)
EXTENDS Registration, Sequences, Json, IOUtils, TLC

Rec == ndJsonDeserialize(IOEnv.TRACE)

VARIABLE i

EmitSet(s) == {s[k] : k \in 1..Len(s)}

ObsOK(r) ==
    /\ id' = r.id /\ pending' = r.pending /\ pto' = r.pto /\ active' = r.active /\ hasConn' = r.hasConn
    /\ bcast' = r.bcast /\ target' = r.target /\ ns' = r.ns /\ probing' = r.probing
    /\ \A l \in 1..Len(r.presp) : presp'[l] = r.presp[l]
    /\ \A l \in 1..Len(r.connected) : connected'[l] = r.connected[l]
    /\ emit' = EmitSet(r.emit)

NewRun ==
    /\ id' = Id0 /\ pending' = None /\ pto' = -1 /\ active' = 0 /\ hasConn' = FALSE /\ bcast' = FALSE
    /\ target' = None /\ ns' = 0 /\ probing' = "NotStarted"
    /\ presp' = [l \in Links |-> -1] /\ pel' = 0
    /\ connected' = [l \in Links |-> FALSE]
    /\ reg1Out' = {} /\ accepted' = FALSE /\ emit' = {} /\ act' = "Init" /\ arg' = <<0, FALSE, "">>

TraceInit == Init /\ i = 1

(* links beyond the run's link count never act; a 2-link run on the 3-link constant: probing completes on the
   links that exist, so the run's own link count is carried by the Init line *)
TraceNext ==
    /\ i <= Len(Rec)
    /\ i' = i + 1
    /\ LET r == Rec[i] IN
       \/ r.ev = "Init" /\ NewRun
       \/ r.ev = "Advance" /\ Advance(r.d)
       \/ r.ev = "LinkDown" /\ (IF connected[r.l] THEN LinkDown(r.l) ELSE UNCHANGED vars)
       \/ r.ev = "StartProbing" /\ StartProbing /\ ObsOK(r)
       \/ r.ev = "RecvNgp" /\ RecvNgp(r.l) /\ ObsOK(r)
       \/ r.ev = "RecvReg2" /\ RecvReg2(r.l, r.full, r.tok) /\ ObsOK(r)
       \/ r.ev = "RecvReg3" /\ RecvReg3(r.l) /\ ObsOK(r)
       \/ r.ev = "RecvRegErr" /\ RecvRegErr(r.l) /\ ObsOK(r)
       \/ r.ev = "TimedOutResend" /\ TimedOutResend(r.l) /\ ObsOK(r)
       \/ r.ev = "Housekeeping" /\ Housekeeping /\ ObsOK(r)

TraceSpec == TraceInit /\ [][TraceNext]_<<vars, i>>

TraceAccepted ==
    LET d == TLCGet("stats").diameter IN
    IF d - 1 = Len(Rec) THEN TRUE
    ELSE /\ PrintT(<<"TRACE-REJECTED", d, ToJson(Rec[d])>>)
         /\ FALSE
=============================================================================
