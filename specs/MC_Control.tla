----------------------------- MODULE MC_Control -----------------------------
(* Bounded exhaustive configuration of Control: the complete graph over the   *)
(* configuration space reachable from every Start, every abstract line taken  *)
(* from every state; per-transition behaviour export for the replay.          *)
EXTENDS Control, TLC, Json, Sequences

CONSTANTS MsInts,     \* u64 parameters inside TLC's integers
          MsHuge,     \* decimal digit strings of u64 parameters above them
          CliRaw,     \* raw --conn-timeout values given to from_cli (integers)
          CliFixed,   \* (stall_min_in_flight, stall_ack_stale_ms) pairs given to from_cli
          Export

VARIABLE hist

CliFixedDef == {<<32, 3000>>, <<-7, 1234>>}

Ids  == {"absent", "null", "num", "str"}
Vers == {"ok", "bad"}

BadCommon == {"missing", "noparams", "null", "array", "scalar"}
MP ==
       {<<"set_mode", PStr(s)>> : s \in Modes \cup {"other"}}
  \cup {<<"set_mode", PBad(f)>> : f \in BadCommon \cup {"illtyped"}}
  \cup {<<m, PBool(b)>> : m \in {"set_quality", "set_stall_deselect"}, b \in BOOLEAN}
  \cup {<<m, PBad(f)>> : m \in {"set_quality", "set_stall_deselect"},
                         f \in BadCommon \cup {"strbool", "num", "nullval"}}
  \cup {<<"set_conn_timeout", PU64(n)>> : n \in MsInts}
  \cup {<<"set_conn_timeout", PHuge(s)>> : s \in MsHuge}
  \cup {<<"set_conn_timeout", PBad(f)>> :
            f \in BadCommon \cup {"neg", "frac", "strnum", "nullval", "boolval",
                                  \* not fixed by the statement (the code rejects them): judged as drift at most
                                  "floatint", "over64"}}
  \cup {<<m, PAny>> : m \in {"get_status", "get_stats", "unknown", "get_subscription_count"}}
  \cup {<<"subscribe", PStr(s)>> : s \in Topics \cup {"other"}}
  \cup {<<"subscribe", PBad(f)>> : f \in {"missing", "noparams", "illtyped"}}
  \cup {<<"unsubscribe", PStr(s)>> : s \in {"own", "unknown"}}
  \cup {<<"unsubscribe", PBad(f)>> : f \in {"missing", "illtyped"}}

Line(c) == [cls |-> c, ver |-> "ok", id |-> "absent", m |-> "", p |-> PAny]
Requests ==
       {[cls |-> "req", ver |-> v, id |-> i, m |-> mp[1], p |-> mp[2]] : v \in Vers, i \in Ids, mp \in MP}
  \cup {Line("blank"), Line("garbage"), Line("bytes"), Line("nonreq")}

Starts ==
       {[kind |-> "new", mode |-> "enhanced", nq |-> FALSE, nsd |-> FALSE, minif |-> 32, stale |-> 3000,
         raw |-> PU64(TDefault)]}
  \cup {[kind |-> "cli", mode |-> m, nq |-> a, nsd |-> b, minif |-> f[1], stale |-> f[2], raw |-> PU64(t)] :
            m \in Modes, a \in BOOLEAN, b \in BOOLEAN, f \in CliFixed, t \in CliRaw}
  \cup {[kind |-> "cli", mode |-> "classic", nq |-> TRUE, nsd |-> FALSE, minif |-> 32, stale |-> 3000,
         raw |-> PHuge("18446744073709551615")]}

Obs(d, da, c0, r) ==
    [resp |-> d.resp, aresp |-> da.resp, cfg |-> d.c2, status |-> d.c2, agree |-> TRUE, wf |-> TRUE, sockdead |-> FALSE,
     alt |-> AltCode(c0, "sync", r), aalt |-> AltCode(c0, "async", r)]

MCInit == Init /\ hist = <<>>

MCStart == \E a \in Starts :
    /\ Start(a)
    /\ hist' = Append(hist, [e |-> [ev |-> "Start", a |-> a],
                             o |-> [cfg |-> StartCfg(a), status |-> StartCfg(a), wf |-> TRUE]])

MCStep == \E r \in Requests :
    /\ Step(r)
    /\ hist' = Append(hist, [e |-> [ev |-> "Req", r |-> r],
                             o |-> Obs(Dispatch(cfg, "sync", r), Dispatch(cfg, "async", r), cfg, r)])

MCNext == MCStart \/ MCStep
MCSpec == MCInit /\ [][MCNext]_<<vars, hist>>

(* the monitors `last` and `hist` add no behaviour: one state per configuration; the clauses are
   evaluated for EVERY line of the alphabet on every configuration (ClausesHold), so hiding `last` loses
   nothing *)
View == <<started, cfg>>

ClausesHold == started => \A r \in Requests : Clauses(cfg, r)

Emit == Export => PrintT(<<"EDGE", ToJson(hist')>>)
=============================================================================
