------------------------------ MODULE InFlight ------------------------------
(***************************************************************************)
(* C02 -- per-link in-flight accounting, the property-level set model.     *)
(*                                                                         *)
(* out[l] is the set of SRT data sequence numbers link l has transmitted   *)
(* and that have not been retired since.  The in-flight count the code     *)
(* exposes (`in_flight_packets`) must equal Cardinality(out[l]) after      *)
(* every event.  Nothing here mentions the packet log, the high-water mark *)
(* or the fast/slow ACK path: those live in InFlightImpl, which is checked *)
(* to refine this module.                                                  *)
(***************************************************************************)
EXTENDS Naturals, FiniteSets

CONSTANTS Links,   \* set of link indices (naturals, index order matters)
          Seqs     \* set of sequence numbers (naturals, non-wrapping span)

VARIABLE out

TypeOK == out \in [Links -> SUBSET Seqs]

Init == out = [l \in Links |-> {}]

(* A flush transmits (registers) s on l: first transmission, an SRT         *)
(* retransmission of an already-acked number, or a duplicate probe copy.   *)
Send(l, s) == out' = [out EXCEPT ![l] = @ \cup {s}]

(* Cumulative SRT ACK a: retires everything at or below a on EVERY link,   *)
(* whatever ACKs came before (order/spacing independence is this line).    *)
CumAck(a) == out' = [l \in Links |-> {s \in out[l] : s > a}]

(* Per-packet SRTLA ACK for s arriving on link arr: the arrival link if it *)
(* holds s, otherwise ONE other holder, otherwise nothing.                 *)
SrtlaAck(arr, s) ==
    IF s \in out[arr]
    THEN out' = [out EXCEPT ![arr] = @ \ {s}]
    ELSE IF \E l \in Links : s \in out[l]
         THEN \E l \in Links : /\ s \in out[l]
                               /\ out' = [out EXCEPT ![l] = @ \ {s}]
         ELSE UNCHANGED out

(* NAK for s: charged to at most one link, and only to a holder (which     *)
(* one is C05's business).                                                 *)
Nak(s) ==
    \/ UNCHANGED out
    \/ \E l \in Links : /\ s \in out[l]
                        /\ out' = [out EXCEPT ![l] = @ \ {s}]

(* Any reset of link l (recovery, reconnect, REG3 re-registration).        *)
Reset(l) == out' = [out EXCEPT ![l] = {}]

Next ==
    \/ \E l \in Links, s \in Seqs : Send(l, s)
    \/ \E a \in Seqs : CumAck(a)
    \/ \E l \in Links, s \in Seqs : SrtlaAck(l, s)
    \/ \E s \in Seqs : Nak(s)
    \/ \E l \in Links : Reset(l)

Spec == Init /\ [][Next]_out

InFlight(l) == Cardinality(out[l])

(* "ACKs and NAKs for sequence numbers a link does not hold leave it       *)
(* untouched" and "never negative" are structural here: every action only  *)
(* removes members, and a count is a cardinality.                          *)
NeverNegative == \A l \in Links : InFlight(l) >= 0
=============================================================================
