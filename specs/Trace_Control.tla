---------------------------- MODULE Trace_Control ----------------------------
(* Trace validation for C18: recorded behaviours of the real entry points     *)
(* (control::dispatch, dispatch_async with and without a subscription         *)
(* context, a real control_socket Unix stream) against Control.               *)
(*   Start / Req  abstract lines (any u64 timeout): compared exactly with     *)
(*                Dispatch, and the clauses are evaluated on the line taken   *)
(*   Raw          arbitrary lines, classified by an oracle that knows only    *)
(*                the JSON grammar: what an outsider may demand of them       *)
EXTENDS Control, Sequences, Json, IOUtils, TLC

CONSTANT Exact      \* TRUE: the code-shaped model exactly (drift detection); FALSE: what the statement fixes

Rec == ndJsonDeserialize(IOEnv.TRACE)

VARIABLE i

TraceInit == Init /\ i = 1

NewRun == started' = FALSE /\ cfg' = DefaultCfg /\ last' = Last0

CfgOf(c) == Cfg(c.mode, c.quality, c.stall, c.minif, c.stale, c.timeout)
RespOf(a) == Resp(a.present, a.id, a.kind, a.code, Val(a.val.t, a.val.s, a.val.b, a.val.n))

StartObs(r) == /\ CfgOf(r.cfg) = cfg' /\ CfgOf(r.status) = cfg' /\ r.wf

(* a wrong-version line that is also unknown / ill-parameterised: which of the two errors is reported is not
   fixed by the statement *)
RespMatches(got, want, alt) ==
    \/ got = want
    \/ ~Exact /\ alt # 0 /\ want.present /\ got = [want EXCEPT !.code = alt]

ReqObs(r) ==
    /\ RespMatches(RespOf(r.resp), last'.resp, AltCode(cfg, "sync", r.r))
    /\ RespMatches(RespOf(r.aresp), last'.aresp, AltCode(cfg, "async", r.r))
    /\ CfgOf(r.cfg) = cfg'
    /\ CfgOf(r.status) = cfg'          \* the next get_status shows it
    /\ r.agree /\ r.wf

(* an arbitrary line: at most one response, well-formed, code in the allowed set; the four classes the
   grammar decides get their exact answer; whatever it did, the configuration stays well-typed (clamped)
   and status agrees with it (folded into wf by the harness) *)
RawStep(r) ==
    /\ started /\ UNCHANGED started
    /\ cfg' = CfgOf(r.cfg) /\ last' = Last0
    /\ cfg'.minif = cfg.minif /\ cfg'.stale = cfg.stale
    /\ r.wf /\ r.agree
    /\ r.n \in {0, 1}
    /\ r.n = 1 => (r.kind = "result" \/ (r.kind = "error" /\ r.code \in AllowedCodes))
    /\ r.cls = "blank" => (r.n = 0 /\ cfg' = cfg)
    /\ r.cls \in {"garbage", "nonreq"} =>
          (r.n = 1 /\ r.kind = "error" /\ r.code = PARSE_ERROR /\ r.idk = "null" /\ cfg' = cfg)
    /\ r.cls = "obj" =>
          \* a JSON object with string jsonrpc and method members: a request, unless the request type
          \* rejects it (duplicate member), which is a parse error
          /\ r.hasid => (r.n = 1 /\ (r.idk = "echo" \/ (r.idk = "null" /\ r.code = PARSE_ERROR)))
          /\ ~r.hasid => (r.n = 0 \/ (r.idk = "null" /\ r.code = PARSE_ERROR))
    \* r.cls = "array": the positional form is judged in the replay part (it has a finding key there)

TraceNext ==
    /\ i <= Len(Rec)
    /\ i' = i + 1
    /\ LET r == Rec[i] IN
       \/ r.ev = "Init" /\ NewRun
       \/ r.ev = "Start" /\ Start(r.a) /\ StartObs(r)
       \/ r.ev = "Req" /\ Step(r.r) /\ ReqObs(r)
       \/ r.ev = "Raw" /\ RawStep(r)

TraceSpec == TraceInit /\ [][TraceNext]_<<vars, i>>

TraceAccepted ==
    LET d == TLCGet("stats").diameter IN
    IF d - 1 = Len(Rec) THEN TRUE
    ELSE /\ PrintT(<<"TRACE-REJECTED", d, ToJson(Rec[d])>>)
         /\ FALSE
=============================================================================
