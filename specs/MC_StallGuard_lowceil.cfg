SPECIFICATION MCSpec
CONSTANTS
  Floor = 1000
  RttMult = 4
  DwellMult = 2
  PullFloor = 250
  PullMult = 2
  Sat = 1500
  Rtts = {0, 250}
  Ceils = {500}
  StepSet = {250, 500}
  Export = FALSE
INVARIANT NeverBlind
PROPERTIES LatchRiseOK LatchFallOK PullFallOKModuloD4 GuardOffClears OnlySelectMoves
CHECK_DEADLOCK FALSE
