--------------------------- MODULE Trace_ShellGuard ---------------------------
(* Two clauses about the stall guard on the arm-level recordings (ShellSim:   *)
(* the real handle_srt_packet / handle_uplink_packet / handle_housekeeping    *)
(* on real links, every link's flags logged after every call):                *)
(*  C12  with the guard disabled, a routing decision leaves no stall flag,    *)
(*       latch or silence pull standing on any link -- whichever path through *)
(*       handle_srt_packet routed the datagram (scheduler, retransmit /       *)
(*       keyframe override);                                                  *)
(*  C13  a link's delivery proof is renewed only by what the statement calls  *)
(*       proof: an SRTLA ACK for a packet it holds or a keepalive echo --     *)
(*       i.e. only while an uplink datagram of one of those two classes is    *)
(*       being processed; never by a cumulative SRT ACK, a NAK, other bytes,  *)
(*       a routing decision or the passing of time.                           *)
EXTENDS Integers, Sequences, Json, IOUtils, TLC

CONSTANT Check

Rec == ndJsonDeserialize(IOEnv.TRACE)

VARIABLES i, guard, proof      \* proof: <<per link>> of the line before

Proofs(r) == [l \in 1..Len(r.links) |-> r.links[l].proof]

Carries(r) ==   \* the line processed uplink datagrams that can be delivery proof
    \/ r.ev = "UplinkPkt" /\ r.cls \in {"srtla_ack", "ka"}
    \/ r.ev \in {"Drain", "Burst"}

TraceInit == i = 1 /\ guard = TRUE /\ proof = <<>>

TraceNext ==
    /\ i <= Len(Rec)
    /\ i' = i + 1
    /\ LET r == Rec[i] IN
       /\ guard' = IF r.ev \in {"Init", "SetCfg"} /\ "guard" \in DOMAIN r THEN r.guard ELSE guard
       /\ proof' = IF "links" \in DOMAIN r THEN Proofs(r) ELSE proof
       /\ ("C12" \in Check /\ r.ev = "ClientPkt" /\ ~guard /\ r.regdone) =>
              \A l \in 1..Len(r.links) : ~r.links[l].gated /\ ~r.links[l].latched /\ ~r.links[l].pulled
       /\ ("C13" \in Check /\ r.ev # "Init" /\ "links" \in DOMAIN r /\ Len(r.links) = Len(proof)) =>
              \A l \in 1..Len(r.links) : r.links[l].proof > proof[l] => Carries(r)

TraceSpec == TraceInit /\ [][TraceNext]_<<i, guard, proof>>

TraceAccepted ==
    LET d == TLCGet("stats").diameter IN
    IF d - 1 = Len(Rec) THEN TRUE
    ELSE /\ PrintT(<<"TRACE-REJECTED", d, ToJson([ev |-> Rec[d].ev, t |-> Rec[d].t])>>)
         /\ FALSE
=============================================================================
