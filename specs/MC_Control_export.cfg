SPECIFICATION MCSpec
CONSTANTS
  TMin = 1000
  TMax = 60000
  TDefault = 5000
  MsInts = {0, 999, 1000, 1001, 5000, 59999, 60000, 60001}
  MsHuge = {"4294967296", "9007199254740993", "9223372036854775808", "18446744073709551615"}
  CliRaw = {0, 999, 5000, 60001}
  CliFixed <- CliFixedDef
  Export = TRUE
VIEW View
ACTION_CONSTRAINT Emit
INVARIANTS TypeOK ClausesHold LastOK
CHECK_DEADLOCK FALSE
