SPECIFICATION TraceSpec
CONSTANTS
  Addrs = {"a", "b", "c", "d", "e", "f", "v6", "x"}
  Unbindable = {"v6", "x"}
  Seqs = {1, 2, 3, 4, 5, 6, 7, 8, 9, 10, 11, 12}
  StMax = 0
  Exact = TRUE
INVARIANTS IdsDistinct
PROPERTIES OrderKept RefusedKeepsQueue
POSTCONDITION TraceAccepted
CHECK_DEADLOCK FALSE
