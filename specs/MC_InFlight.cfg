SPECIFICATION MCSpec
CONSTANTS
  Links = {1, 2}
  Seqs = {0, 1, 2, 3, 4}
  FastRange = 2
  ReSendLowersHwm = TRUE
  MaxEvents = 100000
  Export = FALSE
VIEW View
CONSTRAINT Bound
INVARIANTS Refines HwmSane
PROPERTY StepsRefine
CHECK_DEADLOCK FALSE
