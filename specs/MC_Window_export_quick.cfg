SPECIFICATION IndSpec
CONSTANTS
  WMin = 1000
  WDef = 20000
  WMax = 60000
  WDecr = 100
  WIncr = 30
  FastEnter = 2000
  FastExit = 12000
  WindowSet <- ExportWindows
  Infls <- QuickInfls
  Steps = {1}
  Export = TRUE
  Coarse = TRUE
ACTION_CONSTRAINT EmitInd
CHECK_DEADLOCK FALSE
