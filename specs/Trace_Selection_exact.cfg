SPECIFICATION TraceSpec
CONSTANTS
  Exact = TRUE
POSTCONDITION TraceAccepted
CHECK_DEADLOCK FALSE
