INIT Trivial
NEXT Next
CONSTANTS
  Cap = 7
  Export = FALSE
INVARIANTS ExpandAgree
CHECK_DEADLOCK FALSE
