SPECIFICATION MCSpec
CONSTANTS
  Tasks = {1, 2}
  Chans = {1, 2}
  Cap <- Cap12
  Topics = {"stats", "priority.window"}
  MaxSubs = 2
  MaxPubs = 3
  MaxUnsubs = 1
  MaxRecvs = 2
  MaxCloses = 1
  Export = FALSE
VIEW View
INVARIANTS IdsUnique MsgTagged Ordered ReceivedIsPrefix NothingAfterUnsub ClosedPruned LiveStay PubNeverBlocked
CHECK_DEADLOCK FALSE
