SPECIFICATION SpecL
CONSTANTS
  QDen = 100
  CDen = 10
  ConnInHealthy = TRUE
  OverrideEligible = TRUE
  N = 2
  Recs <- ScoreRecsMid
  Cfgs <- ScoreCfgs
  Kinds <- PlainKind
  Export = TRUE
INVARIANTS L_C03_NoBlackout L_C03_LastUsableNeverGated L_C04_ChoiceEligible L_C04_RoutedEligible L_C10_ClassicIsReference L_C11_Stable L_C11_LeaveOnlyIf L_C11_CapNeverChosen L_C12_GuardOffIsBaseline L_Emit
CHECK_DEADLOCK FALSE
