SPECIFICATION TraceSpec
CONSTANTS
  TMin = 100
  TMax = 200000
  SustainMs = 4000
  EnterPpm = 550000
  ClearPpm = 250000
INVARIANTS InRange FloorUntilRtt LoweredOnlyBy BackoffNeverRaises GrowthBounded LatchRule
POSTCONDITION TraceAccepted
CHECK_DEADLOCK FALSE
