-------------------------- MODULE Trace_ControlConc --------------------------
(* Trace validation for the concurrency layer of C18: a recorded multi-thread *)
(* stress of the real DynamicConfig through the real entry points (2 setter   *)
(* threads calling set_* and reading back with get_status, 1 reader taking    *)
(* snapshot() / get_status), logged PER THREAD in program order with the      *)
(* value each access stored (as applied / echoed) or loaded.                  *)
(*                                                                            *)
(* The atomics are Relaxed: only each single field is a coherent location.    *)
(* So the log is projected per field and TLC searches, for every field of     *)
(* every run, an interleaving of the three program-order logs in which every  *)
(* load returns the value of the latest store -- ControlConc's Store /        *)
(* OwnLoad / SnapLoad restricted to one location.  No interleaving = a loaded *)
(* value that was never stored (e.g. an unclamped timeout), a stale own       *)
(* value, or values seen in an order no single store order explains.          *)
EXTENDS Integers, Sequences, FiniteSets, Json, IOUtils, TLC

CONSTANTS TMin, TMax,
          TField        \* index of conn_timeout_ms in the field list (6)

Rec == ndJsonDeserialize(IOEnv.TRACE)

VARIABLES i,       \* line of the trace
          k,       \* field of that line
          pc,      \* next event per thread log
          mem,     \* the field's atomic
          stored,  \* monitor: every value it held
          own,     \* monitor: per thread, its last store to the field (NoOwn: none yet)
          dirty    \* monitor: another thread stored since

vars == <<i, k, pc, mem, stored, own, dirty>>
NoOwn == -1000000

IsRun(j) == j <= Len(Rec) /\ Rec[j].ev = "Stress"
Logs(j, f) == Rec[j].f[f].logs
NFields(j) == Len(Rec[j].f)
Thr(j, f) == 1..Len(Logs(j, f))

Enter(j, f) ==
    /\ i' = j /\ k' = f
    /\ pc' = [t \in 1..3 |-> 1]
    /\ mem' = IF IsRun(j) THEN Rec[j].f[f].init ELSE 0
    /\ stored' = {IF IsRun(j) THEN Rec[j].f[f].init ELSE 0}
    /\ own' = [t \in 1..3 |-> NoOwn]
    /\ dirty' = [t \in 1..3 |-> FALSE]

TraceInit ==
    /\ i = 1 /\ k = 1 /\ pc = [t \in 1..3 |-> 1]
    /\ mem = IF IsRun(1) THEN Rec[1].f[1].init ELSE 0
    /\ stored = {mem}
    /\ own = [t \in 1..3 |-> NoOwn] /\ dirty = [t \in 1..3 |-> FALSE]

Skip == i <= Len(Rec) /\ ~IsRun(i) /\ Enter(i + 1, 1)

St(t, v) ==     \* ControlConc!Store on this location
    /\ mem' = v /\ stored' = stored \cup {v}
    /\ own' = [own EXCEPT ![t] = v]
    /\ dirty' = [u \in 1..3 |-> IF u = t THEN FALSE ELSE own[u] # NoOwn]

Ld(t, v) ==     \* ControlConc!OwnLoad / SnapLoad on this location
    /\ mem = v
    /\ UNCHANGED <<mem, stored, own, dirty>>

Ev(t) ==
    /\ IsRun(i) /\ t \in Thr(i, k) /\ pc[t] <= Len(Logs(i, k)[t])
    /\ LET e == Logs(i, k)[t][pc[t]] IN IF e.s THEN St(t, e.v) ELSE Ld(t, e.v)
    /\ pc' = [pc EXCEPT ![t] = @ + 1]
    /\ UNCHANGED <<i, k>>

FieldDone ==
    /\ IsRun(i) /\ \A t \in Thr(i, k) : pc[t] > Len(Logs(i, k)[t])
    /\ IF k < NFields(i) THEN Enter(i, k + 1) ELSE Enter(i + 1, 1)

TraceNext == Skip \/ FieldDone \/ \E t \in 1..3 : Ev(t)
TraceSpec == TraceInit /\ [][TraceNext]_vars

(* ---- the property on the interleaving found ---- *)
LoadedWasStored == mem \in stored
TimeoutAlwaysClamped == (IsRun(i) /\ k = TField) => \A v \in stored : v \in TMin..TMax
(* a client's own completed store is visible to its next load unless another store intervened *)
ReadOwnWrite ==
    [][\A t \in 1..3 :
         (IsRun(i) /\ i' = i /\ k' = k /\ pc'[t] = pc[t] + 1 /\ ~Logs(i, k)[t][pc[t]].s /\ own[t] # NoOwn)
            => (Logs(i, k)[t][pc[t]].v = own[t] \/ dirty[t])]_vars

(* the unlogged pressure phase of the same run (2 threads in a tight setter loop, a reader judging every
   snapshot on the spot): no timeout outside the clamp range, none that no call applied, every echo the
   clamped argument *)
HammerClean == IsRun(i) =>
    (/\ Rec[i].hammer.unclamped = 0 /\ Rec[i].hammer.never_stored = 0 /\ Rec[i].hammer.echo_wrong = 0
     \* owned fields: a setting only one thread ever writes reads back as that thread last stored it, whatever
     \* happens to the other settings concurrently (no cross-field lost update)
     /\ Rec[i].hammer.own_field_lost = 0)

(* ---- acceptance: every event of every field of every run was consumed ---- *)
RECURSIVE SumLens(_, _)
SumLens(s, n) == IF n = 0 THEN 0 ELSE Len(s[n]) + SumLens(s, n - 1)
FieldCost(j, f) == SumLens(Logs(j, f), Len(Logs(j, f))) + 1
RECURSIVE LineCostR(_, _)
LineCostR(j, f) == IF f = 0 THEN 0 ELSE FieldCost(j, f) + LineCostR(j, f - 1)
LineCost(j) == IF IsRun(j) THEN LineCostR(j, NFields(j)) ELSE 1
RECURSIVE Total(_)
Total(j) == IF j = 0 THEN 0 ELSE LineCost(j) + Total(j - 1)
(* the line on which the search got stuck after `steps` steps *)
RECURSIVE StuckLine(_, _)
StuckLine(j, steps) == IF j > Len(Rec) THEN Len(Rec)
                       ELSE IF steps < LineCost(j) THEN j ELSE StuckLine(j + 1, steps - LineCost(j))
RECURSIVE StuckField(_, _, _)
StuckField(j, f, steps) == IF ~IsRun(j) \/ f >= NFields(j) THEN f
                           ELSE IF steps < FieldCost(j, f) THEN f ELSE StuckField(j, f + 1, steps - FieldCost(j, f))
RECURSIVE Before(_)
Before(j) == IF j <= 1 THEN 0 ELSE LineCost(j - 1) + Before(j - 1)

TraceAccepted ==
    LET d == TLCGet("stats").diameter
        steps == d - 1
        j == StuckLine(1, steps)
        f == StuckField(j, 1, steps - Before(j)) IN
    IF steps = Total(Len(Rec)) THEN TRUE
    ELSE /\ PrintT(<<"TRACE-REJECTED", j, ToJson([field |-> f, run |-> Rec[j].seed, logs |-> Rec[j].f[f]])>>)
         /\ FALSE
=============================================================================
