SPECIFICATION MCSpec
CONSTANTS
  N = 2
  Floor = 100
  Sustain = 2
  ProbInterval = 15
  ProbWindow = 3
  Rates = {0, 30, 120, 600}
  Delays = {TRUE, FALSE}
  Conns = {TRUE, FALSE}
  MaxTicks = 4
  Export = TRUE
VIEW View
ACTION_CONSTRAINT Emit
CONSTRAINT Bound
INVARIANTS NotWeakWhenOff DelayNeedsTwoTicks RunBounded EnterLeave
PROPERTY ProbationHonoured
CHECK_DEADLOCK FALSE
