SPECIFICATION TraceSpec
CONSTANTS
  MaxLinks = 4
PROPERTY ProofOnlyFromReturnPath
POSTCONDITION TraceAccepted
CHECK_DEADLOCK FALSE
