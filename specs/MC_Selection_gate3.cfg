SPECIFICATION SpecL
CONSTANTS
  QDen = 100
  CDen = 10
  ConnInHealthy = TRUE
  OverrideEligible = TRUE
  N = 3
  Recs <- GateRecs
  Cfgs <- GateCfgs
  Kinds <- PlainKind
  Export = FALSE
INVARIANTS L_C03_NoBlackout L_C03_LastUsableNeverGated L_C04_ChoiceEligible L_C04_RoutedEligible L_C10_ClassicIsReference L_C11_Stable L_C11_LeaveOnlyIf L_C11_CapNeverChosen L_C12_GuardOffIsBaseline
CHECK_DEADLOCK FALSE
