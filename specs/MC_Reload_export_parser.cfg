SPECIFICATION MCSpec
CONSTANTS
  Addrs = {"a", "b", "v6"}
  Unbindable = {"v6"}
  Seqs = {1}
  StMax = 0
  StartLists <- OneStart
  FileSet <- ParserFiles3
  OverFiles <- OverSome
  MaxHist = 2
  Quiet = TRUE
  Export = TRUE
VIEW View
ACTION_CONSTRAINT Emit
INVARIANTS IoConsistent OwnersLive IdsDistinct SelInRange
PROPERTIES ParsedExactly RefusedUntouched SighupTouchesNothing RefusedKeepsQueue
CHECK_DEADLOCK FALSE
