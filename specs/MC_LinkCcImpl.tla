---------------------------- MODULE MC_LinkCcImpl ----------------------------
EXTENDS LinkCcImpl, TLC, Json

CONSTANTS Targets, Obss, Export

GridTargets == (100..140) \cup {117, 118, 133, 134, 150, 200, 333, 500, 999, 1000, 1001, 1500, 2500, 4000, 10000,
                              50000, 99999, 100000, 150000, 188679, 188680, 199999, 200000}
GridObs == {0, 1, 50, 99, 100, 101, 300, 500, 999, 1000, 1001, 2000, 4000, 4001, 10000, 60000, 400000, 2000000}

(* the thorough tier: every target of the low range (where the floor, the 1 Mbit/s seed and the 6 % / 2x bounds
   interact), a 100 kbit/s lattice above it, and a dense set of observed rates *)
GridTargetsFull == (100..5000) \cup {5000 + 100 * k : k \in 0..1950} \cup {188679, 188680, 199999}
GridObsFull == {0, 1} \cup {50 * k : k \in 1..30} \cup {99, 101, 999, 1001, 2000, 4000, 4001, 10000, 60000, 400000, 2000000}

VARIABLE phase    \* 0: a grid state, 1: after one tick

States == {"Bootstrap", "Climbing", "Holding", "BackingOff", "Drain"}

MCInit ==
    /\ phase = 0
    /\ st \in States /\ T \in Targets /\ frt \in {0, 3}
    /\ (st = "Bootstrap" => T = TMin)
    /\ rtt = "none" /\ lossHigh = FALSE /\ unc = FALSE /\ hai = FALSE /\ obs = 0 /\ pst = st /\ pT = T

MCNext ==
    /\ phase = 0 /\ phase' = 1
    /\ \E r \in {"none", "low", "hold", "drain"}, lh \in BOOLEAN, u \in BOOLEAN, h \in BOOLEAN, o \in Obss :
          \* a link that has left Bootstrap keeps its RTT estimate
          /\ (st # "Bootstrap" => r # "none")
          /\ Tick(r, lh, u, h, o)

MCSpec == MCInit /\ [][MCNext]_<<vars, phase>>

C16After == phase = 1 => C16

Emit == (Export /\ frt = 0 /\ ~unc') =>
    PrintT(<<"EDGE", ToJson(<<[e |-> [ev |-> "Tick", pre |-> [st |-> st, T |-> T, rtt |-> rtt'],
                                      obs |-> obs', loss |-> (IF lossHigh' THEN 100 ELSE 0), hai |-> hai'],
                               o |-> [st |-> st', T |-> T', hasRtt |-> (rtt' # "none")]]>>)>>)
=============================================================================
