------------------------------ MODULE MC_Window ------------------------------
(***************************************************************************)
(* Two bounded configurations of Window:                                   *)
(*  - "ind": one step from EVERY state of the real range (window anywhere  *)
(*    in WMin..WMax or a boundary subset, both flags, every age class):    *)
(*    the C06 properties are single-step, so this decides them for all     *)
(*    histories at the REAL constants;                                     *)
(*  - "reach": ordinary reachability from Init with small steps, used for  *)
(*    behaviour export.                                                    *)
(***************************************************************************)
EXTENDS Window, TLC, Json, Sequences

CONSTANTS WindowSet,   \* the windows to start from
          Infls,       \* in-flight counts offered to EarnedAck
          Steps,       \* clock steps (reach)
          Export,
          Coarse       \* TRUE: one representative per age class (used with AllWindows)

T0 == 1000000

QuickWindows == (1000..1040) \cup (1960..2040) \cup (11960..12040) \cup (19980..20020) \cup (59930..60000)
                \cup {3000, 5000, 9000, 15000, 30000, 45000}
AllWindows == 1000..60000
ExportWindows == {1000, 1001, 1029, 1099, 1100, 1101, 1999, 2000, 2001, 2099, 2100, 2101, 11970, 11971, 11972, 11999,
                  12000, 12001, 20000, 59940, 59970, 59971, 59972, 59999, 60000, 7000, 35000}
QuickInfls == {0, 1, 2, 11, 12, 13, 19, 20, 21, 59, 60, 61, 2147483, 2147484, 2147483647}

NakAges == IF Coarse THEN {-1, 400, 1000, 3000, 6000, 8000, 11000}
           ELSE {-1, 0, 1, 499, 500, 501, 1999, 2000, 2001, 4999, 5000, 5001, 6999, 7000, 7001,
                 9999, 10000, 10001, 60000}          \* -1 = never
IncAges == IF Coarse THEN {-1, 200, 500, 2000}
           ELSE {-1, 0, 299, 300, 301, 999, 1000, 1001, 5000}

IndInit ==
    /\ w \in WindowSet /\ fast \in BOOLEAN /\ conn \in BOOLEAN /\ heard \in BOOLEAN /\ (heard => conn)
    /\ classic \in BOOLEAN /\ now = T0 /\ act = "Init" /\ arg = 0
    /\ lastNak \in {IF a = -1 THEN 0 ELSE T0 - a : a \in NakAges}
    /\ lastInc \in {IF a = -1 THEN 0 ELSE T0 - a : a \in IncAges}

Acts ==
    \/ Nak
    \/ \E n \in Infls : EarnedAck(n)
    \/ GlobalAck
    \/ \E v \in BOOLEAN : RecoveryTick(v)
    \/ \E v \in BOOLEAN : HousekeepingTick(v)
    \/ SoftReset \/ FullReset \/ Reg3

(* one step only: every successor is a sink *)
IndNext == act = "Init" /\ Acts
IndSpec == IndInit /\ [][IndNext]_vars
IndView == <<w, fast, lastNak, lastInc, conn, heard, now, classic, act>>   \* `arg` adds no behaviour

Obs == [w |-> w, fast |-> fast, lastNak |-> lastNak, lastInc |-> lastInc, conn |-> conn,
        heard |-> heard, now |-> now, classic |-> classic]

(* export: one behaviour per transition: set the pre-state, do the action, observe *)
EmitInd == (Export /\ act' # "HousekeepingTick") =>
    PrintT(<<"EDGE", ToJson(<<[e |-> [pre |-> Obs, act |-> act', n |-> arg', v |-> (arg' = 1)],
                              o |-> [w |-> w', fast |-> fast', lastNak |-> lastNak',
                                     lastInc |-> lastInc', conn |-> conn', heard |-> heard']]>>)>>)

ReachInit == Init /\ now = T0 /\ classic = FALSE
ReachNext == Acts \/ (\E d \in Steps : Advance(d)) \/ (\E c \in BOOLEAN : SetMode(c))
ReachSpec == ReachInit /\ [][ReachNext]_vars
ReachBound == now <= T0 + 12000
=============================================================================
