------------------------------ MODULE Selection ------------------------------
(***************************************************************************)
(* The scheduling decision as the code makes it, as pure operators over an *)
(* input vector (selection/mod.rs apply_stall_gate + select_connection_idx,*)
(* selection/classic.rs, selection/enhanced.rs, priority.rs                *)
(* select_best_quality_idx and the override in packet_handler.rs).         *)
(*                                                                         *)
(* Properties stated on it: C03 (no blackout), C04 (routed link eligible), *)
(* C10 (classic = reference argmax), C11 (stable / hysteretic / gate       *)
(* precedence), C12b (guard off = no stall history).                       *)
(*                                                                         *)
(* st   : sequence of link records, index order = connection order         *)
(*   phase   "Reg" | "Warm" | "Live" | "Deg"                               *)
(*   conn    connected flag                                                *)
(*   to      is_timed_out(now)                                             *)
(*   latched stall latch engaged AFTER this call's update                  *)
(*   pulled  silence pull held  AFTER this call's update                   *)
(*   weak, lossdeg   classifier / loss-latch verdicts                      *)
(*   capx    in-flight cap exceeded                                        *)
(*   base    window \div (in_flight + queued + 1)   (get_score when conn)  *)
(*   q       quality multiplier in 1/QDen                                  *)
(*   c       soft-cap multiplier in 1/CDen                                 *)
(*   qc      cached quality multiplier the override ranks by, in 1/QDen    *)
(* cfg  : [classic, quality, guard]  (quality = effective_quality_enabled) *)
(* last : previously selected index, 0 = none                              *)
(***************************************************************************)
EXTENDS Integers, FiniteSets, Sequences

CONSTANTS QDen, CDen,           \* denominators of q and c (score units)
          ConnInHealthy,        \* TRUE: `connected` is part of any_healthy / any_unconstrained (repair of D5)
          OverrideEligible      \* TRUE: the priority override only in enhanced mode and only onto a link that
                                \*       is neither timed out nor stall-gated (repair of D2)

None == 0

Links(st) == 1..Len(st)

Sched(k)  == k.phase # "Reg"
Usable(k) == Sched(k) /\ k.conn /\ ~k.to
Held(k)   == k.latched \/ k.pulled

(* ---- apply_stall_gate ---- *)
AnyHealthy(st) ==
    \E i \in Links(st) : /\ ~st[i].to /\ Sched(st[i]) /\ ~Held(st[i])
                         /\ (ConnInHealthy => st[i].conn)
Gated(st, cfg, i) == cfg.guard /\ AnyHealthy(st) /\ Held(st[i])

(* the selectors' skip condition *)
Skipped(st, cfg, i) == st[i].to \/ ~Sched(st[i]) \/ Gated(st, cfg, i)

(* C04's eligibility: registered since its last reset, not timed out, not gated *)
Eligible(st, cfg, i) == ~Skipped(st, cfg, i)

GetScore(k) == IF k.conn THEN k.base ELSE -1

(* first index of S maximising f, None if S is empty *)
FirstMax(S, f(_)) ==
    IF S = {} THEN None
    ELSE CHOOSE i \in S : /\ \A j \in S : f(j) <= f(i)
                          /\ \A j \in S : (j < i) => f(j) < f(i)

(* ---- classic::select_connection ---- *)
ClassicCands(st, cfg) == {i \in Links(st) : ~Skipped(st, cfg, i) /\ GetScore(st[i]) > -1}
ClassicChoice(st, cfg) == LET f(i) == GetScore(st[i]) IN FirstMax(ClassicCands(st, cfg), f)

(* ---- enhanced::select_connection ---- *)
QGated(k) == k.weak \/ k.lossdeg

AnyUnc(st, cfg) ==
    \E i \in Links(st) : /\ ~st[i].to /\ Sched(st[i]) /\ ~QGated(st[i]) /\ ~Gated(st, cfg, i)
                         /\ ~st[i].capx /\ (ConnInHealthy => st[i].conn)

Scored(st, cfg) == {i \in Links(st) : ~Skipped(st, cfg, i) /\ ~(AnyUnc(st, cfg) /\ st[i].capx)}

PW5(k)  == IF k.phase = "Warm" THEN 4 ELSE 5                         \* phase weight x 5
G50(st, cfg, i) == IF AnyUnc(st, cfg) /\ QGated(st[i]) THEN 1 ELSE 50  \* gate penalty x 50
QM(cfg, k) == IF cfg.quality THEN k.q ELSE QDen

(* score x (5 * QDen * CDen * 50): exact in integers *)
Score(st, cfg, i) == GetScore(st[i]) * PW5(st[i]) * QM(cfg, st[i]) * st[i].c * G50(st, cfg, i)
MinusOne == -1 * 5 * QDen * CDen * 50

Factors(st, cfg, i) == <<GetScore(st[i]), PW5(st[i]), QM(cfg, st[i]), st[i].c, G50(st, cfg, i)>>

Cands(st, cfg) == {i \in Scored(st, cfg) : Score(st, cfg, i) > MinusOne}
TopScore(st, cfg) == LET C == Cands(st, cfg) IN
    CHOOSE s \in {Score(st, cfg, i) : i \in C} : \A j \in C : Score(st, cfg, j) <= s

(* The links the code's strict `>` scan may end on.  Equal exact scores built
   from identical factor tuples are equal in f64 too, so the first of them
   wins; equal exact scores from DIFFERENT tuples may round either way.      *)
BestSet(st, cfg) ==
    IF Cands(st, cfg) = {} THEN {None}
    ELSE LET top  == TopScore(st, cfg)
             tied == {i \in Cands(st, cfg) : Score(st, cfg, i) = top}
         IN {i \in tied : ~\E j \in tied : j < i /\ Factors(st, cfg, j) = Factors(st, cfg, i)}

(* hysteresis, for one candidate best b *)
AfterHysteresis(st, cfg, last, b) ==
    IF last = None \/ b = last \/ last \notin Scored(st, cfg) THEN {b}
    ELSE LET cur == Score(st, cfg, last)
             bs  == IF b = None THEN MinusOne ELSE Score(st, cfg, b)
         IN IF bs * 100 < cur * 110 THEN {last}
            ELSE IF bs * 100 = cur * 110 THEN {last, b}
            ELSE {b}

EnhancedAllowed(st, cfg, last) ==
    UNION {AfterHysteresis(st, cfg, last, b) : b \in BestSet(st, cfg)}

(* ---- select_connection_idx ---- *)
Allowed(st, cfg, last) ==
    IF cfg.classic THEN {ClassicChoice(st, cfg)} ELSE EnhancedAllowed(st, cfg, last)

(* ---- the best-path override of handle_srt_packet ---- *)
OverridePick(st) == LET f(i) == st[i].qc IN FirstMax({i \in Links(st) : st[i].conn /\ Sched(st[i])}, f)

(* kind: "data" | "rexmit" | "ctrl";  crit: critical window open *)
OverrideApplies(st, cfg, kind, crit) ==
    /\ kind # "ctrl" /\ (crit \/ kind = "rexmit")
    /\ OverridePick(st) # None
    /\ OverrideEligible => /\ ~cfg.classic
                           /\ ~st[OverridePick(st)].to
                           /\ ~Gated(st, cfg, OverridePick(st))

Routed(st, cfg, last, kind, crit) ==
    IF OverrideApplies(st, cfg, kind, crit) THEN {OverridePick(st)} ELSE Allowed(st, cfg, last)

(* =========================== the properties =========================== *)

(* C03 *)
NoBlackout(st, cfg, last) ==
    (\E i \in Links(st) : Usable(st[i])) => None \notin Allowed(st, cfg, last)
LastUsableNeverGated(st, cfg) ==
    \A i \in Links(st) : (Usable(st[i]) /\ \A j \in Links(st) : j # i => ~Usable(st[j]))
                         => ~Gated(st, cfg, i)

(* C04 *)
ChoiceEligible(st, cfg, last) ==
    \A d \in Allowed(st, cfg, last) : d # None => Eligible(st, cfg, d)
RoutedEligible(st, cfg, last, kind, crit) ==
    \A d \in Routed(st, cfg, last, kind, crit) : d # None => Eligible(st, cfg, d)

(* C10: with the guard off the classic choice is the lowest-index usable link
   of maximal window \div (in_flight + queued + 1), for every packet kind     *)
RefClassic(st) == LET f(i) == st[i].base IN FirstMax({i \in Links(st) : Usable(st[i])}, f)
ClassicIsReference(st, cfg, last, kind, crit) ==
    (cfg.classic /\ ~cfg.guard) => Routed(st, cfg, last, kind, crit) = {RefClassic(st)}

(* C11 *)
Stable(st, cfg, last) ==
    \A d \in Allowed(st, cfg, last) : d # None => d \in Allowed(st, cfg, d)
LeaveOnlyIf(st, cfg, last) ==
    (~cfg.classic /\ last # None /\ last \in Links(st)) =>
        \A d \in Allowed(st, cfg, last) :
            d # last => \/ last \notin Scored(st, cfg)
                        \/ d # None /\ Score(st, cfg, d) * 100 >= Score(st, cfg, last) * 110
                        \/ d = None
CapNeverChosenWhileUnconstrained(st, cfg, last) ==
    ~cfg.classic => \A d \in Allowed(st, cfg, last) :
        (d # None /\ AnyUnc(st, cfg)) => ~st[d].capx

(* C12b: with the guard off nothing is gated and the decision ignores stall history *)
NoHistory(st) == [i \in Links(st) |-> [st[i] EXCEPT !.latched = FALSE, !.pulled = FALSE]]
GuardOffIsBaseline(st, cfg, last) ==
    ~cfg.guard => /\ \A i \in Links(st) : ~Gated(st, cfg, i)
                  /\ Allowed(st, cfg, last) = Allowed(NoHistory(st), cfg, last)
=============================================================================
