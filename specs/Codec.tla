------------------------------- MODULE Codec -------------------------------
(***************************************************************************)
(* C15 -- the SRTLA / SRT wire codec as reference definitions over byte    *)
(* strings.  crate srtla-protocol: types.rs, parsers.rs, builders.rs,      *)
(* constants.rs.  No state: every operator is a pure function of a         *)
(* sequence of bytes (0..255) or of builder arguments.                     *)
(*                                                                         *)
(* Written to be BOUND: one operator per pub fn of the crate, the guards   *)
(* in the order of the code.  The definitions are independent of the code  *)
(* in the sense that matters: they are written from the layouts, never     *)
(* index a byte without a length guard that TLC would trip over (an        *)
(* out-of-domain application is a TLC error), and TLC evaluates them on    *)
(* every enumerated / recorded input.                                      *)
(*                                                                         *)
(* Numbers.  TLC integers are 32-bit signed, so a 32-bit wire word is the  *)
(* pair <<hi16, lo16>>, a 64-bit timestamp the 4-tuple of 16-bit limbs     *)
(* (most significant first).  An optional value is <<>> (None) or <<v>>.   *)
(*                                                                         *)
(* Deliberate shapes of the code that the reference reproduces and names:  *)
(*   NakListAtByte4     the NAK loss list is read from byte 4 (the crate's *)
(*                      own round-trip tests pin this), not from byte 16   *)
(*   NakDanglingStops   a range start without an end word ends the parse  *)
(*   NakEndRaw          the end word of a range is used unmasked           *)
(*   NakCapCountsAll    the 1000 cap is tested against the whole output    *)
(*                      (singles included) when a range element is added;  *)
(*                      singles are always appended                        *)
(*   AckSkips4          SRTLA ACK numbers start after a 4-byte header      *)
(***************************************************************************)
EXTENDS Naturals, Sequences, SequencesExt, TLC

CONSTANT Cap          \* 1000: bound on range expansion in parse_srt_nak

(* ---- type codes (constants.rs) ---- *)
TKeepalive == 36864   \* 0x9000
TAck       == 37120   \* 0x9100
TReg1      == 37376   \* 0x9200
TReg2      == 37377   \* 0x9201
TReg3      == 37378   \* 0x9202
TSrtAck    == 32770   \* 0x8002
TSrtNak    == 32771   \* 0x8003
Magic      == 49183   \* 0xC01F
Version    == 1
IdLen      == 256
RegLen     == 258     \* SRTLA_TYPE_REG1_LEN = SRTLA_TYPE_REG2_LEN = 2 + 256
Reg3Len    == 2
KaLen      == 10
KaExtLen   == 38
Top        == 32768   \* 0x8000: top bit of a 16-bit half

(* ---- bytes and words ---- *)
At(b, k)  == b[k + 1]                         \* byte at wire offset k (0-based)
U16(b, k) == At(b, k) * 256 + At(b, k + 1)
W32(b, k) == <<U16(b, k), U16(b, k + 2)>>     \* big-endian 32-bit word at offset k
HasType(b, t) == Len(b) >= 2 /\ U16(b, 0) = t

Leq32(a, c) == a[1] < c[1] \/ (a[1] = c[1] /\ a[2] <= c[2])
(* a + k modulo 2^32, 0 <= k < 65536 *)
Add32(a, k) == LET lo == a[2] + k IN
               IF lo < 65536 THEN <<a[1], lo>> ELSE <<(a[1] + 1) % 65536, lo - 65536>>
(* min(m, c - a + 1) for a <= c and a small m; never leaves 32-bit signed arithmetic *)
SpanUpTo(a, c, m) ==
    IF c[1] - a[1] >= 2 THEN m
    ELSE LET d == (c[1] - a[1]) * 65536 + c[2] - a[2] + 1 IN IF d < m THEN d ELSE m

(* ---- types.rs ---- *)
PacketType(b) == IF Len(b) < 2 THEN <<>> ELSE <<U16(b, 0)>>

(* data packets: top bit of the first word clear *)
SrtSeq(b) == IF Len(b) < 4 THEN <<>>
             ELSE IF At(b, 0) >= 128 THEN <<>> ELSE <<W32(b, 0)>>

(* retransmit flag: bit 0x04 of byte 4 of a data packet *)
IsRetransmit(b) == Len(b) >= 8 /\ At(b, 0) < 128 /\ (At(b, 4) \div 4) % 2 = 1

IsReg1(b)      == Len(b) = RegLen /\ HasType(b, TReg1)
IsReg2(b)      == Len(b) = RegLen /\ HasType(b, TReg2)
IsReg3(b)      == Len(b) = Reg3Len /\ HasType(b, TReg3)
IsKeepalive(b) == HasType(b, TKeepalive)
IsSrtAck(b)    == HasType(b, TSrtAck)

(* ---- parsers.rs ---- *)
KeepaliveTs(b) == IF Len(b) < KaLen THEN <<>>
                  ELSE IF ~HasType(b, TKeepalive) THEN <<>>
                  ELSE <<<<U16(b, 2), U16(b, 4), U16(b, 6), U16(b, 8)>>>>

(* window and in_flight are i32 in the code: carried here as their 32-bit patterns *)
KeepaliveInfo(b) ==
    IF Len(b) < KaExtLen THEN <<>>
    ELSE IF ~HasType(b, TKeepalive) THEN <<>>
    ELSE IF U16(b, 10) # Magic THEN <<>>
    ELSE IF U16(b, 12) # Version THEN <<>>
    ELSE <<[conn_id |-> W32(b, 14), window |-> W32(b, 18), in_flight |-> W32(b, 22),
            rtt |-> W32(b, 26), nak |-> W32(b, 30), bitrate |-> W32(b, 34)]>>

ParseSrtAck(b) == IF Len(b) < 20 THEN <<>>
                  ELSE IF ~HasType(b, TSrtAck) THEN <<>>
                  ELSE <<W32(b, 16)>>

Payload4(b) == IF Len(b) < 4 THEN 0 ELSE (Len(b) - 4) \div 4   \* whole words after the 4-byte header

(* AckSkips4; whole words only *)
ParseSrtlaAck(b) == IF Len(b) < 8 THEN <<>>
                    ELSE IF ~HasType(b, TAck) THEN <<>>
                    ELSE [k \in 1..Payload4(b) |-> W32(b, 4 * k)]

(* The NAK loss list as SEGMENTS [s |-> first number, n |-> how many consecutive numbers, off |-> entries
   before it]: a single is a segment of 1, a range the inclusive expansion s, s+1, ... (mod 2^32) limited by
   the room left under Cap (NakCapCountsAll).  `singles` counts the single words, `pend` is a range start left without its end word at the
   end of the frame, `wf` says the frame is a well-formed loss list: every range start has its end word (NakDanglingStops), the end has its top bit
   clear (NakEndRaw) and is not below the start, and the cap truncated nothing -- on such frames the layout
   alone fixes the output.
   The walk is a left fold over the whole words after the 4-byte header (SequencesExt!FoldLeft is iterated
   by TLC in Java: a RECURSIVE walk costs TLC 100 us per word on a 375-word frame); `pend` is a range start
   that waits for its end word.  This is the loop of the code word for word: read a word; if its top bit is
   set, mask it, stop if no whole word follows, read the end, expand; else append it. *)
NakEmpty == [segs |-> <<>>, singles |-> 0, have |-> 0, wf |-> TRUE, pend |-> <<>>]

NakStep(acc, w) ==
    IF acc.pend # <<>>
    THEN LET id    == acc.pend[1]
             end   == w                                                   \* NakEndRaw
             room  == IF acc.have < Cap THEN Cap - acc.have ELSE 0        \* NakCapCountsAll
             n     == IF Leq32(id, end) THEN SpanUpTo(id, end, room) ELSE 0
             whole == /\ Leq32(id, end) /\ end[1] < Top
                      /\ SpanUpTo(id, end, room + 1) <= room
         IN [segs |-> Append(acc.segs, [s |-> id, n |-> n, off |-> acc.have]), singles |-> acc.singles,
             have |-> acc.have + n, wf |-> acc.wf /\ whole, pend |-> <<>>]
    ELSE IF w[1] >= Top
    THEN [acc EXCEPT !.pend = << <<w[1] - Top, w[2]>> >>]
    ELSE [segs |-> Append(acc.segs, [s |-> w, n |-> 1, off |-> acc.have]), singles |-> acc.singles + 1,
          have |-> acc.have + 1, wf |-> acc.wf, pend |-> <<>>]

ParseSrtNakSegs(b) ==
    IF Len(b) < 8 THEN NakEmpty
    ELSE IF ~HasType(b, TSrtNak) THEN NakEmpty
    ELSE LET r == FoldLeft(NakStep, NakEmpty, [k \in 1..Payload4(b) |-> W32(b, 4 * k)])   \* NakListAtByte4
         IN [r EXCEPT !.wf = r.wf /\ r.pend = <<>>]                                        \* NakDanglingStops

RECURSIVE Flatten(_)
Flatten(segs) == IF segs = <<>> THEN <<>>
                 ELSE [k \in 1..Head(segs).n |-> Add32(Head(segs).s, k - 1)] \o Flatten(TLCEval(Tail(segs)))

ParseSrtNak(b) == Flatten(ParseSrtNakSegs(b).segs)
NakLen(b)      == ParseSrtNakSegs(b).have

(* k-th (1-based) element of the flattened list without flattening; 1 <= k <= total *)
ElemAt(segs, k) == LET j == CHOOSE j \in 1..Len(segs) : segs[j].off < k /\ k <= segs[j].off + segs[j].n
                   IN Add32(segs[j].s, k - segs[j].off - 1)

(* the literal element-by-element loop of the statement, for cross-checking SpanUpTo/Add32:
     seq = id; while seq <= end && len < Cap { push(seq); seq = seq + 1 mod 2^32 }
   run for at most Cap rounds (each round pushes one element, so the loop cannot take more); a fold, because
   TLC cannot nest 1000 RECURSIVE evaluations on its default stack *)
LoopExpand(id, end, have0) ==
    LET Round(st, k) == IF st.done \/ ~(Leq32(st.seq, end) /\ have0 + Len(st.out) < Cap)
                        THEN [st EXCEPT !.done = TRUE]
                        ELSE [seq |-> Add32(st.seq, 1), out |-> Append(st.out, st.seq), done |-> FALSE]
    IN FoldLeft(Round, [seq |-> id, out |-> <<>>, done |-> FALSE], [k \in 1..Cap |-> k]).out
ClosedExpand(id, end, have) ==
    LET room == IF have < Cap THEN Cap - have ELSE 0
        n == IF Leq32(id, end) THEN SpanUpTo(id, end, room) ELSE 0
    IN [k \in 1..n |-> Add32(id, k - 1)]

(* ---- builders.rs (and the frames of the peer, used to enumerate inputs) ---- *)
Bytes16(x) == <<x \div 256, x % 256>>
Bytes32(w) == Bytes16(w[1]) \o Bytes16(w[2])
(* the big-endian bytes of a sequence of words (not recursive: lists of several hundred words) *)
Words(ws) == [k \in 1..(4 * Len(ws)) |->
                LET w == ws[((k - 1) \div 4) + 1]
                    j == (k - 1) % 4
                IN IF j = 0 THEN w[1] \div 256 ELSE IF j = 1 THEN w[1] % 256
                   ELSE IF j = 2 THEN w[2] \div 256 ELSE w[2] % 256]

BuildReg1(id) == Bytes16(TReg1) \o id
BuildReg2(id) == Bytes16(TReg2) \o id
BuildReg3     == Bytes16(TReg3)                       \* built by the receiver; 2 bytes
BuildSrtlaAck(ws) == Bytes16(TAck) \o <<0, 0>> \o Words(ws)
BuildKeepalive(ts) == Bytes16(TKeepalive) \o Bytes16(ts[1]) \o Bytes16(ts[2]) \o Bytes16(ts[3]) \o Bytes16(ts[4])
BuildKeepaliveExt(info, ts) ==
    BuildKeepalive(ts) \o Bytes16(Magic) \o Bytes16(Version) \o Bytes32(info.conn_id) \o Bytes32(info.window)
    \o Bytes32(info.in_flight) \o Bytes32(info.rtt) \o Bytes32(info.nak) \o Bytes32(info.bitrate)

(* peer frames *)
Zeros(n) == [k \in 1..n |-> 0]
SrtAckFrame(num) == Bytes16(TSrtAck) \o Zeros(14) \o Bytes32(num)
SrtNakFrame(ws)  == Bytes16(TSrtNak) \o <<0, 0>> \o Words(ws)
RangeStart(w)    == <<w[1] + Top, w[2]>>              \* w < 2^31
SrtDataFrame(seq, rex) == Bytes32(seq) \o <<IF rex THEN 4 ELSE 0, 0, 0, 1>> \o Zeros(8)

DecodeReg(b, t) == IF Len(b) = RegLen /\ HasType(b, t) THEN <<SubSeq(b, 3, RegLen)>> ELSE <<>>

(* ---- the properties, as predicates of one input ---- *)
(* at most Cap range-expanded entries plus one entry per 4 payload bytes *)
NakBounded(b) == \E r \in {ParseSrtNakSegs(b)} :        \* (bound once: a LET would re-parse at every use)
                 /\ r.have <= Cap + r.singles
                 /\ r.singles <= Payload4(b)
                 /\ r.have <= Cap + Payload4(b)
                 /\ Len(r.segs) <= Payload4(b)
(* The same clause as a verdict on ANOTHER decoder's list of n entries for the frame b: entries that do not
   come from expanding a range can only come from words that are not part of a complete start/end pair --
   the single words and a dangling range start. *)
NakAllowance(r) == Cap + r.singles + (IF r.pend # <<>> THEN 1 ELSE 0)
AckBounded(b) == Len(ParseSrtlaAck(b)) <= Payload4(b)

(* layouts *)
LayoutReg(id)  == /\ Len(BuildReg1(id)) = 258 /\ Len(BuildReg2(id)) = 258 /\ Len(BuildReg3) = 2
                  /\ IsReg1(BuildReg1(id)) /\ IsReg2(BuildReg2(id)) /\ IsReg3(BuildReg3)
                  /\ ~IsReg2(BuildReg1(id)) /\ ~IsReg1(BuildReg2(id))
LayoutAck(ws)  == /\ Len(BuildSrtlaAck(ws)) = 4 + 4 * Len(ws)
                  /\ \A k \in 1..Len(ws) : W32(BuildSrtlaAck(ws), 4 * k) = ws[k]

(* decode(build(x)) = x *)
RoundTripReg(id)      == DecodeReg(BuildReg1(id), TReg1) = <<id>> /\ DecodeReg(BuildReg2(id), TReg2) = <<id>>
RoundTripAck(ws)      == ParseSrtlaAck(BuildSrtlaAck(ws)) = ws
RoundTripKa(ts)       == KeepaliveTs(BuildKeepalive(ts)) = <<ts>> /\ KeepaliveInfo(BuildKeepalive(ts)) = <<>>
RoundTripKaExt(i, ts) == KeepaliveTs(BuildKeepaliveExt(i, ts)) = <<ts>> /\ KeepaliveInfo(BuildKeepaliveExt(i, ts)) = <<i>>
RoundTripSrtAck(n)    == ParseSrtAck(SrtAckFrame(n)) = <<n>>
RoundTripData(s, r)   == SrtSeq(SrtDataFrame(s, r)) = <<s>> /\ IsRetransmit(SrtDataFrame(s, r)) = r
=============================================================================
