SPECIFICATION TraceSpec
CONSTANTS
  Check = {"C12", "C13"}
POSTCONDITION TraceAccepted
CHECK_DEADLOCK FALSE
