SPECIFICATION TraceSpec
CONSTANTS
  WMin = 1000
  WDef = 20000
  WMax = 60000
  WDecr = 100
  WIncr = 30
  FastEnter = 2000
  FastExit = 12000
  Exact = TRUE
INVARIANT InRange
POSTCONDITION TraceAccepted
CHECK_DEADLOCK FALSE
