SPECIFICATION TraceSpec
CONSTANTS
  Check = {"C12"}
POSTCONDITION TraceAccepted
CHECK_DEADLOCK FALSE
