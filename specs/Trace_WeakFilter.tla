--------------------------- MODULE Trace_WeakFilter ---------------------------
(* Trace validation for C17: tick-by-tick histories of the real classifier   *)
(* (rates in bit/s, 4 link slots) against WeakFilter at the real constants.  *)
EXTENDS WeakFilter, Sequences, Json, IOUtils, TLC

Rec == ndJsonDeserialize(IOEnv.TRACE)

VARIABLE i

TraceInit == Init /\ i = 1

Fresh ==   \* a new filter
    /\ prevWeak' = [l \in Links |-> FALSE] /\ dstreak' = [l \in Links |-> 0]
    /\ sstreak' = [l \in Links |-> 0] /\ prob' = [l \in Links |-> 0]
    /\ out' = [l \in Links |-> NoVerdict] /\ prevOut' = [l \in Links |-> [weak |-> FALSE, reason |-> "None"]]
    /\ inp' = [l \in Links |-> [conn |-> FALSE, rate |-> 0, delay |-> FALSE]]
    /\ prevDelay' = [l \in Links |-> FALSE]
    /\ run' = [l \in Links |-> 0] /\ owed' = [l \in Links |-> 0] /\ covered' = [l \in Links |-> FALSE]

Same(v) == \A l \in Links : /\ out'[l].weak = v[l].weak /\ out'[l].reason = v[l].reason
                            /\ out'[l].share = v[l].share /\ out'[l].thr = v[l].thr

TraceNext ==
    /\ i <= Len(Rec)
    /\ i' = i + 1
    /\ LET r == Rec[i] IN
       \/ r.ev = "Init" /\ Fresh
       \/ r.ev = "Tick" /\ Tick([l \in Links |-> r.inp[l]]) /\ Same(r.v)

TraceSpec == TraceInit /\ [][TraceNext]_<<vars, i>>

TraceAccepted ==
    LET d == TLCGet("stats").diameter IN
    IF d - 1 = Len(Rec) THEN TRUE
    ELSE /\ PrintT(<<"TRACE-REJECTED", d, ToJson(Rec[d])>>)
         /\ FALSE
=============================================================================
