----------------------------- MODULE MC_NakAttr -----------------------------
(* Bounded exhaustive exploration of NakAttr: ring of 2 slots, numbers 0..3 (0/2 and 1/3 collide), 2 links,   *)
(* clock steps landing on age = MaxAge and MaxAge + 1, unique copies re-routed to another link, probe copies,  *)
(* cumulative and SRTLA ACKs, resets, NAKs of every number at every point.  C05 is checked for every number   *)
(* in every reachable state; with Export every path is printed for replay on the real tracker / links.        *)
EXTENDS NakAttr, TLC, Json

CONSTANTS Seqs, MaxEvents, Export

VARIABLES now, hist,
          rew     \* rew[k]: the last write of slot k re-wrote the same (number, link) -- kept only so that the
                  \*         export distinguishes such histories (the real tracker might treat them specially)

mcvars == <<vars, now, hist, rew>>

L == 1..MaxLinks

MCInit == Init /\ now = 0 /\ hist = <<>> /\ rew = [k \in 0..(R - 1) |-> FALSE]

Ev(name, l, s) == [ev |-> name, l |-> l, s |-> s, t |-> now]
Obs(f) == [infl |-> [l \in L |-> Cardinality(f[l])]]
Log(e, o) == hist' = Append(hist, [e |-> e, o |-> o])

(* the shell's route + flush of one unique copy: ring write, then the number is in flight on u *)
RouteSend(u, s) ==
    /\ ring' = Write(ring, s % R, [seq |-> s, link |-> u, t |-> now]) /\ act' = "Routed"
    /\ out' = [out EXCEPT ![u] = @ \cup {s}]
    /\ rew' = [rew EXCEPT ![s % R] = (Slot(s % R).seq = s /\ Slot(s % R).link = u)]
    /\ Log(Ev("RouteSend", u, s), Obs(out')) /\ UNCHANGED now
(* a probe copy: in flight on p, the ring is not touched *)
ProbeSend(p, s) ==
    /\ Sent([l \in Links |-> IF l = p THEN {s} ELSE {}])
    /\ Log(Ev("ProbeSend", p, s), Obs(out')) /\ UNCHANGED <<now, rew>>
Ack(a)       == CumAck(a) /\ Log(Ev("CumAck", 0, a), Obs(out')) /\ UNCHANGED <<now, rew>>
SAck(arr, s) == SrtlaAcks(arr, <<s>>) /\ Log(Ev("SrtlaAck", arr, s), Obs(out')) /\ UNCHANGED <<now, rew>>
Nak(s)       == /\ Naks(<<s>>, now) /\ UNCHANGED <<now, rew>>
                /\ Log(Ev("Nak", 0, s), [infl |-> Obs(out').infl, ch |-> Charged(out, s, now)])
Rst(l)       == Reset({l}) /\ Log(Ev("Reset", l, 0), Obs(out')) /\ UNCHANGED <<now, rew>>
Adv(d)       == /\ now' = now + d /\ Other /\ UNCHANGED rew /\ Log([ev |-> "Advance", l |-> 0, s |-> d, t |-> now], Obs(out))

MCNext ==
    \/ \E u \in L, s \in Seqs : RouteSend(u, s)
    \/ \E p \in L, s \in Seqs : ProbeSend(p, s)
    \/ \E a \in Seqs : Ack(a)
    \/ \E l \in L, s \in Seqs : SAck(l, s)
    \/ \E s \in Seqs : Nak(s)
    \/ \E l \in L : Rst(l)
    \/ \E d \in {1, MaxAge, MaxAge + 1} : Adv(d)

MCSpec == MCInit /\ [][MCNext]_mcvars

View == <<out, ring, now, rew>>
Bound == Len(hist) < MaxEvents /\ now <= 3 * MaxAge + 2
BoundNow == now <= 3 * MaxAge + 2      \* no depth bound: the view space is finite
C05 == \A s \in Seqs : ChargeRule(s, now) /\ RepeatIsNoOp(s, now)
Emit == Export => PrintT(<<"EDGE", ToJson([cfg |-> [nak |-> TRUE, links |-> MaxLinks], steps |-> hist'])>>)
=============================================================================
