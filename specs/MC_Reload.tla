------------------------------ MODULE MC_Reload ------------------------------
(***************************************************************************)
(* Bounded exhaustive configurations of Reload and behaviour export.       *)
(*  - graph configurations: every interleaving of Route / Mutate / Sighup  *)
(*    / ApplyPending from every start list, ids canonicalised in the VIEW   *)
(*    (ids are fresh tokens: only equality matters);                        *)
(*  - parser configuration: one Sighup per file of the full line alphabet   *)
(*    (the parser's input space as the transitions out of one state).       *)
(* Export: one line per transition with the whole path (hist is hidden     *)
(* from the VIEW), replayed on the real code by `vh replay reload`.         *)
(***************************************************************************)
EXTENDS Reload, TLC, Json

CONSTANTS StartLists,   \* startup lists
          FileSet,      \* files a SIGHUP may find
          MaxHist,      \* bound on the path length
          Quiet,        \* TRUE: Route / Mutate only while nothing is queued (sound reduction: they commute
                        \*       with Sighup, so the reachable states and the Sighup / Apply steps are the same)
          OverFiles,    \* files a second SIGHUP may find while a list is still queued
          Export

VARIABLE hist

Ln(k, a, v) == [k |-> k, a |-> a, v |-> v]
File(ls)    == [missing |-> FALSE, lines |-> ls]
Missing     == [missing |-> TRUE, lines |-> <<>>]
SeqsUpTo(S, n) == UNION {[1..m -> S] : m \in 0..n}
IpFile(l)   == File([i \in 1..Len(l) |-> Ln("ip", l[i], 0)])

(* graph files: every list of <= 3 addresses (duplicates, any order), the three refusals, mixed garbage *)
ListsUpTo(n) == SeqsUpTo(Addrs, n) \ {<<>>}
SomeAddr     == CHOOSE a \in Addrs : TRUE
GraphFiles(n) ==
    {IpFile(l) : l \in ListsUpTo(n)}
      \cup {Missing, File(<<>>), File(<<Ln("ws", "-", 0), Ln("blank", "-", 0)>>), File(<<Ln("bad", "-", 0)>>)}
      \cup {File(<<Ln("bad", "-", 1), Ln("ip", a, 1), Ln("blank", "-", 0), Ln("ip", a, 2)>>) : a \in Addrs}
GraphFiles2 == GraphFiles(2)
GraphFiles3 == GraphFiles(3)
Starts2 == ListsUpTo(2)
Starts3 == ListsUpTo(3)
Start3Distinct == {l \in ListsUpTo(3) : Len(l) = 3 /\ Cardinality(Range(l)) = 3}

(* parser files: <= 4 lines over the full alphabet (rendering variants v are chosen by the replay for bad
   lines: 8 garbage shapes; for ip lines: 0 plain, 1 padded, 2 CRLF-terminated; address tokens incl. IPv6) *)
ParserAlphabet ==
    {Ln("blank", "-", 0), Ln("ws", "-", 0)}
      \cup {Ln("ip", a, v) : a \in Addrs, v \in {0, 1, 2}}
      \cup {Ln("bad", "-", g) : g \in 0..7}
ParserFiles4 == {File(l) : l \in SeqsUpTo(ParserAlphabet, 4)} \cup {Missing}
ParserFiles3 == {File(l) : l \in SeqsUpTo(ParserAlphabet, 3)} \cup {Missing}
OneStart == {<<"a">>}
StartsQuick == {<<"a", "b", "c">>, <<"b", "a">>, <<"c", "a", "c">>}
(* the unmodified event loop with a real SIGHUP: reload sequences only *)
LoopStarts == {<<"a", "b">>, <<"c", "a", "c">>}
LoopFiles  == {IpFile(<<"a">>), IpFile(<<"b", "c">>), IpFile(<<"c", "a", "c">>), IpFile(<<"a", "b", "c">>),
               IpFile(<<"b", "a">>), Missing, File(<<>>), File(<<Ln("bad", "-", 3), Ln("ws", "-", 0)>>),
               File(<<Ln("bad", "-", 1), Ln("ip", "b", 1), Ln("blank", "-", 0), Ln("ip", "b", 2)>>)}
StartsAB == {<<"a", "b">>, <<"b">>}
StartsMid == StartsQuick \cup Starts2
(* a second SIGHUP before the first list was applied: the three refusals and two replacements *)
OverSome == {Missing, File(<<>>), File(<<Ln("bad", "-", 0)>>), IpFile(<<"b">>), IpFile(<<"c", "a">>)}

SetToSeq(S) == LET RECURSIVE F(_) F(T) == IF T = {} THEN <<>> ELSE
                      LET x == CHOOSE y \in T : \A z \in T : y <= z IN <<x>> \o F(T \ {x})
               IN F(S)

Obs == [labels |-> [i \in DOMAIN conns' |-> conns'[i].addr],
        ids    |-> [i \in DOMAIN conns' |-> conns'[i].id],
        io     |-> SetToSeq(io'),
        owner  |-> [s \in Seqs |-> owner'[s]],
        sel    |-> lastSel',
        pend   |-> pending']
Kept == [j \in DOMAIN conns' |-> conns'[j] \in Range(conns)]

MCInit == Init /\ hist = <<>>

Step ==
    \/ \E l \in StartLists : Start(l) /\ hist' = Append(hist, [e |-> [ev |-> "Start", list |-> l], o |-> Obs])
    \/ \E i \in DOMAIN conns, s \in Seqs :
         /\ Quiet => pending = <<>>
         /\ Route(i, s) /\ hist' = Append(hist, [e |-> [ev |-> "Route", l |-> i, s |-> s], o |-> Obs])
    \/ \E i \in DOMAIN conns :
         /\ Quiet => pending = <<>>
         /\ Mutate(i) /\ hist' = Append(hist, [e |-> [ev |-> "Mutate", l |-> i], o |-> Obs])
    \/ \E f \in FileSet :
         /\ pending # <<>> => f \in OverFiles
         /\ Sighup(f)
         /\ hist' = Append(hist, [e |-> [ev |-> "Sighup", file |-> f],
                                  o |-> Obs @@ [refused |-> res'.refused, reason |-> res'.reason, list |-> res'.list,
                                                fi |-> res'.fi, agree |-> TRUE, kept |-> Kept]])
    \/ /\ ApplyPending
       /\ hist' = Append(hist, [e |-> [ev |-> "Apply"],
                                o |-> Obs @@ [kept |-> Kept, applied |-> arg',
                                              nrem |-> Cardinality({i \in DOMAIN conns : conns[i].addr \notin Range(arg')})]])

(* the depth bound is a guard (not a CONSTRAINT) so that every generated transition is exported *)
MCNext == Len(hist) < MaxHist /\ Step
MCSpec == MCInit /\ [][MCNext]_<<vars, hist>>

(* the same graph without the path (model checking only) *)
PlainNext ==
    /\ UNCHANGED hist
    /\ \/ \E l \in StartLists : Start(l)
       \/ \E i \in DOMAIN conns, s \in Seqs : (Quiet => pending = <<>>) /\ Route(i, s)
       \/ \E i \in DOMAIN conns : (Quiet => pending = <<>>) /\ Mutate(i)
       \/ \E f \in FileSet : (pending # <<>> => f \in OverFiles) /\ Sighup(f)
       \/ ApplyPending
PlainSpec == MCInit /\ [][PlainNext]_<<vars, hist>>

(* ids are fresh tokens; under IoConsistent / OwnersLive / IdsDistinct only their equalities matter *)
Pos(id) == IF id = None THEN 0
           ELSE IF id \in IdsOf(conns) THEN CHOOSE i \in DOMAIN conns : conns[i].id = id ELSE -1
View == <<[i \in DOMAIN conns |-> <<conns[i].addr, conns[i].st>>], [s \in Seqs |-> Pos(owner[s])],
          {Pos(x) : x \in io}, lastSel, pending, act = "Init">>

(* where the queue is not observable (event-loop replay) a refusal must be followed further: keep the step
   after a refused SIGHUP apart from the state it leaves unchanged *)
ViewR == <<View, act = "Sighup" /\ res.refused>>

Emit == Export => PrintT(<<"EDGE", ToJson(hist')>>)
=============================================================================
