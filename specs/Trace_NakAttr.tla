--------------------------- MODULE Trace_NakAttr ---------------------------
(* Trace validation for C05 (and C02 at shell level) on ShellSim runs: after every arm call each link's
   in-flight count must equal |out[l]|, and around every NAK datagram the per-link loss count, window and
   in-flight deltas must be exactly the charges NakAttr assigns.                                          *)
EXTENDS NakAttr, Json, IOUtils, TLC

Rec == ndJsonDeserialize(IOEnv.TRACE)

VARIABLES i, pl     \* position; [win, naks] per link after the previous line

N(r) == Len(r.links)

RECURSIVE SeqsOn(_, _)
SeqsOn(w, l) == IF w = <<>> THEN {}
                ELSE (IF Head(w).l = l /\ Head(w).cls = "data" /\ Head(w).seq >= 0 THEN {Head(w).seq} ELSE {})
                     \cup SeqsOn(Tail(w), l)

SentSets(r) == [l \in Links |-> IF l <= N(r) THEN SeqsOn(r.wire, l) ELSE {}]
PlOf(r) == [l \in Links |-> IF l <= N(r) THEN [win |-> r.links[l].win, naks |-> r.links[l].naks] ELSE [win |-> 0, naks |-> 0]]
Counts(r) == \A l \in 1..N(r) : r.links[l].infl = Cardinality(out'[l])
Marked(r) == {l \in 1..N(r) : r.marked[l]}

TraceInit == Init /\ i = 1 /\ pl = [l \in Links |-> [win |-> 20000, naks |-> 0]]

(* the link that received the unique copy: the one recorded as last selected, if its queue (or its wire) grew *)
Unique(r) == IF r.lastsel # 0 /\ r.lastsel <= N(r)
                /\ (r.links[r.lastsel].queued > r.q0[r.lastsel] \/ SeqsOn(r.wire, r.lastsel) # {}
                    \/ r.marked[r.lastsel])
             THEN r.lastsel ELSE 0

Step(r) ==
    IF r.ev = "Init" THEN /\ out' = [l \in Links |-> {}] /\ ring' = EmptyRing /\ act' = "Init"
    ELSE IF r.ev = "ClientPkt" THEN
        \* route (the ring is written for a unique data copy), then whatever was flushed is in flight;
        \* a link whose flush failed was reset
        LET u == Unique(r)
            ring1 == IF r.pseq >= 0 /\ u # 0 THEN Write(ring, r.pseq % R, [seq |-> r.pseq, link |-> u, t |-> r.t])
                     ELSE ring
        IN /\ ring' = ring1 /\ act' = "Sent"
           /\ out' = [l \in Links |-> IF l \in Marked(r) THEN {} ELSE out[l] \cup SentSets(r)[l]]
    ELSE IF r.ev = "FlushTick" THEN
        \* a link whose send failed is reset (its optimistic registrations go with it)
        /\ act' = "Sent" /\ UNCHANGED ring
        /\ out' = [l \in Links |-> IF l \in Marked(r) THEN {} ELSE out[l] \cup SentSets(r)[l]]
    ELSE IF r.ev = "Housekeeping" THEN
        LET T == {l \in 1..N(r) : r.pre[l].to /\ r.pre[l].due} IN (IF T = {} THEN Other ELSE Reset(T))
    ELSE IF r.ev = "UplinkPkt" THEN
        (IF r.len < 2 THEN Other
         ELSE IF r.cls = "reg3" THEN Reset({r.l})
         ELSE IF r.cls = "srt_ack" /\ r.nums # <<>> THEN CumAck(r.nums[1])
         ELSE IF r.cls = "srtla_ack" THEN SrtlaAcks(r.l, r.nums)
         ELSE IF r.cls = "srt_nak" THEN
              /\ Naks(r.nums, r.t)
              \* exactly the charges: one loss count, one window decrement (floored), one in-flight slot each
              /\ LET ch == NakResult(r.nums, r.t)[2] IN
                 \A l \in 1..N(r) : /\ r.links[l].naks = pl[l].naks + ch[l]
                                    /\ r.links[l].win = Cut(pl[l].win, ch[l])
         ELSE Other)
    ELSE Other

TraceNext ==
    /\ i <= Len(Rec)
    /\ i' = i + 1
    /\ LET r == Rec[i] IN
       /\ Step(r) /\ Counts(r) /\ pl' = PlOf(r)
       \* loss counts never move outside a NAK datagram (or a reset)
       /\ (r.ev # "Init" /\ ~(r.ev = "UplinkPkt" /\ r.cls \in {"srt_nak", "reg3"}) /\ r.ev # "Housekeeping")
             => \A l \in 1..N(r) : r.links[l].naks = pl[l].naks

TraceSpec == TraceInit /\ [][TraceNext]_<<vars, i, pl>>

TraceAccepted ==
    LET d == TLCGet("stats").diameter IN
    IF d - 1 = Len(Rec) THEN TRUE
    ELSE /\ PrintT(<<"TRACE-REJECTED", d, ToJson([ev |-> Rec[d].ev, t |-> Rec[d].t, wire |-> Rec[d].wire,
                                                   links |-> Rec[d].links])>>)
         /\ FALSE
=============================================================================
