--------------------------- MODULE Trace_NakAttr ---------------------------
(* Trace validation for C05 (and C02 at shell level) on ShellSim runs: after every arm call each link's
   in-flight count must equal |out[l]|, and around every NAK datagram the per-link loss count, window and
   in-flight deltas must be exactly the charges NakAttr assigns.                                          *)
EXTENDS NakAttr, Json, IOUtils, TLC, SequencesExt

Rec == ndJsonDeserialize(IOEnv.TRACE)

CONSTANT CheckClassic   \* TRUE: additionally (C10) while the run is in classic mode with the stall guard off, every
                        \* routed packet must go to the reference argmax and every window must evolve by the
                        \* reference rules exactly

VARIABLES i, pl,    \* position; [win, naks, infl, queued] per link after the previous line
          ref       \* the run is currently in classic mode with the guard off

N(r) == Len(r.links)

RECURSIVE SeqsOn(_, _)
SeqsOn(w, l) == IF w = <<>> THEN {}
                ELSE (IF Head(w).l = l /\ Head(w).cls = "data" /\ Head(w).seq >= 0 THEN {Head(w).seq} ELSE {})
                     \cup SeqsOn(Tail(w), l)

(* some stream datagram (anything but the sender's own keepalives / handshake) left on l during the step *)
RECURSIVE FlushedOn(_, _)
FlushedOn(w, l) == IF w = <<>> THEN FALSE
                   ELSE (Head(w).l = l /\ Head(w).cls \notin {"ka", "reg1", "reg2"}) \/ FlushedOn(Tail(w), l)

SentSets(r) == [l \in Links |-> IF l <= N(r) THEN SeqsOn(r.wire, l) ELSE {}]
PlOf(r) == [l \in Links |-> IF l <= N(r)
              THEN [win |-> r.links[l].win, naks |-> r.links[l].naks, infl |-> r.links[l].infl,
                    queued |-> r.links[l].queued]
              ELSE [win |-> 0, naks |-> 0, infl |-> 0, queued |-> 0]]

Counts(r) == \A l \in 1..N(r) : r.links[l].infl = Cardinality(out'[l])
Marked(r) == {l \in 1..N(r) : r.marked[l]}

TraceInit == Init /\ i = 1 /\ pl = [l \in Links |-> [win |-> 20000, naks |-> 0, infl |-> 0, queued |-> 0]]
             /\ ref = FALSE

(* the link that received the unique copy: the one recorded as last selected, if its queue (or its wire) grew *)
Unique(r) == IF r.lastsel # 0 /\ r.lastsel <= N(r)
                /\ (r.links[r.lastsel].queued > r.q0[r.lastsel] \/ FlushedOn(r.wire, r.lastsel)
                    \/ r.marked[r.lastsel])
             THEN r.lastsel ELSE 0

(* ---- C10: the reference srtla_send algorithm ---- *)
WMax == 60000
(* usable when the choice was made: the flags after the call, except that a link this very call reset
   (its flush failed) was usable when it was chosen *)
UsableL(r, l) == r.marked[l] \/ (r.links[l].conn /\ r.links[l].phase # "Reg" /\ ~r.links[l].to)
RefScore(l) == pl[l].win \div (pl[l].infl + pl[l].queued + 1)
RefChoice(r) ==
    LET U == {l \in 1..N(r) : UsableL(r, l)} IN
    IF U = {} THEN 0
    ELSE CHOOSE l \in U : /\ \A m \in U : RefScore(m) <= RefScore(l)
                          /\ \A m \in U : m < l => RefScore(m) < RefScore(l)

(* windows after an SRTLA ACK list: +29 on the link that earned it iff in-flight x 1000 exceeds its window,
   +1 on every connected link that has heard anything, per listed number *)
Heard(r, l) == r.links[l].conn /\ r.links[l].recv # -1
(* one listed number: acc = <<outstanding sets, windows>> *)
AckWin1(acc, s, arr, r) ==
    LET f == acc[1]  w == acc[2]
        h == IF s \in f[arr] THEN arr ELSE FirstHolder(f, s, arr)
        f1 == IF h = 0 THEN f ELSE [f EXCEPT ![h] = @ \ {s}]
        w1 == IF h # 0 /\ Cardinality(f1[h]) * 1000 > w[h]
              THEN [w EXCEPT ![h] = IF @ + 29 > WMax THEN WMax ELSE @ + 29] ELSE w
        w2 == [l \in Links |-> IF l <= N(r) /\ Heard(r, l) THEN (IF w1[l] + 1 > WMax THEN WMax ELSE w1[l] + 1)
                               ELSE w1[l]]
    IN <<f1, w2>>
(* (FoldLeft evaluates eagerly; a RECURSIVE operator over a 374-number list does not finish) *)
AckWin(f, w, arr, lst, r) == FoldLeft(LAMBDA acc, s : AckWin1(acc, s, arr, r), <<f, w>>, lst)[2]

PrevWin == [l \in Links |-> pl[l].win]
WinsAre(r, w) == \A l \in 1..N(r) : r.links[l].win = w[l]
WinsKept(r, Rs) == \A l \in 1..N(r) : r.links[l].win = IF l \in Rs THEN 20000 ELSE pl[l].win

Classic(r) ==
    IF r.ev = "ClientPkt" THEN
        /\ (r.regdone => Unique(r) = RefChoice(r))
        /\ WinsKept(r, Marked(r))
    ELSE IF r.ev = "FlushTick" THEN WinsKept(r, Marked(r))
    ELSE IF r.ev = "Housekeeping" THEN          \* no time-based recovery in classic mode
        WinsKept(r, {l \in 1..N(r) : r.pre[l].to /\ r.pre[l].due})
    ELSE IF r.ev = "UplinkPkt" /\ r.len >= 2 /\ r.cls = "srtla_ack" THEN WinsAre(r, AckWin(out, PrevWin, r.l, r.nums, r))
    ELSE IF r.ev = "UplinkPkt" /\ r.len >= 2 /\ r.cls = "srt_nak" THEN TRUE     \* checked by the NAK rule above
    ELSE WinsKept(r, {})

Step(r) ==
    IF r.ev = "Init" THEN /\ out' = [l \in Links |-> {}] /\ ring' = EmptyRing /\ act' = "Init"
    ELSE IF r.ev = "ClientPkt" THEN
        \* route (the ring is written for a unique data copy), then whatever was flushed is in flight;
        \* a link whose flush failed was reset
        LET u == Unique(r)
            ring1 == IF r.pseq >= 0 /\ u # 0 THEN Write(ring, r.pseq % R, [seq |-> r.pseq, link |-> u, t |-> r.t])
                     ELSE ring
        IN /\ ring' = ring1 /\ act' = "Sent"
           /\ out' = [l \in Links |-> IF l \in Marked(r) THEN {} ELSE out[l] \cup SentSets(r)[l]]
    ELSE IF r.ev = "FlushTick" THEN
        \* a link whose send failed is reset (its optimistic registrations go with it)
        /\ act' = "Sent" /\ UNCHANGED ring
        /\ out' = [l \in Links |-> IF l \in Marked(r) THEN {} ELSE out[l] \cup SentSets(r)[l]]
    ELSE IF r.ev = "Housekeeping" THEN
        LET T == {l \in 1..N(r) : r.pre[l].to /\ r.pre[l].due} IN (IF T = {} THEN Other ELSE Reset(T))
    ELSE IF r.ev = "UplinkPkt" THEN
        (IF r.len < 2 THEN Other
         ELSE IF r.cls = "reg3" THEN Reset({r.l})
         ELSE IF r.cls = "srt_ack" /\ r.nums # <<>> THEN CumAck(r.nums[1])
         ELSE IF r.cls = "srtla_ack" THEN SrtlaAcks(r.l, r.nums)
         ELSE IF r.cls = "srt_nak" THEN
              /\ Naks(r.nums, r.t)
              \* exactly the charges: one loss count, one window decrement (floored), one in-flight slot each
              /\ LET ch == NakResult(r.nums, r.t)[2] IN
                 \A l \in 1..N(r) : /\ r.links[l].naks = pl[l].naks + ch[l]
                                    /\ r.links[l].win = Cut(pl[l].win, ch[l])
         ELSE Other)
    ELSE Other

TraceNext ==
    /\ i <= Len(Rec)
    /\ i' = i + 1
    /\ LET r == Rec[i] IN
       /\ Step(r) /\ Counts(r) /\ pl' = PlOf(r)
       /\ ref' = IF r.ev \in {"Init", "SetCfg"} THEN (r.mode = "classic" /\ ~r.guard) ELSE ref
       /\ (CheckClassic /\ ref /\ r.ev # "Init") => Classic(r)
       \* loss counts never move outside a NAK datagram (or a reset)
       /\ (r.ev # "Init" /\ ~(r.ev = "UplinkPkt" /\ r.cls \in {"srt_nak", "reg3"}) /\ r.ev # "Housekeeping")
             => \A l \in 1..N(r) : r.links[l].naks = pl[l].naks

TraceSpec == TraceInit /\ [][TraceNext]_<<vars, i, pl, ref>>

TraceAccepted ==
    LET d == TLCGet("stats").diameter IN
    IF d - 1 = Len(Rec) THEN TRUE
    ELSE /\ PrintT(<<"TRACE-REJECTED", d, ToJson([ev |-> Rec[d].ev, t |-> Rec[d].t, wire |-> Rec[d].wire,
                                                   links |-> Rec[d].links])>>)
         /\ FALSE
=============================================================================
