----------------------------- MODULE Forwarding -----------------------------
(***************************************************************************)
(* C01 (and the shell half of C04, C03): the uplink path.                  *)
(*                                                                         *)
(* State: one FIFO of packet identities (digests) per uplink, as the       *)
(* property sees it.  A client datagram is accepted onto exactly one       *)
(* eligible uplink (which one is the scheduler's business -- any eligible  *)
(* link is allowed), possibly copied as a probe onto stall-gated uplinks,  *)
(* leaves that uplink's socket byte-identical and in queue order when the  *)
(* queue is flushed (size threshold or the 15 ms tick), and is lost only   *)
(* if its uplink is reset / re-registered / fails to send before then.     *)
(*                                                                         *)
(* The actions take what the environment and the code chose (the link that *)
(* got the unique copy, which links flushed) as parameters; the guards are *)
(* the property.                                                           *)
(***************************************************************************)
EXTENDS Integers, Sequences, FiniteSets

CONSTANTS MaxLinks,     \* link slots 1..MaxLinks
          MaxBatch,     \* 32
          ProbeGap,     \* 100
          CheckEligibility   \* TRUE: Route also demands C04 (unique copy onto an eligible uplink); the C01
                             \* check leaves it to the C04 check so that each alarm names the right property

Links == 1..MaxLinks

VARIABLES q,        \* q[l]: identities queued on l, oldest first
          gap,      \* gap[l]: data packets routed since l's last probe copy
          act

vars == <<q, gap, act>>

Init == /\ q = [l \in Links |-> <<>>] /\ gap = [l \in Links |-> 0] /\ act = "Init"

(* flags of a link as the code reports them after the step *)
Eligible(k)  == k.phase # "Reg" /\ ~k.to /\ ~k.gated
Usable(k)    == k.conn /\ k.phase # "Reg" /\ ~k.to

(* Route: datagram d goes to u (0 = nowhere), probe copies to the set P, and the links in F flush
   (their whole queue leaves, in order) during the same call.
     st      : link flags after the call
     n       : number of links in this run
     isData  : the datagram carries an SRT data sequence number (probes are data only)
     regDone : the session is established (registration_complete)
     failed  : links whose socket send failed during the call (the batch is lost, the link is reset) *)
Route(d, u, P, F, failed, st, n, isData, regDone) ==
    /\ act' = "Route"
    /\ u \in 0..n /\ P \subseteq (1..n) \ {u} /\ F \subseteq 1..n /\ failed \subseteq F
    /\ IF u = 0
       THEN \* nothing carried it: only if no uplink is usable (C01 / C03), or before the session exists and
            \* every link is timed out
            /\ P = {}
            /\ IF regDone THEN \A l \in 1..n : ~Usable(st[l]) ELSE \A l \in 1..n : st[l].to
       ELSE \* C04: the unique copy goes to an eligible uplink (judged at queue time)
            /\ CheckEligibility => (u \in failed \/ (IF regDone THEN Eligible(st[u]) ELSE ~st[u].to))
    \* probe copies: data only, only on stall-gated connected links, at most one per ProbeGap routed packets
    /\ P # {} => (isData /\ regDone)
    /\ \A p \in P : (st[p].gated \/ p \in failed) /\ gap[p] + 1 >= ProbeGap
    /\ LET q1 == [l \in Links |-> IF l = u \/ l \in P THEN Append(q[l], d) ELSE q[l]]
       IN /\ \A l \in F : q1[l] # <<>>          \* only a link that holds something flushes
          /\ q' = [l \in Links |-> IF l \in F THEN <<>> ELSE q1[l]]
    /\ gap' = [l \in Links |-> IF l \in P THEN 0
                               ELSE IF isData /\ regDone /\ u # 0 THEN gap[l] + 1 ELSE gap[l]]

(* what leaves on link l's socket when l flushes during Route *)
RouteWire(d, u, P, F, failed, l) ==
    IF l \in F /\ l \notin failed THEN (IF l = u \/ l \in P THEN Append(q[l], d) ELSE q[l]) ELSE <<>>

(* the 15 ms tick: every non-empty queue leaves, whole and in order; a link whose send fails loses it *)
FlushTick(failed) ==
    /\ act' = "FlushTick"
    /\ q' = [l \in Links |-> <<>>]
    /\ UNCHANGED gap
FlushWire(failed, l) == IF l \in failed THEN <<>> ELSE q[l]

(* a link is reset / re-registered (teardown in housekeeping, REG3): what it still held is lost *)
LinkReset(R) ==
    /\ act' = "LinkReset"
    /\ q' = [l \in Links |-> IF l \in R THEN <<>> ELSE q[l]]
    /\ gap' = [l \in Links |-> IF l \in R THEN 0 ELSE gap[l]]

Other == act' = "Other" /\ UNCHANGED <<q, gap>>

(* ======================= the property (C01) ======================= *)
(* held for at most one batch *)
QueueBound == \A l \in Links : Len(q[l]) <= MaxBatch
(* nothing is queued across a flush tick *)
EmptyAfterTick == act = "FlushTick" => \A l \in Links : q[l] = <<>>
(* An accepted datagram leaves a queue without reaching the wire only in Route / FlushTick on a link whose
   send failed, or in LinkReset: there is no other action that shortens a queue. *)
=============================================================================
