------------------------------- MODULE Control -------------------------------
(***************************************************************************)
(* C18 -- the runtime control protocol: one action per entry point of the  *)
(* code.                                                                   *)
(*                                                                         *)
(*   Start(a)   DynamicConfig::new() / DynamicConfig::from_cli(..)         *)
(*              (src/config.rs:45,57; from_cli clamps the timeout)         *)
(*   Step(r)    one input line through control::dispatch (stdin) and       *)
(*              control::dispatch_async (Unix socket) -> handle_method     *)
(*              (src/control.rs:141-395), guards in the order of the code: *)
(*              blank line, parse, version, method, params, notification.  *)
(*                                                                         *)
(* A line is abstracted to                                                 *)
(*   [cls  : blank | garbage | bytes (not UTF-8) | nonreq | req,           *)
(*    ver  : ok | bad,          id : absent | null | num | str,            *)
(*    m    : method name class, p  : parameter class]                      *)
(* and the binding renders every abstract line into several concrete ones  *)
(* (key order, whitespace, unicode, nested junk, extreme numbers, noise).  *)
(*                                                                         *)
(* Deliberate deviations of the code from plain JSON-RPC 2.0, named:       *)
(*   NonRequestIsParseError        valid JSON that is not a request object *)
(*                                 gets -32700 with a null id (not -32600) *)
(*   NullIdIsNotification          "id": null is treated as "no id"        *)
(*   BadVersionNotificationDropped a wrong-version line without id is      *)
(*                                 neither answered nor applied            *)
(*   SyncHasNoSubscriptions        subscribe / unsubscribe /               *)
(*                                 get_subscription_count are unknown      *)
(*                                 methods on stdin                        *)
(*                                                                         *)
(* NOT modelled, because the fixed interpretation forbids it (it is the    *)
(* finding C18/NonRequestIsParseError/positional-array-taken-as-request):  *)
(* the code also accepts the positional ARRAY form of its request type,    *)
(* ["2.0", method, params, id]; the binding renders such lines for the     *)
(* class "nonreq" and reports the deviation under that key.                *)
(***************************************************************************)
EXTENDS Integers

CONSTANTS TMin, TMax,     \* CONN_TIMEOUT_MS_MIN / CONN_TIMEOUT_MS_MAX (1000 / 60000)
          TDefault        \* CONN_TIMEOUT_MS (srtla_protocol::CONN_TIMEOUT x 1000 = 5000)

PARSE_ERROR      == -32700
INVALID_REQUEST  == -32600
METHOD_NOT_FOUND == -32601
INVALID_PARAMS   == -32602
AllowedCodes == {PARSE_ERROR, INVALID_REQUEST, METHOD_NOT_FOUND, INVALID_PARAMS}

Modes      == {"classic", "enhanced"}
Topics     == {"stats", "priority.window"}
Setters    == {"set_mode", "set_quality", "set_stall_deselect", "set_conn_timeout"}
Getters    == {"get_status", "get_stats"}
SubMethods == {"subscribe", "unsubscribe", "get_subscription_count"}
Entries    == {"sync", "async"}

(* ---- parameter classes: uniform records so that TLC never compares values of different types ---- *)
PStr(s)  == [k |-> "str",  s |-> s,  b |-> FALSE, n |-> 0]   \* the expected member is this string
PBool(b) == [k |-> "bool", s |-> "", b |-> b,     n |-> 0]   \* ... this boolean
PU64(n)  == [k |-> "u64",  s |-> "", b |-> FALSE, n |-> n]   \* ... this non-negative integer
PHuge(s) == [k |-> "huge", s |-> s,  b |-> FALSE, n |-> 0]   \* ... a u64 above TLC's integers, s = its decimal digits
PBad(f)  == [k |-> "bad",  s |-> f,  b |-> FALSE, n |-> 0]   \* missing / ill-typed in flavour f
PAny     == [k |-> "any",  s |-> "", b |-> FALSE, n |-> 0]   \* the method reads no parameter

ClampN(n)  == IF n < TMin THEN TMin ELSE IF n > TMax THEN TMax ELSE n
ClampMs(p) == IF p.k = "huge" THEN TMax ELSE ClampN(p.n)

(* ---- result payloads ---- *)
Val(t, s, b, n) == [t |-> t, s |-> s, b |-> b, n |-> n]
NoVal == Val("none", "", FALSE, 0)

VARIABLES started,   \* a DynamicConfig exists
          cfg,       \* its six atomics
          last       \* monitor: the last line, the configuration before it, both entry points' answers

vars == <<started, cfg, last>>

Cfg(mode, q, sd, minif, stale, t) ==
    [mode |-> mode, quality |-> q, stall |-> sd, minif |-> minif, stale |-> stale, timeout |-> t]
DefaultCfg == Cfg("enhanced", TRUE, TRUE, 32, 3000, TDefault)

TypeOK == /\ cfg.mode \in Modes /\ cfg.quality \in BOOLEAN /\ cfg.stall \in BOOLEAN
          /\ cfg.timeout \in TMin..TMax

(* ======================= responses ======================= *)
Resp(present, id, kind, code, val) == [present |-> present, id |-> id, kind |-> kind, code |-> code, val |-> val]
NoResp           == Resp(FALSE, "none", "none", 0, NoVal)
ErrResp(id, c)   == Resp(TRUE, id, "error", c, NoVal)
OkResp(id, val)  == Resp(TRUE, id, "result", 0, val)

(* ======================= handle_method (src/control.rs:287) ======================= *)
Ok(val, c2)  == [ok |-> TRUE,  code |-> 0,    val |-> val,   c2 |-> c2]
Err(code, c) == [ok |-> FALSE, code |-> code, val |-> NoVal, c2 |-> c]

Handle(c, entry, m, p) ==
    CASE m = "set_mode" ->
            IF p.k = "str" /\ p.s \in Modes
            THEN Ok(Val("mode", p.s, FALSE, 0), [c EXCEPT !.mode = p.s])
            ELSE Err(INVALID_PARAMS, c)
      [] m = "set_quality" ->
            IF p.k = "bool" THEN Ok(Val("flag", "", p.b, 0), [c EXCEPT !.quality = p.b])
            ELSE Err(INVALID_PARAMS, c)
      [] m = "set_stall_deselect" ->
            IF p.k = "bool" THEN Ok(Val("flag", "", p.b, 0), [c EXCEPT !.stall = p.b])
            ELSE Err(INVALID_PARAMS, c)
      [] m = "set_conn_timeout" ->
            \* one clamp, one store, the applied value is echoed (src/config.rs:121)
            IF p.k \in {"u64", "huge"}
            THEN Ok(Val("ms", "", FALSE, ClampMs(p)), [c EXCEPT !.timeout = ClampMs(p)])
            ELSE Err(INVALID_PARAMS, c)
      [] m = "get_status" -> Ok(Val("status", "same", FALSE, 0), c)   \* its content is Obs.status
      [] m = "get_stats"  -> Ok(Val("stats", "same", FALSE, 0), c)    \* provider registered (both entry points)
      \* the three subscription methods exist on the socket only (SyncHasNoSubscriptions)
      [] m = "subscribe" /\ entry = "async" ->
            IF p.k = "str" /\ p.s \in Topics THEN Ok(Val("sub", "", FALSE, 0), c) ELSE Err(INVALID_PARAMS, c)
      [] m = "unsubscribe" /\ entry = "async" ->
            IF p.k = "str" THEN Ok(Val("unsub", "", FALSE, 0), c) ELSE Err(INVALID_PARAMS, c)
      [] m = "get_subscription_count" /\ entry = "async" -> Ok(Val("count", "", FALSE, 0), c)
      [] OTHER -> Err(METHOD_NOT_FOUND, c)

(* ======================= dispatch / dispatch_async ======================= *)
HasId(r) == r.id \notin {"absent", "null"}                       \* NullIdIsNotification

Dispatch(c, entry, r) ==
    IF r.cls = "blank" THEN [resp |-> NoResp, c2 |-> c]
    ELSE IF r.cls \in {"garbage", "bytes", "nonreq"}               \* NonRequestIsParseError
         THEN [resp |-> ErrResp("null", PARSE_ERROR), c2 |-> c]
    ELSE IF r.ver = "bad"                                          \* BadVersionNotificationDropped
         THEN [resp |-> IF HasId(r) THEN ErrResp("echo", INVALID_REQUEST) ELSE NoResp, c2 |-> c]
    ELSE LET h == Handle(c, entry, r.m, r.p) IN
         [resp |-> IF ~HasId(r) THEN NoResp
                   ELSE IF h.ok THEN OkResp("echo", h.val) ELSE ErrResp("echo", h.code),
          c2   |-> h.c2]

(* what the same line would be answered with under a correct version: lets the binding tell
   "reported the other applicable error first" (not fixed by the statement) from a wrong answer *)
AltCode(c, entry, r) ==
    IF r.cls = "req" /\ r.ver = "bad" THEN Handle(c, entry, r.m, r.p).code ELSE 0

(* ======================= actions ======================= *)
NoLine == [cls |-> "none", ver |-> "ok", id |-> "absent", m |-> "", p |-> PAny]
Last0  == [r |-> NoLine, pre |-> DefaultCfg, resp |-> NoResp, aresp |-> NoResp]

Init == started = FALSE /\ cfg = DefaultCfg /\ last = Last0

(* a: [kind |-> "new"] or [kind |-> "cli", mode, nq, nsd, minif, stale, raw (PU64 / PHuge)] *)
StartCfg(a) == IF a.kind = "new" THEN DefaultCfg
               ELSE Cfg(a.mode, ~a.nq, ~a.nsd, a.minif, a.stale, ClampMs(a.raw))
Start(a) == /\ ~started /\ started' = TRUE
            /\ cfg' = StartCfg(a)
            /\ last' = [Last0 EXCEPT !.pre = StartCfg(a)]

Step(r) == /\ started /\ UNCHANGED started
           /\ cfg' = Dispatch(cfg, "sync", r).c2
           /\ last' = [r |-> r, pre |-> cfg, resp |-> Dispatch(cfg, "sync", r).resp,
                       aresp |-> Dispatch(cfg, "async", r).resp]

(* ======================= the property (C18), clause by clause ======================= *)
(* written from the statement, over a configuration c, a line r and an entry point e *)

IsRequest(r) == r.cls = "req"
GoodParams(m, p) ==
    CASE m = "set_mode" -> p.k = "str" /\ p.s \in Modes
      [] m \in {"set_quality", "set_stall_deselect"} -> p.k = "bool"
      [] m = "set_conn_timeout" -> p.k \in {"u64", "huge"}
      [] m = "subscribe" -> p.k = "str" /\ p.s \in Topics
      [] m = "unsubscribe" -> p.k = "str"
      [] OTHER -> TRUE
KnownAt(e, m) == m \in Setters \cup Getters \/ (e = "async" /\ m \in SubMethods)

(* a request with an id gets exactly one response echoing it, result or one of the four errors;
   a notification gets none; an unparsable line gets -32700 with a null id *)
AnswerOK(c, e, r) ==
    LET a == Dispatch(c, e, r).resp IN
    /\ (IsRequest(r) /\ HasId(r)) =>
          /\ a.present /\ a.id = "echo"
          /\ a.kind = "result" \/ (a.kind = "error" /\ a.code \in AllowedCodes \ {PARSE_ERROR})
    /\ (IsRequest(r) /\ ~HasId(r)) => ~a.present
    /\ r.cls \in {"garbage", "bytes", "nonreq"} =>
          (a.present /\ a.id = "null" /\ a.kind = "error" /\ a.code = PARSE_ERROR)
    /\ r.cls = "blank" => ~a.present

(* which error means what *)
CodeOK(c, e, r) ==
    LET a == Dispatch(c, e, r).resp IN
    (IsRequest(r) /\ HasId(r)) =>
        /\ r.ver = "bad" => a.code = INVALID_REQUEST
        /\ (r.ver = "ok" /\ ~KnownAt(e, r.m)) => a.code = METHOD_NOT_FOUND
        /\ (r.ver = "ok" /\ KnownAt(e, r.m) /\ ~GoodParams(r.m, r.p)) => a.code = INVALID_PARAMS
        /\ (r.ver = "ok" /\ KnownAt(e, r.m) /\ GoodParams(r.m, r.p)) => a.kind = "result"

(* a successful set_* -- answered or not (notification) -- is in the next snapshot and status;
   the timeout is clamped and echoed as applied *)
Successful(e, r) == IsRequest(r) /\ r.ver = "ok" /\ r.m \in Setters /\ GoodParams(r.m, r.p)
StatusOf(c, e) == Handle(c, e, "get_status", PAny).c2     \* what the next get_status reports
TakesEffect(c, e, r) ==
    LET d == Dispatch(c, e, r)  s == StatusOf(d.c2, e) IN
    Successful(e, r) =>
        /\ r.m = "set_mode" => (d.c2.mode = r.p.s /\ s.mode = r.p.s)
        /\ r.m = "set_quality" => (d.c2.quality = r.p.b /\ s.quality = r.p.b)
        /\ r.m = "set_stall_deselect" => (d.c2.stall = r.p.b /\ s.stall = r.p.b)
        /\ r.m = "set_conn_timeout" =>
              /\ d.c2.timeout = ClampMs(r.p) /\ s.timeout = ClampMs(r.p)
              /\ d.c2.timeout \in TMin..TMax
              /\ HasId(r) => (d.resp.val.t = "ms" /\ d.resp.val.n = d.c2.timeout)
(* nothing but a successful setter changes the configuration, and it changes its own field only *)
Frame(c, e, r) ==
    LET d == Dispatch(c, e, r) IN
    /\ ~Successful(e, r) => d.c2 = c
    /\ d.c2.minif = c.minif /\ d.c2.stale = c.stale
    /\ r.m # "set_mode" => d.c2.mode = c.mode
    /\ r.m # "set_quality" => d.c2.quality = c.quality
    /\ r.m # "set_stall_deselect" => d.c2.stall = c.stall
    /\ r.m # "set_conn_timeout" => d.c2.timeout = c.timeout
(* stdin and socket answer everything but the subscription methods identically *)
EntryPointsAgree(c, r) ==
    (r.cls # "req" \/ r.m \notin SubMethods) => Dispatch(c, "sync", r) = Dispatch(c, "async", r)

Clauses(c, r) ==
    /\ \A e \in Entries : AnswerOK(c, e, r) /\ CodeOK(c, e, r) /\ TakesEffect(c, e, r) /\ Frame(c, e, r)
    /\ EntryPointsAgree(c, r)

(* on the line just taken (recorded behaviours: the line may lie outside any enumerated alphabet) *)
LastOK == (started /\ last.r.cls # "none") => Clauses(last.pre, last.r)
=============================================================================
