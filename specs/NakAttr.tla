------------------------------- MODULE NakAttr -------------------------------
(***************************************************************************)
(* C05 (and C02 at shell level): who is charged for a NAK.                  *)
(*                                                                         *)
(* out[l]   the numbers link l has transmitted and not retired (InFlight's  *)
(*          set model, driven here by what actually left on the sockets)   *)
(* ring     the sender's memory of which link carried the UNIQUE copy of a  *)
(*          number: slot (s mod R) holds [seq, link, t]; written when the   *)
(*          copy is queued, never for probe copies; valid while it still    *)
(*          holds the same number and is at most MaxAge old                 *)
(*                                                                         *)
(* Code: packet_handler.rs attribute_nak / forward_via_connection,          *)
(* sequence.rs, ack_nak.rs handle_nak, congestion/mod.rs handle_nak.        *)
(***************************************************************************)
EXTENDS Integers, Sequences, FiniteSets

CONSTANTS MaxLinks, R, MaxAge,
          WDecr, WFloor          \* 100, 1000

Links == 1..MaxLinks
NoSlot == [seq |-> -1, link |-> 0, t |-> 0]

VARIABLES out, ring, act

vars == <<out, ring, act>>

(* the ring is kept as a partial function: only the slots that were ever written *)
EmptyRing == [k \in {} |-> NoSlot]
Init == /\ out = [l \in Links |-> {}] /\ ring = EmptyRing /\ act = "Init"

Slot(k) == IF k \in DOMAIN ring THEN ring[k] ELSE NoSlot
Write(rg, k, e) == [j \in (DOMAIN rg) \cup {k} |-> IF j = k THEN e ELSE rg[j]]

Remembered(s, now) == LET e == Slot(s % R) IN e.link # 0 /\ e.seq = s /\ now - e.t <= MaxAge
Owner(s) == Slot(s % R).link

(* the unique copy of s is queued on u at time t *)
Routed(u, s, t) == /\ act' = "Routed" /\ ring' = Write(ring, s % R, [seq |-> s, link |-> u, t |-> t])
                   /\ UNCHANGED out

(* numbers S[l] leave on l's socket (a flush registers them as in flight) *)
Sent(S) == /\ act' = "Sent" /\ out' = [l \in Links |-> out[l] \cup S[l]] /\ UNCHANGED ring

CumAck(a) == /\ act' = "CumAck" /\ out' = [l \in Links |-> {s \in out[l] : s > a}] /\ UNCHANGED ring

FirstHolder(f, s, skip) ==
    LET H == {l \in Links : l # skip /\ s \in f[l]}
    IN IF H = {} THEN 0 ELSE CHOOSE l \in H : \A m \in H : l <= m

(* one SRTLA ACK: the arrival link if it holds s, else one other holder *)
Ack1(f, arr, s) == IF s \in f[arr] THEN [f EXCEPT ![arr] = @ \ {s}]
                   ELSE LET h == FirstHolder(f, s, arr) IN IF h = 0 THEN f ELSE [f EXCEPT ![h] = @ \ {s}]
RECURSIVE AckAll(_, _, _)
AckAll(f, arr, lst) == IF lst = <<>> THEN f ELSE AckAll(Ack1(f, arr, Head(lst)), arr, Tail(lst))
SrtlaAcks(arr, lst) == /\ act' = "SrtlaAcks" /\ out' = AckAll(out, arr, lst) /\ UNCHANGED ring

(* the link charged for a NAK of s at time now, 0 = nobody *)
Charged(f, s, now) ==
    IF s < 0 THEN 0
    ELSE IF Remembered(s, now) THEN (IF s \in f[Owner(s)] THEN Owner(s) ELSE 0)
    ELSE FirstHolder(f, s, 0)      \* not remembered: one holder (the code takes the first in index order)

(* a NAK list, number by number; ch[l] counts the charges to l *)
RECURSIVE NakAll(_, _, _, _)
NakAll(f, ch, lst, now) ==
    IF lst = <<>> THEN <<f, ch>>
    ELSE LET c == Charged(f, Head(lst), now) IN
         IF c = 0 THEN NakAll(f, ch, Tail(lst), now)
         ELSE NakAll([f EXCEPT ![c] = @ \ {Head(lst)}], [ch EXCEPT ![c] = @ + 1], Tail(lst), now)

NoCharge == [l \in Links |-> 0]
NakResult(lst, now) == NakAll(out, NoCharge, lst, now)
Naks(lst, now) == /\ act' = "Naks" /\ out' = NakResult(lst, now)[1] /\ UNCHANGED ring

(* the window after k charges *)
RECURSIVE Cut(_, _)
Cut(w, k) == IF k = 0 THEN w ELSE Cut(IF w - WDecr < WFloor THEN WFloor ELSE w - WDecr, k - 1)

Reset(Rs) == /\ act' = "Reset" /\ out' = [l \in Links |-> IF l \in Rs THEN {} ELSE out[l]] /\ UNCHANGED ring
Other == act' = "Other" /\ UNCHANGED <<out, ring>>

(* ======================= the property (C05), on the model ======================= *)
(* each NAKed number is charged at most once, only to a holder, and while remembered only to the owner *)
ChargeRule(s, now) ==
    LET c == Charged(out, s, now) IN
    /\ c # 0 => s \in out[c]
    /\ (s >= 0 /\ Remembered(s, now) /\ c # 0) => c = Owner(s)
(* a repeated NAK changes nothing: after the charge nobody who is still chargeable under the memory rule holds it *)
RepeatIsNoOp(s, now) ==
    LET c == Charged(out, s, now) IN
    (c # 0 /\ Remembered(s, now)) => Charged([out EXCEPT ![c] = @ \ {s}], s, now) = 0
=============================================================================
