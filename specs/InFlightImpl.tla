---------------------------- MODULE InFlightImpl ----------------------------
(***************************************************************************)
(* C02 -- the accounting as the code has it                                *)
(* (crates/srtla-core/src/connection/ack_nak.rs, mod.rs take_batch,        *)
(*  src/sender/packet_handler.rs process_connection_events/attribute_nak). *)
(*                                                                         *)
(*   log[l]  = keys of packet_log         hwm[l] = highest_acked_seq       *)
(*   in_flight_packets = Cardinality(log[l]) (set after every mutation)    *)
(*                                                                         *)
(* `out` is the ghost copy of the property-level model (InFlight), stepped *)
(* by the property's own rule next to the code's rule.  Refines ==         *)
(* log = out is the refinement invariant; StepsRefine checks every ghost   *)
(* step is an InFlight step.                                               *)
(***************************************************************************)
EXTENDS Integers, FiniteSets, Sequences

CONSTANTS Links, Seqs,
          FastRange,        \* 64 in the code: largest gap served by the targeted removal
          ReSendLowersHwm   \* TRUE: register_packet lowers the high-water mark when it
                            \* registers a number at or below it (repair of D1)

NoHwm == -1000              \* i32::MIN in the code: no cumulative ACK seen since reset

VARIABLES log, hwm, out

vars == <<log, hwm, out>>

Abs == INSTANCE InFlight

Init == /\ log = [l \in Links |-> {}]
        /\ hwm = [l \in Links |-> NoHwm]
        /\ out = [l \in Links |-> {}]

(* register_packet via take_batch *)
Send(l, s) ==
    /\ log' = [log EXCEPT ![l] = @ \cup {s}]
    /\ hwm' = IF ReSendLowersHwm /\ hwm[l] # NoHwm /\ s <= hwm[l]
              THEN [hwm EXCEPT ![l] = s - 1] ELSE hwm
    /\ Abs!Send(l, s)

(* handle_srt_ack on one link *)
ImplAckLog(l, a) ==
    IF a <= hwm[l] THEN log[l]                                   \* early return
    ELSE IF hwm[l] # NoHwm /\ a - hwm[l] <= FastRange
         THEN log[l] \ ((hwm[l] + 1) .. a)                        \* targeted removal
         ELSE {s \in log[l] : s > a}                              \* retain
ImplAckHwm(l, a) == IF a <= hwm[l] THEN hwm[l] ELSE a

(* process_connection_events: every link sees the cumulative ACK *)
CumAck(a) ==
    /\ log' = [l \in Links |-> ImplAckLog(l, a)]
    /\ hwm' = [l \in Links |-> ImplAckHwm(l, a)]
    /\ Abs!CumAck(a)

(* first holder other than `skip`, in index order (0 = none) *)
FirstHolder(f, s, skip) ==
    LET H == {l \in Links : l # skip /\ s \in f[l]}
    IN IF H = {} THEN 0 ELSE CHOOSE l \in H : \A m \in H : l <= m

(* process_connection_events: arrival link first, else first other holder *)
SrtlaAckOn(f, arr, s) ==
    IF s \in f[arr] THEN [f EXCEPT ![arr] = @ \ {s}]
    ELSE LET h == FirstHolder(f, s, arr)
         IN IF h = 0 THEN f ELSE [f EXCEPT ![h] = @ \ {s}]

SrtlaAck(arr, s) ==
    /\ log' = SrtlaAckOn(log, arr, s)
    /\ out' = SrtlaAckOn(out, arr, s)
    /\ UNCHANGED hwm

(* attribute_nak with no tracker record: first holder in index order *)
NakOn(f, s) ==
    LET h == FirstHolder(f, s, 0)
    IN IF h = 0 THEN f ELSE [f EXCEPT ![h] = @ \ {s}]

Nak(s) ==
    /\ log' = NakOn(log, s)
    /\ out' = NakOn(out, s)
    /\ UNCHANGED hwm

(* reset_core_state / clear_pre_registration_state *)
Reset(l) ==
    /\ log' = [log EXCEPT ![l] = {}]
    /\ hwm' = [hwm EXCEPT ![l] = NoHwm]
    /\ Abs!Reset(l)

Next ==
    \/ \E l \in Links, s \in Seqs : Send(l, s)
    \/ \E a \in Seqs : CumAck(a)
    \/ \E l \in Links, s \in Seqs : SrtlaAck(l, s)
    \/ \E s \in Seqs : Nak(s)
    \/ \E l \in Links : Reset(l)

Spec == Init /\ [][Next]_vars

(* ---- what TLC checks ---- *)
Refines == \A l \in Links : log[l] = out[l]          \* in_flight = |out[l]| follows
StepsRefine == [][Abs!Next]_out                      \* the ghost only takes property steps
HwmSane == \A l \in Links : hwm[l] = NoHwm \/ hwm[l] \in (Seqs \cup {-1})
=============================================================================
