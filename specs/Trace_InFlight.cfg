SPECIFICATION TraceSpec
CONSTANTS
  Links = {1, 2, 3, 4}
  Seqs <- TSeqs
INVARIANT NeverNegative
POSTCONDITION TraceAccepted
CHECK_DEADLOCK FALSE
