SPECIFICATION TraceSpec
CONSTANTS
  Check = {"C18"}
POSTCONDITION TraceAccepted
CHECK_DEADLOCK FALSE
