----------------------------- MODULE MC_Selection -----------------------------
(***************************************************************************)
(* Exhaustive enumeration of the selector's input space.  The "state graph"*)
(* is the input space itself: every vector is an initial state, every C03 /*)
(* C04 / C10 / C11 / C12b statement is an invariant evaluated on it, and   *)
(* (Export) every vector is printed with the set of decisions the          *)
(* specification allows, for replay on the real selector.                  *)
(*                                                                         *)
(* Bits the code only ever uses as a disjunction are enumerated once       *)
(* (`latched` stands for latched \/ pulled, `weak` for weak \/ lossdeg);   *)
(* the replay expands each into its concrete variants.                     *)
(***************************************************************************)
EXTENDS Selection, TLC, Json

CONSTANTS N,          \* number of links
          Recs,       \* per-link records to enumerate
          Cfgs,       \* configurations
          Kinds,      \* <<kind, crit>> pairs
          Export

VARIABLES st, cfg, last, kc

vars == <<st, cfg, last, kc>>

B == BOOLEAN

Rec(ph, cn, to, la, wk, cx, ba, q, c, qc) ==
    [phase |-> ph, conn |-> cn, to |-> to, latched |-> la, pulled |-> FALSE, weak |-> wk,
     lossdeg |-> FALSE, capx |-> cx, base |-> ba, q |-> q, c |-> c, qc |-> qc]

(* gate logic: every combination of the admission bits, neutral numerics *)
GateRecs == {Rec(ph, cn, to, la, wk, cx, 10, QDen, CDen, QDen) :
             ph \in {"Reg", "Warm", "Live"}, cn \in B, to \in B, la \in B, wk \in B, cx \in B}

(* routing / override: eligibility bits x cached quality ranking *)
RouteRecs == {Rec(ph, cn, to, la, FALSE, FALSE, ba, QDen, CDen, qc) :
              ph \in {"Reg", "Warm", "Live"}, cn \in B, to \in B, la \in B,
              ba \in {10, 20}, qc \in {QDen, QDen + 10}}

(* score logic (enhanced): ties, zero scores, 10 % boundary, all factors *)
RouteRecsQuick == {Rec(ph, cn, to, la, FALSE, FALSE, 10, QDen, CDen, qc) :
                   ph \in {"Reg", "Warm", "Live"}, cn \in B, to \in B, la \in B, qc \in {QDen, QDen + 10}}

ScoreRecsQuick == {Rec(ph, TRUE, FALSE, FALSE, wk, cx, ba, q, CDen, QDen) :
                   ph \in {"Warm", "Live"}, wk \in B, cx \in B,
                   ba \in {0, 10, 11}, q \in {100, 110}}
ScoreRecsFull == {Rec(ph, cn, FALSE, la, wk, cx, ba, q, c, QDen) :
                  ph \in {"Warm", "Live"}, cn \in B, la \in B, wk \in B, cx \in B,
                  ba \in {0, 10, 11, 20}, q \in {98, 100, 110}, c \in {1, 5, 10}}

Cfg(cl, qu, gu) == [classic |-> cl, quality |-> qu, guard |-> gu]
GateCfgs  == {Cfg(cl, FALSE, gu) : cl \in B, gu \in B}
ScoreCfgs == {Cfg(FALSE, qu, gu) : qu \in B, gu \in B}

PlainKind == {<<"data", FALSE>>}
AllKinds  == {<<"data", FALSE>>, <<"data", TRUE>>, <<"rexmit", FALSE>>, <<"ctrl", TRUE>>}

Init == /\ st \in [1..N -> Recs]
        /\ cfg \in Cfgs
        /\ last \in 0..N
        /\ kc \in Kinds

Next == UNCHANGED vars
Spec == Init /\ [][Next]_vars

kind == kc[1]
crit == kc[2]

(* ---- invariants = the properties, evaluated on every vector ---- *)
C03_NoBlackout            == NoBlackout(st, cfg, last)
C03_LastUsableNeverGated  == LastUsableNeverGated(st, cfg)
C04_ChoiceEligible        == ChoiceEligible(st, cfg, last)
C04_RoutedEligible        == RoutedEligible(st, cfg, last, kind, crit)
C10_ClassicIsReference    == ClassicIsReference(st, cfg, last, kind, crit)
C11_Stable                == Stable(st, cfg, last)
C11_LeaveOnlyIf           == LeaveOnlyIf(st, cfg, last)
C11_CapNeverChosen        == CapNeverChosenWhileUnconstrained(st, cfg, last)
C12_GuardOffIsBaseline    == GuardOffIsBaseline(st, cfg, last)

(* ---- export ---- *)
SetToSeq(S) == LET RECURSIVE F(_) F(T) == IF T = {} THEN <<>> ELSE
                      LET x == CHOOSE y \in T : \A z \in T : y <= z IN <<x>> \o F(T \ {x})
               IN F(S)

SoleUsable == LET U == {i \in 1..N : Usable(st[i])} IN IF Cardinality(U) = 1 THEN CHOOSE i \in U : TRUE ELSE 0

Emit == Export =>
    PrintT(<<"EDGE", ToJson(<<[e |-> [ev |-> "Select", cfg |-> cfg, links |-> st, last |-> last,
                                      kind |-> kind, crit |-> crit],
                               o |-> [allowed |-> SetToSeq(Allowed(st, cfg, last)),
                                      allowed_nohist |-> SetToSeq(Allowed(NoHistory(st), cfg, last)),
                                      routed  |-> SetToSeq(Routed(st, cfg, last, kind, crit)),
                                      gated   |-> [i \in 1..N |-> Gated(st, cfg, i)],
                                      elig    |-> [i \in 1..N |-> Eligible(st, cfg, i)],
                                      guard   |-> cfg.guard,
                                      sole_usable |-> SoleUsable,
                                      ref     |-> RefClassic(st),
                                      ref_applies |-> (cfg.classic /\ ~cfg.guard)]]>>)>>)
=============================================================================
