SPECIFICATION MCSpec
CONSTANTS
  Tasks = {1, 2}
  Chans = {1, 2}
  Cap <- Cap11
  Topics = {"stats", "priority.window"}
  BlockingSend = TRUE
  MaxSubs = 1
  MaxPubs = 2
  MaxUnsubs = 1
  MaxRecvs = 1
  MaxCloses = 1
INVARIANTS LockSane HolderNeverWaits IdsUnique MsgTagged Ordered ReceivedIsPrefix NothingAfterUnsub ClosedPruned LiveStay
PROPERTIES HubRefined PublishTerminates
CHECK_DEADLOCK FALSE
