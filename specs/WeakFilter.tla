----------------------------- MODULE WeakFilter -----------------------------
(***************************************************************************)
(* C17 -- the weak-link classifier, one action per housekeeping tick       *)
(* (selection/classifier.rs WeakLinkFilter::classify), with the property's *)
(* clauses as history-variable monitors.                                   *)
(*                                                                         *)
(* Inputs of a tick, per link: connected, rate (any integer unit; Floor is *)
(* 100 kbit/s in the same unit), delay (RTT over the chosen tier or a      *)
(* forming queue -- the tier cascade itself is not modelled, the binding   *)
(* drives it with RTTs far above / below every tier).                      *)
(***************************************************************************)
EXTENDS Integers, FiniteSets

CONSTANTS N,              \* number of links (ids 1..N)
          Floor,          \* MIN_TOTAL_BPS_FOR_CLASSIFICATION in rate units
          Sustain,        \* WEAK_SUSTAIN_TICKS        2
          ProbInterval,   \* PROBATION_INTERVAL_TICKS 15
          ProbWindow      \* PROBATION_WINDOW_TICKS    3

Links == 1..N

VARIABLES
    prevWeak, dstreak, sstreak, prob,    \* the filter's four maps (absent entry = default)
    out,                                 \* last verdicts: [l |-> [weak, reason, share, thr]]
    \* ---- monitors
    inp,          \* the inputs of the last tick
    prevDelay,    \* delay input of the tick before that, per link (FALSE if the link was absent / bypassed)
    run,          \* consecutive share-weak verdicts so far, per link
    owed,         \* not-weak ticks still owed after a full run, per link
    covered,      \* the last tick's verdict fell inside an owed probation window, per link
    prevOut       \* verdicts of the tick before

fvars == <<prevWeak, dstreak, sstreak, prob>>
vars  == <<fvars, out, inp, prevDelay, run, owed, covered, prevOut>>

Verdict(w, r, s, t) == [weak |-> w, reason |-> r, share |-> s, thr |-> t]
NoVerdict == Verdict(FALSE, "None", 0, 0)

Init ==
    /\ prevWeak = [l \in Links |-> FALSE] /\ dstreak = [l \in Links |-> 0]
    /\ sstreak = [l \in Links |-> 0] /\ prob = [l \in Links |-> 0]
    /\ out = [l \in Links |-> NoVerdict] /\ prevOut = [l \in Links |-> [weak |-> FALSE, reason |-> "None"]]
    /\ inp = [l \in Links |-> [conn |-> FALSE, rate |-> 0, delay |-> FALSE]]
    /\ prevDelay = [l \in Links |-> FALSE]
    /\ run = [l \in Links |-> 0] /\ owed = [l \in Links |-> 0] /\ covered = [l \in Links |-> FALSE]

RECURSIVE SumTo(_, _)
SumTo(f, n) == IF n = 0 THEN 0 ELSE f[n] + SumTo(f, n - 1)

Min(a, b) == IF a < b THEN a ELSE b

(* in: [l \in Links |-> [conn, rate, delay]] *)
Tick(in) ==
    LET C      == {l \in Links : in[l].conn}
        total  == SumTo([l \in Links |-> IF in[l].conn THEN in[l].rate ELSE 0], N)
        bypass == total < Floor \/ C = {}
        n      == Cardinality(C)
        enter  == 250 \div n
        leave  == 750 \div n
        share(l) == Min((in[l].rate * 1000) \div total, 1000)
        ds(l)  == IF in[l].delay THEN Min(dstreak[l] + 1, Sustain) ELSE 0
        \* first verdict: delay / no traffic / share hysteresis
        first(l) ==
            IF ds(l) >= Sustain THEN <<TRUE, "Delay">>
            ELSE IF in[l].rate = 0 THEN <<TRUE, "NoTraffic">>
            ELSE IF prevWeak[l] /\ share(l) < leave THEN <<TRUE, "LowShare">>
            ELSE IF ~prevWeak[l] /\ share(l) < enter THEN <<TRUE, "LowShare">>
            ELSE <<FALSE, "Healthy">>
        shareWeak(l) == first(l)[1] /\ first(l)[2] \in {"LowShare", "NoTraffic"}
        \* probation override
        final(l) == IF prob[l] > 0 THEN <<FALSE, "Healthy">> ELSE first(l)
        ss(l)  == IF prob[l] > 0 THEN 0
                  ELSE IF shareWeak(l) THEN (IF sstreak[l] + 1 >= ProbInterval THEN 0 ELSE sstreak[l] + 1)
                  ELSE 0
        pb(l)  == IF prob[l] > 0 THEN prob[l] - 1
                  ELSE IF shareWeak(l) /\ sstreak[l] + 1 >= ProbInterval THEN ProbWindow
                  ELSE 0
        thr(l) == IF prevWeak[l] THEN leave ELSE enter
        o(l)   == IF bypass THEN Verdict(FALSE, "Bypassed", 0, 0)
                  ELSE IF ~in[l].conn THEN Verdict(FALSE, "Healthy", 0, 0)
                  ELSE Verdict(final(l)[1], final(l)[2], share(l), thr(l))
        live(l) == ~bypass /\ in[l].conn          \* the link keeps a history entry
        sw(l)  == live(l) /\ o(l).weak /\ o(l).reason \in {"LowShare", "NoTraffic"}
    IN
    /\ prevWeak' = [l \in Links |-> IF live(l) THEN final(l)[1] ELSE FALSE]
    /\ dstreak'  = [l \in Links |-> IF live(l) THEN ds(l) ELSE 0]
    /\ sstreak'  = [l \in Links |-> IF live(l) THEN ss(l) ELSE 0]
    /\ prob'     = [l \in Links |-> IF live(l) THEN pb(l) ELSE 0]
    /\ out' = [l \in Links |-> o(l)]
    /\ prevOut' = [l \in Links |-> [weak |-> out[l].weak, reason |-> out[l].reason]]
    /\ inp' = in
    \* monitors, from the statement
    /\ prevDelay' = [l \in Links |-> inp[l].delay /\ inp[l].conn /\ out[l].reason # "Bypassed"]
    /\ covered' = [l \in Links |-> owed[l] > 0]
    /\ run'  = [l \in Links |-> IF sw(l) THEN run[l] + 1 ELSE 0]
    /\ owed' = [l \in Links |->
                 IF ~live(l) THEN 0                                   \* exits the clause does not cover
                 ELSE IF sw(l) /\ run[l] + 1 >= ProbInterval THEN ProbWindow
                 ELSE IF owed[l] > 0 THEN owed[l] - 1 ELSE 0]

(* ======================= the property (C17) ======================= *)
LiveNow(l) == inp[l].conn /\ out[l].reason # "Bypassed"

(* never weak while disconnected or while total throughput is under the floor *)
NotWeakWhenOff == \A l \in Links : (~inp[l].conn \/ out[l].reason = "Bypassed") => ~out[l].weak

(* a delay verdict needs the signal on this tick and on the one before *)
DelayNeedsTwoTicks == \A l \in Links : (out[l].weak /\ out[l].reason = "Delay") => (inp[l].delay /\ prevDelay[l])

(* at most ProbInterval consecutive share-weak verdicts ... *)
RunBounded == \A l \in Links : run[l] <= ProbInterval
(* ... then ProbWindow not-weak ticks (while connected and above the floor) *)
ProbationHonoured ==
    [][\A l \in Links : (owed[l] > 0 /\ inp'[l].conn /\ out'[l].reason # "Bypassed") => ~out'[l].weak]_vars

(* entering weak for low share needs a share under a quarter of fair share;
   leaving (other than by probation, bypass or disconnection) needs three quarters *)
NConn == Cardinality({l \in Links : inp[l].conn})
EnterLeave ==
    \A l \in Links : LiveNow(l) =>
        /\ (out[l].weak /\ out[l].reason = "LowShare" /\ ~prevOut[l].weak)
              => out[l].share < 250 \div NConn
        /\ (~out[l].weak /\ prevOut[l].weak /\ prevOut[l].reason = "LowShare" /\ ~covered[l])
              => out[l].share >= 750 \div NConn
=============================================================================
