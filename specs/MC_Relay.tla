------------------------------ MODULE MC_Relay ------------------------------
(* Design-level exhaustive check of Relay: every class, length class, client-known flag, probe state and
   timestamp age class, from every stamp state reachable in two datagrams; the environment's choices of
   outputs are those the code makes (the same table as uplink_recv.rs), so TLC checks that table against
   the guards of Relay!Datagram -- totality (some step is enabled for every input) and the proof rule.   *)
EXTENDS Relay, TLC

Classes == {"short", "ka", "srtla_ack", "reg1", "reg2", "reg3", "reg_err", "reg_ngp", "srt_ack", "srt_nak",
            "data", "ctrl"}
Lens == {0, 1, 2, 9, 10, 20, 300}
Ages == {-5, 0, 1, 10000, 10001}

VARIABLES now, n

(* what process_uplink_packet does, as a table *)
CodeCopies(cls, len, known) ==
    IF len < 2 \/ ~known THEN 0
    ELSE IF cls \in {"reg2", "reg3", "reg_err", "reg_ngp", "srtla_ack", "ka"} THEN 0
    ELSE IF cls = "srt_ack" THEN 2 ELSE 1
CodeRecv(l, cls, len) ==
    IF len < 2 THEN recv[l]
    ELSE IF cls \in {"reg2", "reg_ngp"} THEN recv[l]
    ELSE IF cls = "reg_err" THEN -1 ELSE now
CodeProof(l, cls, len, waiting, age, earned) ==
    [k \in Links |-> IF cls = "srtla_ack" /\ len >= 8 /\ k \in earned THEN now
                     ELSE IF cls = "ka" /\ k = l /\ len >= 10 /\ waiting /\ 0 < age /\ age <= 10000 THEN now
                     ELSE proof[k]]

MCInit == Init /\ now = 100 /\ n = 0

MCNext ==
    /\ n < 2 /\ n' = n + 1 /\ now' = now + 7
    /\ \E l \in Links, cls \in Classes, len \in Lens, known \in BOOLEAN, waiting \in BOOLEAN, age \in Ages,
          earned \in SUBSET Links :
          /\ (cls = "short") = (len < 2)
          /\ Datagram(l, cls, len, known, now, CodeCopies(cls, len, known), waiting, age,
                      [recv EXCEPT ![l] = CodeRecv(l, cls, len)],
                      CodeProof(l, cls, len, waiting, age, earned), earned)

MCSpec == MCInit /\ [][MCNext]_<<vars, now, n>>

(* totality: from every reachable state every input has a step (counted by TLC's outdegree: checked via the
   invariant below on the enabled set size being the full input space is too heavy; instead the action
   above is a conjunction of the code table and the guards, so any input the guards reject shows up as a
   missing successor -- `Total` asserts the successor count through ENABLED on a representative input) *)
Total == n < 2 => \A l \in Links, cls \in Classes, len \in Lens, known \in BOOLEAN :
            ((cls = "short") = (len < 2)) =>
               ENABLED Datagram(l, cls, len, known, now, CodeCopies(cls, len, known), FALSE, 0,
                                [recv EXCEPT ![l] = CodeRecv(l, cls, len)],
                                CodeProof(l, cls, len, FALSE, 0, {}), {})
=============================================================================
