-------------------------------- MODULE Hub --------------------------------
(***************************************************************************)
(* C20 -- the telemetry subscription hub (src/subscriptions.rs).           *)
(*                                                                         *)
(* One action per atomic step of the code.  A step is what a task does     *)
(* between two points at which it can be suspended:                        *)
(*                                                                         *)
(*   subscribe    AllocId(t)   next_id.fetch_add                  (l. 69)  *)
(*                  -- await point "subscribe:after_id" (lock acquisition) *)
(*                Insert(t)    lock; entries.push; unlock; return (l. 72)  *)
(*   unsubscribe  Unsub(t,id)  lock; retain(id != ..); unlock     (l. 83)  *)
(*   publish      Fanout(t,tp) lock; for each entry of the topic           *)
(*                             try_send -> Ok | Full(drop) | Closed(mark); *)
(*                             unlock                             (l. 96)  *)
(*                  -- await point "publish:after_fanout" (2nd lock)       *)
(*                Prune(t)     if marked: lock; retain; unlock    (l. 126) *)
(*   subscriber   Recv(c)      the connection task takes one line off its  *)
(*                             push channel                                *)
(*                Close(c)     the connection task ends: receiver dropped  *)
(*                                                                         *)
(* The critical sections contain no await, so each is one atomic step; the *)
(* lock itself is the subject of HubLock.tla.                              *)
(*                                                                         *)
(* "Delivered" is fixed at the hub boundary: a message is delivered to a   *)
(* subscription when a fan-out enqueues it on the subscription's push      *)
(* channel.                                                                *)
(*                                                                         *)
(* Deliberate deviations / restrictions, named:                            *)
(*  - PruneStepAlways: with the scheduling hooks every publish passes the  *)
(*    point between fan-out and prune, so Prune(t) is a step of its own    *)
(*    even when nothing was marked (production then has no await there:    *)
(*    the model has more interleavings, never fewer).                      *)
(*  - UnsubKnownIdsOnly: unsubscribe is called with ids some subscribe has *)
(*    returned (a client cannot know an id earlier); unsubscribing twice,  *)
(*    or an already pruned id, is included.                                *)
(*  - several subscriptions may share one push channel (one control        *)
(*    connection = one channel), also across topics.                       *)
(***************************************************************************)
EXTENDS Integers, Sequences, FiniteSets

CONSTANTS Tasks,      \* task ids 1..T
          Chans,      \* push channels 1..C
          Cap,        \* [Chans -> capacity >= 1]
          Topics      \* {"stats", "priority.window"}

VARIABLES
    entries,    \* the hub's Vec<Entry>: Seq([id, topic, ch])
    nextId,     \* the atomic id counter
    buf,        \* [Chans -> Seq(msg)]   msg = [id, topic, n]; what sits in the mpsc
    closed,     \* [Chans -> BOOLEAN]    receiver dropped
    pc,         \* [Tasks -> program counter record]
    \* ---- monitors (history variables; no action reads them in a guard)
    pubs,       \* global fan-out order: pubs[n] = topic of the n-th fan-out critical section
    subs,       \* per id+1: [topic, ch, ins, unsub]; ins / unsub = Len(pubs) when Insert / the first
                \*           Unsub of the id completed, -1 before
    enq,        \* [Chans -> Seq(msg)]   everything ever enqueued (delivered) per channel
    rcv,        \* [Chans -> Nat]        how many of enq[c] the subscriber has taken
    found,      \* ids found closed by a publish that has completed
    ret         \* what the last step returned / produced (observable)

hvars == <<entries, nextId, buf, closed, pc>>
mvars == <<pubs, subs, enq, rcv, found, ret>>
vars  == <<hvars, mvars>>

IdlePc == [k |-> "idle", id |-> -1, topic |-> "", ch |-> 0, n |-> 0, prune |-> {}]

Init ==
    /\ entries = <<>> /\ nextId = 0
    /\ buf = [c \in Chans |-> <<>>] /\ closed = [c \in Chans |-> FALSE]
    /\ pc = [t \in Tasks |-> IdlePc]
    /\ pubs = <<>> /\ subs = <<>>
    /\ enq = [c \in Chans |-> <<>>] /\ rcv = [c \in Chans |-> 0]
    /\ found = {} /\ ret = [k |-> "init"]

EntryIds == {entries[i].id : i \in DOMAIN entries}
Without(es, S) == SelectSeq(es, LAMBDA e : e.id \notin S)

(* ---------------------------- subscribe ---------------------------- *)
AllocId(t, topic, ch) ==
    /\ pc[t].k = "idle"
    /\ nextId' = nextId + 1
    /\ pc' = [pc EXCEPT ![t] = [IdlePc EXCEPT !.k = "sub", !.id = nextId, !.topic = topic, !.ch = ch]]
    /\ subs' = Append(subs, [topic |-> topic, ch |-> ch, ins |-> -1, unsub |-> -1])
    /\ ret' = [k |-> "at", at |-> "subscribe:after_id"]
    /\ UNCHANGED <<entries, buf, closed, pubs, enq, rcv, found>>

Insert(t) ==
    /\ pc[t].k = "sub"
    /\ entries' = Append(entries, [id |-> pc[t].id, topic |-> pc[t].topic, ch |-> pc[t].ch])
    /\ pc' = [pc EXCEPT ![t] = IdlePc]
    /\ subs' = [subs EXCEPT ![pc[t].id + 1].ins = Len(pubs)]
    /\ ret' = [k |-> "id", id |-> pc[t].id]
    /\ UNCHANGED <<nextId, buf, closed, pubs, enq, rcv, found>>

(* --------------------------- unsubscribe --------------------------- *)
Returned(id) == id \in 0..(nextId - 1) /\ subs[id + 1].ins >= 0       \* UnsubKnownIdsOnly

Unsub(t, id) ==
    /\ pc[t].k = "idle"
    /\ Returned(id)
    /\ entries' = Without(entries, {id})
    /\ ret' = [k |-> "removed", removed |-> (id \in EntryIds)]
    /\ subs' = [subs EXCEPT ![id + 1].unsub = IF @ = -1 THEN Len(pubs) ELSE @]
    /\ UNCHANGED <<nextId, buf, closed, pc, pubs, enq, rcv, found>>

(* ----------------------------- publish ----------------------------- *)
(* the fan-out loop: same tests in the same order as the code; it has no  *)
(* guard on the state of any channel -- Full and Closed are branches      *)
RECURSIVE Fan(_, _, _, _)
Fan(es, topic, n, acc) ==
    IF es = <<>> THEN acc
    ELSE LET e == Head(es)
             m == [id |-> e.id, topic |-> topic, n |-> n]
         IN
         IF e.topic # topic THEN Fan(Tail(es), topic, n, acc)
         ELSE IF closed[e.ch] THEN Fan(Tail(es), topic, n, [acc EXCEPT !.p = @ \cup {e.id}])     \* Closed
         ELSE IF Len(acc.b[e.ch]) >= Cap[e.ch] THEN Fan(Tail(es), topic, n, acc)                 \* Full: dropped
         ELSE Fan(Tail(es), topic, n, [acc EXCEPT !.b[e.ch] = Append(@, m), !.q[e.ch] = Append(@, m)])

Fanout(t, topic) ==
    /\ pc[t].k = "idle"
    /\ LET n == Len(pubs) + 1
           r == Fan(entries, topic, n, [b |-> buf, q |-> enq, p |-> {}])
       IN /\ buf' = r.b /\ enq' = r.q
          /\ pc' = [pc EXCEPT ![t] = [IdlePc EXCEPT !.k = "pub", !.topic = topic, !.n = n, !.prune = r.p]]
    /\ pubs' = Append(pubs, topic)
    /\ ret' = [k |-> "at", at |-> "publish:after_fanout"]
    /\ UNCHANGED <<entries, nextId, closed, subs, rcv, found>>

Prune(t) ==                                                     \* PruneStepAlways
    /\ pc[t].k = "pub"
    /\ entries' = IF pc[t].prune = {} THEN entries ELSE Without(entries, pc[t].prune)
    /\ found' = found \cup pc[t].prune
    /\ pc' = [pc EXCEPT ![t] = IdlePc]
    /\ ret' = [k |-> "done"]
    /\ UNCHANGED <<nextId, buf, closed, pubs, subs, enq, rcv>>

(* ---------------------------- subscriber ---------------------------- *)
Recv(c) ==
    /\ ~closed[c] /\ buf[c] # <<>>
    /\ buf' = [buf EXCEPT ![c] = Tail(@)]
    /\ rcv' = [rcv EXCEPT ![c] = @ + 1]
    /\ ret' = [k |-> "msg", msg |-> Head(buf[c])]
    /\ UNCHANGED <<entries, nextId, closed, pc, pubs, subs, enq, found>>

Close(c) ==      \* the receiver is dropped; what was still queued is gone with it
    /\ ~closed[c]
    /\ closed' = [closed EXCEPT ![c] = TRUE]
    /\ buf' = [buf EXCEPT ![c] = <<>>]
    /\ ret' = [k |-> "closed"]
    /\ UNCHANGED <<entries, nextId, pc, pubs, subs, enq, rcv, found>>

Next ==
    \/ \E t \in Tasks :
         \/ \E tp \in Topics, c \in Chans : AllocId(t, tp, c)
         \/ Insert(t)
         \/ \E id \in 0..(nextId - 1) : Unsub(t, id)
         \/ \E tp \in Topics : Fanout(t, tp)
         \/ Prune(t)
    \/ \E c \in Chans : Recv(c) \/ Close(c)

Spec == Init /\ [][Next]_vars

(* ========================= the property (C20) ========================= *)
Msgs(c) == {enq[c][i] : i \in DOMAIN enq[c]}

(* ids are unique: every id handed out is held once, by an entry or by a subscribe still under way *)
IdsUnique ==
    /\ \A i, j \in DOMAIN entries : i # j => entries[i].id # entries[j].id
    /\ \A t, u \in Tasks : (t # u /\ pc[t].k = "sub" /\ pc[u].k = "sub") => pc[t].id # pc[u].id
    /\ \A t \in Tasks : pc[t].k = "sub" => (pc[t].id \notin EntryIds /\ pc[t].id < nextId)
    /\ \A i \in DOMAIN entries : entries[i].id < nextId

(* every delivered message carries the id of a subscription of that channel and that topic, and the topic
   of the publish that produced it: a subscriber receives only events of its topic, tagged with its own id *)
MsgTagged ==
    \A c \in Chans : \A m \in Msgs(c) :
        /\ m.id \in 0..(nextId - 1)
        /\ subs[m.id + 1].ch = c
        /\ subs[m.id + 1].topic = m.topic
        /\ m.n \in DOMAIN pubs /\ pubs[m.n] = m.topic

(* per channel what was delivered is, per subscription, a duplicate-free subsequence of the global fan-out
   order (strictly increasing n), and the channel as a whole never goes back in that order *)
Ordered ==
    \A c \in Chans : \A i, j \in DOMAIN enq[c] :
        i < j => /\ enq[c][i].n <= enq[c][j].n
                 /\ (enq[c][i].id = enq[c][j].id => enq[c][i].n < enq[c][j].n)

(* the subscriber sees a prefix of what was delivered, the rest is still queued (or gone with the receiver) *)
ReceivedIsPrefix ==
    \A c \in Chans : /\ rcv[c] <= Len(enq[c])
                     /\ ~closed[c] => buf[c] = SubSeq(enq[c], rcv[c] + 1, Len(enq[c]))
                     /\ Len(buf[c]) <= Cap[c]

(* nothing is delivered to id by a fan-out that starts after Unsub(id) completed, nor by one before Insert *)
NothingAfterUnsub ==
    \A c \in Chans : \A m \in Msgs(c) :
        LET s == subs[m.id + 1] IN
        /\ s.ins >= 0 /\ m.n > s.ins
        /\ s.unsub = -1 \/ m.n <= s.unsub

(* after Prune no entry the same publish found closed remains ... *)
ClosedPruned == \A id \in found : id \notin EntryIds
(* ... and no live entry is ever removed by the hub on its own *)
LiveStay ==
    \A id \in 0..(nextId - 1) :
        (subs[id + 1].ins >= 0 /\ subs[id + 1].unsub = -1 /\ ~closed[subs[id + 1].ch]) => id \in EntryIds

(* publish never blocks on a subscriber: whatever the channels look like (full, closed, anything), a task
   that may publish can take the fan-out step, and one that has fanned out can take the prune step *)
PubNeverBlocked ==
    \A t \in Tasks :
        /\ pc[t].k = "idle" => \A tp \in Topics : ENABLED Fanout(t, tp)
        /\ pc[t].k = "pub" => ENABLED Prune(t)
=============================================================================
