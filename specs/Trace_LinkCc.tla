---------------------------- MODULE Trace_LinkCc ----------------------------
(* Trace validation for C16: per-link tick histories of the real controller *)
(* (LinkCcController::tick_all over real connections).  One trace line per  *)
(* link per tick; "New" starts a fresh controller for that link slot.       *)
EXTENDS LinkCc, Sequences, Json, IOUtils, TLC

Rec == ndJsonDeserialize(IOEnv.TRACE)

VARIABLES i, bank   \* bank[l]: the saved monitor state of link slot l

Slots == 1..4

Save == [st |-> st, T |-> T, hasRtt |-> hasRtt, ewma |-> ewma, deg |-> deg, now |-> now, obs |-> obs,
         pst |-> pst, pT |-> pT, highSince |-> highSince, pdeg |-> pdeg, n |-> n]
Fresh == [st |-> "Bootstrap", T |-> TMin, hasRtt |-> FALSE, ewma |-> 0, deg |-> FALSE, now |-> 0, obs |-> 0,
          pst |-> "Bootstrap", pT |-> TMin, highSince |-> -1, pdeg |-> FALSE, n |-> 0]

TraceInit == Init /\ i = 1 /\ bank = [l \in Slots |-> Fresh]

(* load slot l's monitor, take the observed tick, store it back: done as one step by substituting the banked
   values for the unprimed variables *)
TickOf(r) ==
    LET b == bank[r.l] IN
    /\ now' = r.now /\ obs' = r.obs /\ st' = r.st /\ T' = r.T /\ hasRtt' = r.hasRtt /\ ewma' = r.ewma
    /\ deg' = r.deg
    /\ pst' = b.st /\ pT' = b.T /\ pdeg' = b.deg /\ n' = b.n + 1
    /\ highSince' = IF ~r.hasRtt THEN b.highSince
                    ELSE IF r.ewma >= EnterPpm THEN (IF b.highSince = -1 THEN r.now ELSE b.highSince)
                    ELSE -1
    /\ bank' = [bank EXCEPT ![r.l] = [st |-> r.st, T |-> r.T, hasRtt |-> r.hasRtt, ewma |-> r.ewma,
                                      deg |-> r.deg, now |-> r.now, obs |-> r.obs, pst |-> b.st, pT |-> b.T,
                                      highSince |-> highSince', pdeg |-> b.deg, n |-> b.n + 1]]

TraceNext ==
    /\ i <= Len(Rec)
    /\ i' = i + 1
    /\ LET r == Rec[i] IN
       \/ r.ev = "Init" /\ bank' = [l \in Slots |-> Fresh] /\ UNCHANGED vars
       \/ r.ev = "New" /\ bank' = [bank EXCEPT ![r.l] = Fresh] /\ UNCHANGED vars
       \/ /\ r.ev = "Tick"
          \* what the controller reports is well formed: one of its five states, every number finite
          /\ r.st \in {"Bootstrap", "Climbing", "Holding", "BackingOff", "Drain"} /\ r.finite
          /\ TickOf(r)

TraceSpec == TraceInit /\ [][TraceNext]_<<vars, i, bank>>

TraceAccepted ==
    LET d == TLCGet("stats").diameter IN
    IF d - 1 = Len(Rec) THEN TRUE
    ELSE /\ PrintT(<<"TRACE-REJECTED", d, ToJson(Rec[d])>>)
         /\ FALSE
=============================================================================
