SPECIFICATION MCSpec
CONSTANTS
  MaxLinks = 2
INVARIANT Total
PROPERTY ProofOnlyFromReturnPath
CHECK_DEADLOCK FALSE
