SPECIFICATION Spec
CONSTANTS
  QDen = 100
  CDen = 10
  ConnInHealthy = TRUE
  OverrideEligible = TRUE
  N = 2
  Recs <- RouteRecs
  Cfgs <- GateCfgs
  Kinds <- AllKinds
  Export = TRUE
INVARIANTS C03_NoBlackout C03_LastUsableNeverGated C04_ChoiceEligible C04_RoutedEligible C10_ClassicIsReference C11_Stable C11_LeaveOnlyIf C11_CapNeverChosen C12_GuardOffIsBaseline Emit
CHECK_DEADLOCK FALSE
