SPECIFICATION PlainSpec
CONSTANTS
  Addrs = {"a", "b", "c"}
  Unbindable = {}
  Seqs = {1, 2}
  StMax = 1
  StartLists <- Starts2
  FileSet <- GraphFiles2
  MaxHist = 100
  Quiet = FALSE
  OverFiles <- GraphFiles2
  Export = FALSE
VIEW View

INVARIANTS NeverStranded IoConsistent OwnersLive IdsDistinct SelInRange
PROPERTIES ParsedExactly RefusedUntouched SighupTouchesNothing RefusedKeepsQueue SurvivorsKept RemovedExactly IoFollows TrackerPurged AddedOnce SelectionForgotten OrderKept
CHECK_DEADLOCK FALSE
