SPECIFICATION MCSpec
CONSTANTS
  N = 3
  Ids = {"A", "B"}
  Id0 = "A"
  Reg2Timeout = 4000
  Reg3Timeout = 4000
  ProbeTimeout = 2000
  NgpRetry = 1000
  PelCap = 2000
  Steps = {1000, 4000}
  Export = FALSE
INVARIANTS AtMostOneReg1Out DriverReg1OnlyUnregistered BroadcastRule EmitCarriesId RegErrCancels AbandonedAfterTimeout OutIsPending
PROPERTIES IdOnlyByAcceptedReg2 ConnectedOnlyByReg3 ThenNgpAcceptedAgain
CHECK_DEADLOCK FALSE
