------------------------------- MODULE LinkCc -------------------------------
(***************************************************************************)
(* C16 -- the per-link CC soft cap and the loss-degraded latch, at the     *)
(* level the property states them: relations between consecutive          *)
(* snapshots of one link's controller and the inputs of that tick.         *)
(*                                                                         *)
(* Units: rates in kbit/s (floor of the code's bit/s), loss average in ppm.*)
(* Because of the floors every relation carries one or two units of slack. *)
(* The five-state controller itself is LinkCcImpl, checked against this    *)
(* module.                                                                 *)
(***************************************************************************)
EXTENDS LinkCcRel      \* TMin, TMax (100, 200000 kbit/s) and the relations

CONSTANTS SustainMs,         \* 4000
          EnterPpm, ClearPpm \* 550000, 250000

VARIABLES
    st,        \* "Bootstrap" | "Climbing" | "Holding" | "BackingOff" | "Drain"
    T,         \* target, kbit/s
    hasRtt,    \* an RTT sample exists (rtt_ewma_ms > 0)
    ewma,      \* loss average, ppm
    deg,       \* loss-degraded verdict
    now,       \* time of the last tick
    obs,       \* measured rate offered to the last tick, kbit/s
    \* ---- monitor
    pst, pT,   \* state / target before the last tick
    highSince, \* since when the loss average has been above EnterPpm at every tick (-1: it is not)
    pdeg, n    \* verdict before the last tick; number of ticks so far

vars == <<st, T, hasRtt, ewma, deg, now, obs, pst, pT, highSince, pdeg, n>>

Init == /\ st = "Bootstrap" /\ T = TMin /\ hasRtt = FALSE /\ ewma = 0 /\ deg = FALSE /\ now = 0 /\ obs = 0
        /\ pst = "Bootstrap" /\ pT = TMin /\ highSince = -1 /\ pdeg = FALSE /\ n = 0

(* one tick as observed: the new snapshot is arbitrary, the monitor just records *)
Tick(t, o, st1, T1, rtt1, ewma1, deg1) ==
    /\ now' = t /\ obs' = o /\ st' = st1 /\ T' = T1 /\ hasRtt' = rtt1 /\ ewma' = ewma1 /\ deg' = deg1
    /\ pst' = st /\ pT' = T /\ pdeg' = deg /\ n' = n + 1
    /\ highSince' = IF ~rtt1 THEN highSince        \* no loss average is computed before an RTT sample exists
                    ELSE IF ewma1 >= EnterPpm THEN (IF highSince = -1 THEN t ELSE highSince)
                    ELSE -1

(* ======================= the property (C16) ======================= *)
InRange            == InRangeR(T)
FloorUntilRtt      == FloorUntilRttR(hasRtt, T)
LoweredOnlyBy      == LoweredOnlyByR(pst, pT, st, T, obs)
BackoffNeverRaises == BackoffNeverRaisesR(pst, pT, st, T)
GrowthBounded      == GrowthBoundedR(pst, pT, T, obs)

LatchRule ==
    /\ (deg /\ ~pdeg) => (highSince # -1 /\ now - highSince >= SustainMs)
    /\ (~deg /\ pdeg) => ewma <= ClearPpm
=============================================================================
