----------------------------- MODULE Trace_Reload -----------------------------
(***************************************************************************)
(* Trace validation for C19: histories recorded from the real reload path  *)
(* (vh record reload): real parser on rendered files, real                 *)
(* apply_connection_changes on loopback uplinks with random conn ids,       *)
(* packets routed by forward_via_connection / handle_srt_packet.           *)
(*                                                                         *)
(* Exact = FALSE: the logged post-state of every step is adopted and the   *)
(* clauses of the statement (action properties of Reload) are evaluated on *)
(* the step -- the verdict.  `st` of an uplink is the token of a digest of  *)
(* every field of the real connection plus its socket identity, so "same    *)
(* record" is identity + socket + full protocol state.                      *)
(* Exact = TRUE: additionally the code-shaped actions must produce the      *)
(* logged addresses / ids / tracker / routing choice exactly (order of the  *)
(* list, id numbering): a rejection here is MODEL-DRIFT only.               *)
(***************************************************************************)
EXTENDS Reload, Json, IOUtils, TLC

CONSTANT Exact

Rec == ndJsonDeserialize(IOEnv.TRACE)

VARIABLE i

ToSet(s) == {s[k] : k \in DOMAIN s}
MaxOf(S) == IF S = {} THEN 0 ELSE CHOOSE x \in S : \A y \in S : y <= x

LoggedConns(r) == [k \in 1..Len(r.labels) |-> [addr |-> r.labels[k], id |-> r.ids[k], st |-> r.digs[k]]]
Ident(cs) == [k \in DOMAIN cs |-> <<cs[k].addr, cs[k].id>>]

Adopt(r, name, a, p) ==
    /\ conns' = LoggedConns(r)
    /\ io' = ToSet(r.io)
    /\ owner' = [s \in Seqs |-> r.owner[s]]
    /\ lastSel' = r.sel
    /\ pending' = r.pend
    /\ nextId' = IF nextId > MaxOf(ToSet(r.ids)) THEN nextId ELSE MaxOf(ToSet(r.ids)) + 1
    /\ act' = name /\ arg' = a /\ res' = p

NewRun ==
    /\ conns' = <<>> /\ io' = {} /\ owner' = [s \in Seqs |-> None] /\ lastSel' = None /\ nextId' = 1
    /\ pending' = <<>> /\ act' = "Init" /\ arg' = <<>> /\ res' = NoAnswer

(* what the code-shaped model predicts for the step (state versions are the logged ones) *)
ExactStart(r) ==
    /\ Ident(conns') = Ident(Created(r.list, nextId)) /\ io' = IdsOf(conns') /\ lastSel' = lastSel /\ owner' = owner
ExactRoute(r) ==
    /\ Ident(conns') = Ident(conns) /\ io' = io /\ pending' = pending
    /\ IF r.l = 0 THEN owner' = owner /\ lastSel' = lastSel
       ELSE owner' = [owner EXCEPT ![r.s] = conns[r.l].id] /\ lastSel' = r.l
ExactIdle(r) ==
    /\ Ident(conns') = Ident(conns) /\ io' = io /\ pending' = pending /\ owner' = owner /\ lastSel' = lastSel
ExactSighup(r) ==
    LET p == Parse(r.file) IN
    /\ r.refused = p.refused /\ r.reason = p.reason /\ r.list = p.list /\ r.fi = p.fi
    /\ pending' = IF p.refused THEN pending ELSE p.list
    /\ conns' = conns /\ io' = io /\ owner' = owner /\ lastSel' = lastSel
ExactApply(r) ==
    LET p == Applied(conns, io, owner, lastSel, nextId, pending) IN
    /\ Ident(conns') = Ident(p.conns) /\ io' = p.io /\ owner' = p.owner /\ lastSel' = p.lastSel
    /\ pending' = <<>>

TraceInit == Init /\ i = 1

TraceNext ==
    /\ i <= Len(Rec)
    /\ i' = i + 1
    /\ LET r == Rec[i] IN
       \/ r.ev = "Init" /\ NewRun
       \/ r.ev = "Start" /\ Adopt(r, "Start", r.list, NoAnswer) /\ (Exact => ExactStart(r))
       \/ r.ev \in {"Route", "RouteSel"} /\ Adopt(r, "Route", <<r.l, r.s>>, NoAnswer) /\ (Exact => ExactRoute(r))
       \/ r.ev \in {"Mutate", "Flush"} /\ Adopt(r, r.ev, <<>>, NoAnswer) /\ (Exact => ExactIdle(r))
       \/ r.ev = "Sighup"
            /\ Adopt(r, "Sighup", r.file, [refused |-> r.refused, reason |-> r.reason, list |-> r.list, fi |-> r.fi])
            /\ r.agree
            /\ (Exact => ExactSighup(r))
       \/ r.ev = "Apply"
            /\ IF pending = <<>> THEN Adopt(r, "Idle", <<>>, NoAnswer) /\ (Exact => ExactIdle(r))
               ELSE Adopt(r, "Apply", pending, NoAnswer) /\ (Exact => ExactApply(r))

TraceSpec == TraceInit /\ [][TraceNext]_<<vars, i>>

TraceAccepted ==
    LET d == TLCGet("stats").diameter IN
    IF d - 1 = Len(Rec) THEN TRUE
    ELSE /\ PrintT(<<"TRACE-REJECTED", d, ToJson(Rec[d])>>)
         /\ FALSE
=============================================================================
