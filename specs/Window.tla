------------------------------- MODULE Window -------------------------------
(***************************************************************************)
(* C06 -- one link's congestion window, as the code moves it               *)
(* (congestion/mod.rs handle_nak, congestion/classic.rs, enhanced.rs,      *)
(*  ack_nak.rs handle_srtla_ack_global, connection/mod.rs resets,          *)
(*  housekeeping.rs:126 "classic skips recovery").                         *)
(*                                                                         *)
(* Times are absolute virtual milliseconds exactly as in the code          *)
(* (0 = "never").  One action per call of the corresponding method.        *)
(***************************************************************************)
EXTENDS Integers

CONSTANTS WMin, WDef, WMax,     \* 1000, 20000, 60000  (WINDOW_* x WINDOW_MULT)
          WDecr, WIncr,         \* 100, 30
          FastEnter, FastExit   \* 2000, 12000

VARIABLES w,        \* window
          fast,     \* fast_recovery_mode
          lastNak,  \* last_nak_time_ms (0 = never / reset)
          lastInc,  \* last_window_increase_ms (0 = never / reset)
          conn,     \* connected
          heard,    \* last_received.is_some()
          now,      \* the clock
          classic,  \* scheduling mode as seen by ACK handling and housekeeping
          act,      \* name of the last action (for the action properties)
          arg       \* its argument (in-flight count / velocity flag), 0 if none

vars == <<w, fast, lastNak, lastInc, conn, heard, now, classic, act, arg>>

Min(a, b) == IF a < b THEN a ELSE b
Max(a, b) == IF a > b THEN a ELSE b

Init == /\ w = WDef /\ fast = FALSE /\ lastNak = 0 /\ lastInc = 0
        /\ conn = FALSE /\ heard = FALSE /\ now \in Nat /\ classic \in BOOLEAN
        /\ act = "Init" /\ arg = 0

(* CongestionControl::handle_nak -- a NAK charged to this link *)
Nak ==
    LET w1 == Max(w - WDecr, WMin) IN
    /\ w' = w1
    /\ fast' = (fast \/ w1 <= FastEnter)
    /\ lastNak' = now
    /\ UNCHANGED <<lastInc, conn, heard, now, classic>>
    /\ act' = "Nak" /\ arg' = 0

(* handle_srtla_ack_specific found the number: inflAfter is in_flight after
   its removal; `inflAfter.saturating_mul(1000) > window`                   *)
Earns(inflAfter) == inflAfter > w \div 1000     \* == inflAfter*1000 > w, overflow-free

EarnedAck(inflAfter) ==
    LET w1 == IF Earns(inflAfter) THEN Min(w + WIncr - 1, WMax) ELSE w IN
    /\ w' = w1
    /\ fast' = IF classic THEN fast ELSE (fast /\ ~(w1 >= FastExit))
    /\ UNCHANGED <<lastNak, lastInc, conn, heard, now, classic>>
    /\ act' = "EarnedAck" /\ arg' = inflAfter

(* handle_srtla_ack_global: +1 on every connected link that has heard anything *)
GlobalAck ==
    /\ w' = IF conn /\ heard THEN Min(w + 1, WMax) ELSE w
    /\ UNCHANGED <<fast, lastNak, lastInc, conn, heard, now, classic>>
    /\ act' = "GlobalAck" /\ arg' = 0

(* enhanced::perform_window_recovery; velHigh = Kalman velocity > 2.0 *)
Halve(x, velHigh) == IF velHigh THEN x \div 2 ELSE x      \* (x as f64 * 0.5) as i32, x >= 0

RecoveryIncr(velHigh) ==
    LET bonus == IF fast THEN 2 ELSE 1
        never == lastNak = 0
        tsn   == now - lastNak
        base  == IF never \/ tsn > 10000 THEN WIncr * 2 * bonus
                 ELSE IF tsn > 7000 THEN WIncr * bonus
                 ELSE IF tsn > 5000 THEN (WIncr * bonus) \div 2
                 ELSE (WIncr * bonus) \div 4
    IN Halve(base, velHigh)

RecoveryDue ==
    LET minWait == IF fast THEN 500 ELSE 2000
        incWait == IF fast THEN 300 ELSE 1000
    IN /\ conn /\ w < WMax
       /\ (lastNak = 0 \/ now - lastNak > minWait)
       /\ now - lastInc > incWait

Recovery(velHigh) ==
    IF RecoveryDue
    THEN LET w1 == Min(w + RecoveryIncr(velHigh), WMax) IN
         /\ w' = w1
         /\ lastInc' = now
         /\ fast' = (fast /\ ~(w1 >= FastExit))
    ELSE UNCHANGED <<w, lastInc, fast>>

RecoveryTick(velHigh) ==
    /\ Recovery(velHigh)
    /\ UNCHANGED <<lastNak, conn, heard, now, classic>>
    /\ act' = "RecoveryTick" /\ arg' = (IF velHigh THEN 1 ELSE 0)

(* the housekeeping pass for a link that is not timed out: recovery is
   applied only in enhanced mode                                            *)
HousekeepingTick(velHigh) ==
    /\ IF classic THEN UNCHANGED <<w, lastInc, fast>> ELSE Recovery(velHigh)
    /\ UNCHANGED <<lastNak, conn, heard, now, classic>>
    /\ act' = "HousekeepingTick" /\ arg' = (IF velHigh THEN 1 ELSE 0)

(* mark_for_recovery: window and connection reset, congestion stats kept *)
SoftReset ==
    /\ w' = WDef /\ conn' = FALSE /\ heard' = FALSE
    /\ UNCHANGED <<fast, lastNak, lastInc, now, classic>>
    /\ act' = "SoftReset" /\ arg' = 0

(* reset_for_reconnect: everything *)
FullReset ==
    /\ w' = WDef /\ conn' = FALSE /\ heard' = FALSE
    /\ fast' = FALSE /\ lastNak' = 0 /\ lastInc' = 0
    /\ UNCHANGED <<now, classic>>
    /\ act' = "FullReset" /\ arg' = 0

(* REG3 on this link: clear_pre_registration_state (congestion stats reset,
   window kept) and the link becomes connected                              *)
Reg3 ==
    /\ fast' = FALSE /\ lastNak' = 0 /\ lastInc' = 0
    /\ conn' = TRUE /\ heard' = TRUE
    /\ UNCHANGED <<w, now, classic>>
    /\ act' = "Reg3" /\ arg' = 0

SetMode(c) == /\ classic' = c /\ act' = "SetMode" /\ arg' = 0
              /\ UNCHANGED <<w, fast, lastNak, lastInc, conn, heard, now>>

Advance(d) == /\ d > 0 /\ now' = now + d /\ act' = "Advance" /\ arg' = d
              /\ UNCHANGED <<w, fast, lastNak, lastInc, conn, heard, classic>>

(* ---------------- the property (C06) ---------------- *)
InRange == WMin <= w /\ w <= WMax

NakNeverIncreases   == [][act' = "Nak" => w' <= w]_vars
AckNeverDecreases   == [][act' \in {"EarnedAck", "GlobalAck", "RecoveryTick", "HousekeepingTick"} => w' >= w]_vars
ResetsToDefault     == [][act' \in {"SoftReset", "FullReset"} => w' = WDef]_vars
FastEntry           == [][(~fast /\ fast') => (act' = "Nak" /\ w' <= FastEnter)]_vars
FastExitRule        == [][(fast /\ ~fast') => (w' >= FastExit \/ act' \in {"FullReset", "Reg3"})]_vars
ClassicNoRecovery   == [][(act' = "HousekeepingTick" /\ classic) => w' = w]_vars
OnlyNakLowers       == [][w' < w => act' \in {"Nak", "SoftReset", "FullReset", "Init"}]_vars
=============================================================================
