--------------------------- MODULE Trace_Keepalive ---------------------------
(* Trace validation for C14 on ShellSim runs. *)
EXTENDS Keepalive, Json, IOUtils, TLC

Rec == ndJsonDeserialize(IOEnv.TRACE)

VARIABLES i, proof

N(r) == Len(r.links)

TeleOf(r) == [l \in Links |-> IF l <= N(r)
                THEN [win |-> r.links[l].win, infl |-> r.links[l].infl, naks |-> r.links[l].naks,
                      rate |-> r.links[l].rate]
                ELSE NoTele]
LiveOf(r) == [l \in Links |-> IF l <= N(r) THEN (r.links[l].conn /\ ~r.links[l].to) ELSE FALSE]
SrttOf(r) == [l \in Links |-> IF l <= N(r) THEN r.links[l].srtt_us ELSE 0]
ProofOf(r) == [l \in Links |-> IF l <= N(r) THEN r.links[l].proof ELSE -1]
SaneOf(r) == \A l \in 1..N(r) : r.links[l].srtt_ok

RECURSIVE Kas(_, _)
Kas(w, l) == IF w = <<>> THEN <<>>
             ELSE IF Head(w).l = l /\ Head(w).cls = "ka" THEN <<Head(w)>> \o Kas(Tail(w), l)
             ELSE Kas(Tail(w), l)

TraceInit == Init /\ i = 1 /\ proof = [l \in Links |-> -1]

TraceNext ==
    /\ i <= Len(Rec)
    /\ i' = i + 1
    /\ LET r == Rec[i] IN
       /\ proof' = ProofOf(r)
       /\ SaneOf(r)
       /\ IF r.ev = "Init"
          THEN /\ missed' = [l \in Links |-> 0] /\ act' = "Init" /\ Observe(TeleOf(r), LiveOf(r), SrttOf(r))
               /\ outst' = [l \in Links |-> FALSE]
          ELSE IF r.ev = "Housekeeping"
          THEN Pass(r.t, [l \in Links |-> Kas(r.wire, l)],
                    \* not counted against the cadence: links torn down by this pass, links that were not connected
                    \* when it began, and links whose socket is failing every send (injected fault: the frame is
                    \* built and handed to the socket, which refuses it)
                    [l \in Links |-> IF l <= N(r) THEN (r.pre[l].to /\ r.pre[l].due) \/ ~r.pre[l].conn \/ r.sendfail[l]
                                      ELSE TRUE],
                    [l \in Links |-> IF l <= N(r) THEN (r.pre[l].to /\ r.pre[l].due) ELSE FALSE],
                    TeleOf(r), LiveOf(r), SrttOf(r))
          ELSE IF r.ev = "UplinkPkt" /\ r.cls = "ka"
          THEN Echo(r.l, r.len, r.waiting0, r.karel,
                    \* a sample was taken: the estimate moved, or the echo was stamped as delivery proof
                    r.links[r.l].srtt_us # srtt[r.l] \/ (r.links[r.l].proof = r.t /\ proof[r.l] # r.t),
                    TeleOf(r), LiveOf(r), SrttOf(r))
          ELSE /\ Other({l \in 1..N(r) : r.marked[l]}, TeleOf(r), LiveOf(r), SrttOf(r))
               \* keepalives leave only from the housekeeping pass
               /\ \A l \in Links : Kas(r.wire, l) = <<>>

TraceSpec == TraceInit /\ [][TraceNext]_<<vars, i, proof>>

TraceAccepted ==
    LET d == TLCGet("stats").diameter IN
    IF d - 1 = Len(Rec) THEN TRUE
    ELSE /\ PrintT(<<"TRACE-REJECTED", d, ToJson([ev |-> Rec[d].ev, t |-> Rec[d].t, wire |-> Rec[d].wire,
                                                   links |-> Rec[d].links])>>)
         /\ FALSE
=============================================================================
