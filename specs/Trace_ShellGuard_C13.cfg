SPECIFICATION TraceSpec
CONSTANTS
  Check = {"C13"}
POSTCONDITION TraceAccepted
CHECK_DEADLOCK FALSE
