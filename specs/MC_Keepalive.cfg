SPECIFICATION MCSpec
CONSTANTS
  MaxLinks = 1
  Spacings = {1000, 1500}
  Sat = 12000
INVARIANTS CadenceOK SrttSane
CHECK_DEADLOCK FALSE
