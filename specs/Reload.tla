------------------------------- MODULE Reload -------------------------------
(***************************************************************************)
(* C19 -- the SIGHUP IP-list reload (src/sender/reload.rs, connections.rs, *)
(* sequence.rs and the SIGHUP / housekeeping arms of src/sender/mod.rs).    *)
(*                                                                         *)
(* One action per atomic step of the code:                                 *)
(*   Start(list)    create_connections_from_ips at startup (duplicates in  *)
(*                  the startup list give two uplinks with one address)    *)
(*   Route(i, s)    forward_via_connection: sequence number s queued on    *)
(*                  uplink i (tracker insert, sticky routing choice)       *)
(*   Mutate(i)      anything that changes uplink i's protocol state        *)
(*   Sighup(f)      the SIGHUP arm: analyze_ip_reload(file) -> refuse, or  *)
(*                  queue the parsed list (pending_changes)                *)
(*   ApplyPending   the housekeeping arm's apply_connection_changes, same  *)
(*                  statements in the same order as the code               *)
(* Named deviation: AddFails -- an address of `Unbindable` cannot get a    *)
(* socket (connect_uplink returns Err): it is skipped with a warning.      *)
(*                                                                         *)
(* The clauses of the property are action properties written from the      *)
(* statement (ParsedExactly .. SelectionForgotten), independent of the     *)
(* code-shaped ApplyPending.                                               *)
(***************************************************************************)
EXTENDS Integers, Sequences, FiniteSets

CONSTANTS Addrs,       \* address tokens
          Unbindable,  \* subset of Addrs for which socket creation fails
          Seqs,        \* tracked SRT sequence numbers
          StMax        \* protocol-state versions 0..StMax per uplink (0 = as created)

None == 0

VARIABLES
    conns,     \* the connections vec: sequence of [addr, id, st]
    io,        \* key set of the ConnIoMap
    owner,     \* the sequence tracker: [Seqs -> id or None]
    lastSel,   \* last_selected_idx (1-based; None)
    nextId,    \* ids are fresh (random u64 in the code): tokens by creation order
    pending,   \* pending_changes.new_ips (<<>> = nothing queued)
    \* ---- history
    act,       \* name of the last action
    arg,       \* Sighup: the file; ApplyPending: the list applied; Route/Mutate: <<i, s>>
    res        \* Sighup: the parser's answer

vars == <<conns, io, owner, lastSel, nextId, pending, act, arg, res>>

Range(s) == {s[i] : i \in DOMAIN s}
IdsOf(cs) == {cs[i].id : i \in DOMAIN cs}
AddrsOf(cs) == {cs[i].addr : i \in DOMAIN cs}

(* ------------------------------ the parser ------------------------------ *)
(* a line: [k |-> "blank" | "ws" | "ip" | "bad", a |-> address token (ip lines), v |-> rendering variant];    *)
(* a file: [missing |-> BOOLEAN, lines |-> sequence of lines].  "ip" covers plain, padded and CRLF-terminated  *)
(* IPv4 / IPv6 text; "bad" covers every garbage variant (same meaning, different bytes).                      *)
IsIp(l)    == l.k = "ip"
IsBlank(l) == l.k \in {"blank", "ws"}
IsBad(l)   == l.k = "bad"

NoAnswer == [refused |-> TRUE, reason |-> "-", list |-> <<>>, fi |-> 0]

(* analyze_ip_reload / analyze_ip_reload_text, statement by statement *)
Parse(f) ==
    IF f.missing THEN [refused |-> TRUE, reason |-> "NotFound", list |-> <<>>, fi |-> 0]
    ELSE LET ls   == f.lines
             ips  == SelectSeq(ls, IsIp)
             list == [i \in 1..Len(ips) |-> ips[i].a]
             bad  == {i \in 1..Len(ls) : IsBad(ls[i])}
             fi   == IF bad = {} THEN 0 ELSE CHOOSE i \in bad : \A j \in bad : i <= j
             saw  == \E i \in 1..Len(ls) : ~IsBlank(ls[i])
         IN IF Len(ips) = 0
            THEN IF saw THEN [refused |-> TRUE, reason |-> "NoValidIps", list |-> <<>>, fi |-> fi]
                        ELSE [refused |-> TRUE, reason |-> "Empty", list |-> <<>>, fi |-> 0]
            ELSE [refused |-> FALSE, reason |-> "Apply", list |-> list, fi |-> fi]

(* ------------------------------- actions -------------------------------- *)
Init ==
    /\ conns = <<>> /\ io = {} /\ owner = [s \in Seqs |-> None] /\ lastSel = None /\ nextId = 1
    /\ pending = <<>> /\ act = "Init" /\ arg = <<>> /\ res = NoAnswer

(* connect_uplink for each address in order; failures skipped *)
Created(list, first) ==
    LET ok == SelectSeq(list, LAMBDA a : a \notin Unbindable)
    IN [k \in 1..Len(ok) |-> [addr |-> ok[k], id |-> first + k - 1, st |-> 0]]

Start(list) ==
    /\ act = "Init" /\ list # <<>>
    /\ conns' = Created(list, nextId)
    /\ io' = IdsOf(conns')
    /\ nextId' = nextId + Len(conns')
    /\ act' = "Start" /\ arg' = list /\ res' = NoAnswer
    /\ UNCHANGED <<owner, lastSel, pending>>

Route(i, s) ==
    /\ act # "Init" /\ i \in DOMAIN conns
    /\ owner' = [owner EXCEPT ![s] = conns[i].id]
    /\ lastSel' = i
    /\ act' = "Route" /\ arg' = <<i, s>> /\ res' = NoAnswer
    /\ UNCHANGED <<conns, io, nextId, pending>>

Mutate(i) ==
    /\ act # "Init" /\ i \in DOMAIN conns
    /\ conns[i].st < StMax
    /\ conns' = [conns EXCEPT ![i].st = @ + 1]
    /\ act' = "Mutate" /\ arg' = <<i, 0>> /\ res' = NoAnswer
    /\ UNCHANGED <<io, owner, lastSel, nextId, pending>>

(* SIGHUP arm: a refusal leaves pending_changes as it was *)
Sighup(f) ==
    /\ act # "Init"
    /\ LET p == Parse(f) IN
       /\ pending' = IF p.refused THEN pending ELSE p.list
       /\ res' = p
    /\ act' = "Sighup" /\ arg' = f
    /\ UNCHANGED <<conns, io, owner, lastSel, nextId>>

(* first appearances of list entries that satisfy Keep, in list order *)
FirstNew(list, Keep(_)) ==
    LET idx == {i \in 1..Len(list) : Keep(list[i]) /\ \A j \in 1..(i - 1) : list[j] # list[i]}
        RECURSIVE Build(_, _)
        Build(i, acc) == IF i > Len(list) THEN acc
                         ELSE Build(i + 1, IF i \in idx THEN Append(acc, list[i]) ELSE acc)
    IN Build(1, <<>>)

(* apply_connection_changes(connections, conn_io, new_ips, .., last_selected_idx, seq_tracker, binder) as a
   function of the structures it is handed *)
Applied(cs, ios, own, sel, first, list) ==
    LET desired == Range(list)                                     \* desired_labels
        current == AddrsOf(cs)                                     \* current_labels (before retain)
        removed == {cs[i].id : i \in {j \in DOMAIN cs : cs[j].addr \notin desired}}
        kept    == SelectSeq(cs, LAMBDA c : c.addr \in desired)    \* retain
        shrunk  == Len(kept) # Len(cs)
        needed  == FirstNew(list, LAMBDA a : a \notin current)     \* new_ips_needed
        added   == Created(needed, first)                          \* AddFails inside
    IN [conns   |-> kept \o added,
        lastSel |-> IF shrunk THEN None ELSE sel,
        owner   |-> IF shrunk THEN [s \in Seqs |-> IF own[s] \in removed THEN None ELSE own[s]] ELSE own,
        io      |-> (IF shrunk THEN ios \ removed ELSE ios) \cup IdsOf(added),
        nextId  |-> first + Len(added)]

ApplyPending ==
    /\ pending # <<>>
    /\ LET p == Applied(conns, io, owner, lastSel, nextId, pending)
       IN /\ conns' = p.conns /\ lastSel' = p.lastSel /\ owner' = p.owner /\ io' = p.io /\ nextId' = p.nextId
    /\ arg' = pending
    /\ pending' = <<>>
    /\ act' = "Apply" /\ res' = NoAnswer

(* ---------------------- the property (C19), from the statement ---------------------- *)
(* "A reload whose file is missing, empty or contains no parsable address is refused ... otherwise the
   applied list is exactly the parsable lines in order." *)
Parsable(f) == IF f.missing THEN <<>>
               ELSE LET ips == SelectSeq(f.lines, IsIp) IN [i \in 1..Len(ips) |-> ips[i].a]

ParsedExactly ==
    [][act' = "Sighup" =>
         /\ res'.refused <=> (Parsable(arg') = <<>>)
         /\ ~res'.refused => (res'.list = Parsable(arg') /\ pending' = Parsable(arg'))]_vars

(* "... is refused and leaves every uplink untouched" *)
RefusedUntouched ==
    [][(act' = "Sighup" /\ res'.refused) => UNCHANGED <<conns, io, owner, lastSel>>]_vars
(* the SIGHUP arm itself never touches an uplink: an accepted list only takes effect at the next housekeeping *)
SighupTouchesNothing ==
    [][act' = "Sighup" => UNCHANGED <<conns, io, owner, lastSel>>]_vars
(* code-level detail the statement leaves open: a refusal also leaves a list queued by an earlier SIGHUP *)
RefusedKeepsQueue ==
    [][(act' = "Sighup" /\ res'.refused) => UNCHANGED pending]_vars

Listed(a) == a \in Range(arg')          \* on an Apply step arg' is the list that was applied

(* "keeps every uplink whose address remains, with its identity, socket and full protocol state unchanged" *)
SurvivorsKept ==
    [][act' = "Apply" =>
         \A i \in DOMAIN conns : Listed(conns[i].addr) =>
             Cardinality({j \in DOMAIN conns' : conns'[j] = conns[i]}) = 1]_vars

(* "removes exactly the uplinks no longer listed ..." *)
RemovedExactly ==
    [][act' = "Apply" =>
         /\ \A i \in DOMAIN conns : ~Listed(conns[i].addr) => conns[i].id \notin IdsOf(conns')
         /\ \A j \in DOMAIN conns' : Listed(conns'[j].addr)]_vars

(* "... together with their I/O handle ..." *)
IoFollows ==
    [][act' = "Apply" =>
         /\ \A i \in DOMAIN conns : ~Listed(conns[i].addr) => conns[i].id \notin io'
         /\ IdsOf(conns') \subseteq io']_vars

(* "... and their NAK-attribution records" (exactly theirs: a survivor's records stay) *)
TrackerPurged ==
    [][act' = "Apply" =>
         LET gone == {conns[i].id : i \in {j \in DOMAIN conns : ~Listed(conns[j].addr)}}
         IN \A s \in Seqs : owner'[s] = IF owner[s] \in gone THEN None ELSE owner[s]]_vars

(* "adds each new address once" *)
AddedOnce ==
    [][act' = "Apply" =>
         /\ \A a \in Range(arg') \ (AddrsOf(conns) \cup Unbindable) :
                /\ Cardinality({j \in DOMAIN conns' : conns'[j].addr = a}) = 1
                /\ \A j \in DOMAIN conns' : conns'[j].addr = a => conns'[j].id \notin IdsOf(conns)
         /\ \A a \in AddrsOf(conns) :      \* no second uplink for an address that is already served
                Cardinality({j \in DOMAIN conns' : conns'[j].addr = a})
                    <= Cardinality({i \in DOMAIN conns : conns[i].addr = a})
         /\ \A j, k \in DOMAIN conns' : j # k => conns'[j].id # conns'[k].id]_vars

(* "forgets the previous routing choice whenever an uplink was removed" *)
SelectionForgotten ==
    [][(act' = "Apply" /\ \E i \in DOMAIN conns : ~Listed(conns[i].addr)) => lastSel' = None]_vars

(* "never strands the stream" (all listed addresses bindable): an applied reload leaves an uplink *)
NeverStranded == (Unbindable = {} /\ act # "Init") => Len(conns) > 0

(* consistency of the three structures (what the clauses above preserve) *)
IoConsistent  == io = IdsOf(conns)
OwnersLive    == \A s \in Seqs : owner[s] # None => owner[s] \in IdsOf(conns)
IdsDistinct   == \A j, k \in DOMAIN conns : j # k => conns[j].id # conns[k].id
SelInRange    == lastSel = None \/ lastSel \in DOMAIN conns

(* code-level detail the statement leaves open (drift, not a verdict): survivors keep their relative order,
   new uplinks go to the end in first-appearance order, nothing removed => routing choice kept *)
OrderKept ==
    [][act' = "Apply" =>
         LET kept == SelectSeq(conns, LAMBDA c : c.addr \in Range(arg'))
         IN /\ SubSeq(conns', 1, Len(kept)) = kept
            /\ (Len(kept) = Len(conns) => lastSel' = lastSel)]_vars
=============================================================================
