SPECIFICATION TraceSpec
CONSTANTS
  TMin = 1000
  TMax = 60000
  TField = 6
INVARIANTS LoadedWasStored TimeoutAlwaysClamped HammerClean
PROPERTY ReadOwnWrite
POSTCONDITION TraceAccepted
CHECK_DEADLOCK FALSE
