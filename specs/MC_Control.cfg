SPECIFICATION MCSpec
CONSTANTS
  TMin = 1000
  TMax = 60000
  TDefault = 5000
  MsInts = {0, 1, 999, 1000, 1001, 5000, 30000, 59999, 60000, 60001, 2147483647}
  MsHuge = {"4294967296", "9007199254740993", "9223372036854775808", "18446744073709551615"}
  CliRaw = {0, 999, 1000, 5000, 60000, 60001}
  CliFixed <- CliFixedDef
  Export = FALSE
VIEW View
INVARIANTS TypeOK ClausesHold LastOK
CHECK_DEADLOCK FALSE
