------------------------------ MODULE Lifecycle ------------------------------
(***************************************************************************)
(* C08 -- failure detection, retry and clean rejoin, stated on what can be  *)
(* observed of one link from outside: when bytes arrive on it, when it is   *)
(* torn down, when it re-registers, what the environment is doing to it.    *)
(* The monitor keeps its OWN record of when the link was last heard (from   *)
(* the arrivals themselves), never the code's stamp.                        *)
(*                                                                         *)
(* Code: housekeeping.rs:52-111, connections.rs reconnect_uplink,           *)
(* connection/mod.rs is_timed_out / reset_for_reconnect / mark_for_recovery,*)
(* reconnection.rs should_attempt_reconnect / backoff_delay.                *)
(***************************************************************************)
EXTENDS Integers, TLC

CONSTANTS MaxLinks,
          Grace,          \* STARTUP_GRACE_MS               5000
          MinGapInitial,  \* retry spacing before the first REG3      1000
          MinGapLater,    \* retry spacing afterwards                 5000
          MaxBackoff,     \* 120000
          RejoinBound,    \* 30000
          Period          \* longest housekeeping spacing in the schedules (slack for pass granularity)

Links == 1..MaxLinks

VARIABLES
    heard,      \* heard[l]: when a (non-registration) datagram or REG3 last arrived on l (-1: not since its
                \*           last teardown / creation)
    born,       \* born[l]: when l was created / last torn down (start of its grace)
    regErr,     \* regErr[l]: a REG_ERR arrived on l since it was last heard
    everUp,     \* everUp[l]: l has completed registration at some point (REG3 seen)
    lastTry,    \* lastTry[l]: time of the last teardown-and-retry (-1: none)
    conn,       \* conn[l]: connected, as of the end of the last step
    tornSince,  \* tornSince[l]: l was torn down (timeout / send failure) since it last connected
    upSince,    \* upSince[l]: since when l's path has delivered in both directions (-1: it does not)
    quietSince, \* since when the receiver has been answering everything and nothing else interfered
    connAt,     \* some link was connected when that quiet period began, or when a path came back during it:
                \* only then does the rejoin bound have to allow for the configured timeout (the time it takes to
                \* NOTICE that a still-connected link -- this one, or one that keeps the old group alive -- is dead)
    act

vars == <<heard, born, regErr, everUp, lastTry, conn, tornSince, upSince, quietSince, connAt, act>>

Init == /\ heard = [l \in Links |-> -1] /\ born = [l \in Links |-> 0] /\ regErr = [l \in Links |-> FALSE]
        /\ everUp = [l \in Links |-> FALSE] /\ lastTry = [l \in Links |-> -1]
        /\ conn = [l \in Links |-> FALSE] /\ tornSince = [l \in Links |-> FALSE] /\ upSince = [l \in Links |-> 0] /\ quietSince = 0 /\ connAt = TRUE /\ act = "Init"

(* silent for the configured timeout at time t -- from the monitor's own record *)
Silent(l, t, timeout) ==
    \/ regErr[l]                                           \* the receiver rejected the link: silent at once
    \/ heard[l] # -1 /\ t - heard[l] >= timeout
    \/ heard[l] = -1 /\ (everUp[l] \/ t >= born[l] + Grace) \* nothing since it was (re)created, grace over

(* One housekeeping pass at time t with the configured timeout; torn: the links it tears down and retries.
   stale[l]: the timeout value link l still carries from the last scheduling decision (recorded finding: it
   is refreshed only by a selection, so before the first one, or while no client packet arrives, it lags
   behind the configured value); a teardown justified only by the stale value is reported separately. *)
(* excusable: no scheduling decision has run since the timeout was last configured -- the only history in which the
   per-link copy of the timeout can lag behind for the reason recorded as the known finding (the copy is refreshed
   by every call of the selector).  A lagging copy in any other history is no explanation.                     *)
Pass(t, timeout, stale, torn, conn1, excusable) ==
    /\ act' = "Pass"
    /\ \A l \in torn :
          \* only a link that has been silent for the timeout (or was rejected) -- never a routing penalty
          /\ \/ Silent(l, t, timeout)
             \/ /\ excusable /\ stale[l] # timeout /\ Silent(l, t, stale[l])
                /\ PrintT(<<"KNOWN-FINDING-HIT", "C08/Pass/stale-mirrored-timeout">>)
          \* retries at least 1 s apart before the first registration, at least 5 s apart afterwards
          /\ lastTry[l] # -1 => t - lastTry[l] >= (IF everUp[l] THEN MinGapLater ELSE MinGapInitial)
    \* retried forever, the back-off never above 120 s: a link that is still silent is retried in time
    /\ \A l \in Links \ torn :
          (~conn[l] /\ lastTry[l] # -1 /\ heard[l] = -1 /\ ~regErr[l]) => t - lastTry[l] <= MaxBackoff + Period
    /\ lastTry' = [l \in Links |-> IF l \in torn THEN t ELSE lastTry[l]]
    /\ heard' = [l \in Links |-> IF l \in torn THEN -1 ELSE heard[l]]
    /\ born' = [l \in Links |-> IF l \in torn THEN t ELSE born[l]]
    /\ regErr' = [l \in Links |-> IF l \in torn THEN FALSE ELSE regErr[l]]
    /\ conn' = conn1
    /\ tornSince' = [l \in Links |-> IF l \in torn THEN TRUE ELSE tornSince[l]]
    /\ UNCHANGED <<everUp, upSince, quietSince, connAt>>

(* a datagram arrives on l at time t *)
(* stray: the datagram was not an answer of the receiver (arbitrary traffic reaching the uplink socket): it
   counts as interference for the rejoin bound, like a burst *)
Arrive(l, t, cls, len, conn1, rejoin, stray) ==
    /\ act' = "Arrive"
    /\ heard' = [heard EXCEPT ![l] = IF len < 2 \/ cls \in {"reg2", "reg_ngp"} THEN @
                                     ELSE IF cls = "reg_err" THEN -1 ELSE t]
    /\ regErr' = [regErr EXCEPT ![l] = IF len >= 2 /\ cls = "reg_err" THEN TRUE
                                       ELSE IF len >= 2 /\ cls \notin {"reg2", "reg_ngp"} THEN FALSE ELSE @]
    /\ everUp' = [everUp EXCEPT ![l] = @ \/ (len >= 2 /\ cls = "reg3")]
    \* a link becomes connected only by REG3, and rejoins clean: default window, nothing in flight, warming
    /\ \A k \in Links : (conn1[k] /\ ~conn[k]) => (k = l /\ cls = "reg3" /\ len >= 2)
    /\ (len >= 2 /\ cls = "reg3" /\ ~conn[l]) => rejoin
    /\ conn' = conn1
    /\ tornSince' = [tornSince EXCEPT ![l] = IF len >= 2 /\ cls = "reg3" THEN FALSE ELSE @]
    /\ quietSince' = IF stray THEN t ELSE quietSince
    \* (a stray datagram that counts as hearing from the link starts the configured silence afresh for it: the sender
    \*  may not re-create that link's socket before it has elapsed, connected or not -- so the bound allows for it)
    /\ connAt' = IF stray THEN ((\E k \in Links : conn1[k]) \/ (len >= 2 /\ cls \notin {"reg2", "reg_ngp", "reg_err"}))
                  ELSE connAt
    /\ UNCHANGED <<born, lastTry, upSince>>

(* a send on l's socket fails during a flush: soft teardown (mark_for_recovery) *)
SendFailure(R, t, conn1) ==
    /\ act' = "SendFailure"
    /\ heard' = [l \in Links |-> IF l \in R THEN -1 ELSE heard[l]]
    /\ born' = [l \in Links |-> IF l \in R THEN t - Grace ELSE born[l]]     \* no grace after a soft teardown
    /\ regErr' = [l \in Links |-> IF l \in R THEN FALSE ELSE regErr[l]]
    /\ conn' = conn1
    /\ tornSince' = [l \in Links |-> IF l \in R THEN TRUE ELSE tornSince[l]]
    /\ UNCHANGED <<everUp, lastTry, upSince, quietSince, connAt>>

(* the environment: the path of l goes down / comes back; something interferes (a reply is lost, the receiver
   forgets the group, a stray datagram, a send failure is injected, the timeout is reconfigured) *)
PathDown(l) == /\ act' = "Env" /\ upSince' = [upSince EXCEPT ![l] = -1]
               /\ UNCHANGED <<heard, born, regErr, everUp, lastTry, conn, tornSince, quietSince, connAt>>
PathUp(l, t) == /\ act' = "Env" /\ upSince' = [upSince EXCEPT ![l] = IF @ = -1 THEN t ELSE @]
                /\ connAt' = (connAt \/ \E k \in Links : conn[k])
                /\ UNCHANGED <<heard, born, regErr, everUp, lastTry, conn, tornSince, quietSince>>
Interfere(t) == /\ act' = "Env" /\ quietSince' = t /\ connAt' = (\E k \in Links : conn[k])
                /\ UNCHANGED <<heard, born, regErr, everUp, lastTry, conn, tornSince, upSince>>
Quiet(conn1) == /\ act' = "Quiet" /\ conn' = conn1
                /\ UNCHANGED <<heard, born, regErr, everUp, lastTry, tornSince, upSince, quietSince, connAt>>

(* ======================= the property (C08) ======================= *)
(* once the path delivers again and the receiver answers, the link is connected within 30 s -- not counting
   the time the configured timeout itself takes to notice that a still-connected link has gone silent *)
Rejoins(t, timeout) ==
    LET B == RejoinBound + Period + (IF connAt THEN timeout ELSE 0) IN
    \A l \in Links : (upSince[l] # -1 /\ t - upSince[l] > B /\ t - quietSince > B) => conn[l]
=============================================================================
