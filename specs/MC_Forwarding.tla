---------------------------- MODULE MC_Forwarding ----------------------------
(***************************************************************************)
(* Bounded exhaustive exploration of Forwarding with the code's flush      *)
(* policy on top (per-link regime thresholds, probes every ProbeGap routed *)
(* packets on gated links) and an environment that changes link status,    *)
(* regimes, resets links and fails sends, every interleaving, no depth     *)
(* bound.  The wire history is kept so that "exactly once, intact, in      *)
(* order, lost only with its link" can be stated on whole behaviours.      *)
(***************************************************************************)
EXTENDS Forwarding, TLC

CONSTANTS NLinks, NPkts, Thr      \* Thr: the three regime thresholds, scaled
Thresholds == <<1, 2, 3>>

VARIABLES st,       \* per link: [conn, phase, to, gated]  (the environment moves it, within C03/C04's rules)
          regime,   \* per link: 1..3
          wire,     \* per link: what has left on its socket, in order
          next,     \* next packet id
          dropped,  \* ids lost with their link
          bad       \* links whose send currently fails

mcvars == <<vars, st, regime, wire, next, dropped, bad>>

L == 1..NLinks

Flags == {[conn |-> TRUE, phase |-> "Live", to |-> FALSE, gated |-> FALSE],      \* eligible
          [conn |-> TRUE, phase |-> "Live", to |-> FALSE, gated |-> TRUE],       \* stall-gated
          [conn |-> FALSE, phase |-> "Reg", to |-> TRUE, gated |-> FALSE]}       \* down / registering

MCInit == /\ Init
          /\ st \in [Links -> Flags] /\ regime = [l \in Links |-> 2]
          /\ wire = [l \in Links |-> <<>>] /\ next = 1 /\ dropped = {} /\ bad = {}

(* the last usable link is never gated (C03) -- the environment respects it *)
GateOK(s) == (\E l \in L : Usable(s[l])) => (\E l \in L : Usable(s[l]) /\ ~s[l].gated)

Rng(s) == {s[k] : k \in 1..Len(s)}

ClientPacket ==
    /\ next <= NPkts
    /\ \E u \in 0..NLinks :
         LET P  == {p \in L \ {u} : st[p].gated /\ st[p].conn /\ gap[p] + 1 >= ProbeGap /\ u # 0}
             q1 == [l \in Links |-> IF l = u \/ l \in P THEN Append(q[l], next) ELSE q[l]]
             F  == {l \in L : (l = u \/ l \in P) /\ Len(q1[l]) >= Thr[regime[l]]}
             fl == F \cap bad
         IN /\ (u = 0 => \A l \in L : ~Eligible(st[l]))          \* the scheduler never drops while it can route
            /\ Route(next, u, P, F, fl, st, NLinks, TRUE, TRUE)
            /\ wire' = [l \in Links |-> wire[l] \o RouteWire(next, u, P, F, fl, l)]
            \* (a datagram that arrives while no uplink is eligible is not accepted: outside C01's premise)
            /\ dropped' = dropped \cup UNION {Rng(q1[l]) : l \in fl} \cup (IF u = 0 THEN {next} ELSE {})
            \* a failed flush resets the link (mark_for_recovery)
            /\ st' = [l \in Links |-> IF l \in fl THEN [conn |-> FALSE, phase |-> "Reg", to |-> TRUE, gated |-> FALSE]
                                      ELSE st[l]]
            /\ next' = next + 1
            /\ UNCHANGED <<regime, bad>>

Tick ==
    LET fl == {l \in L : l \in bad /\ q[l] # <<>>} IN
    /\ FlushTick(fl)
    /\ wire' = [l \in Links |-> wire[l] \o FlushWire(fl, l)]
    /\ dropped' = dropped \cup UNION {Rng(q[l]) : l \in fl}
    /\ UNCHANGED <<st, regime, next, bad>>

Reset(l) ==
    /\ LinkReset({l})
    /\ dropped' = dropped \cup Rng(q[l])
    /\ st' = [st EXCEPT ![l] = [conn |-> FALSE, phase |-> "Reg", to |-> TRUE, gated |-> FALSE]]
    /\ bad' = bad \ {l}
    /\ UNCHANGED <<regime, wire, next>>

SetStatus(l, f) == /\ GateOK([st EXCEPT ![l] = f]) /\ st' = [st EXCEPT ![l] = f] /\ Other
                   /\ UNCHANGED <<regime, wire, next, dropped, bad>>
SetRegime(l, r) == /\ regime' = [regime EXCEPT ![l] = r] /\ Other /\ UNCHANGED <<st, wire, next, dropped, bad>>
Break(l)        == /\ bad' = bad \cup {l} /\ Other /\ UNCHANGED <<st, regime, wire, next, dropped>>

MCNext == \/ ClientPacket \/ Tick
          \/ \E l \in L : Reset(l) \/ Break(l)
          \/ \E l \in L, f \in Flags : SetStatus(l, f)
          \/ \E l \in L, r \in 1..3 : SetRegime(l, r)

MCSpec == MCInit /\ GateOK(st) /\ [][MCNext]_mcvars

(* ---- C01 on whole behaviours ---- *)
Ids == 1..(next - 1)
Count(s, x) == Cardinality({k \in 1..Len(s) : s[k] = x})
(* every accepted datagram is, at any time, queued, sent, or lost with its link -- never nowhere *)
NothingVanishes ==
    \A x \in Ids : \/ \E l \in L : x \in Rng(q[l]) \/ x \in Rng(wire[l])
                   \/ x \in dropped
                   \/ FALSE
(* per link, never twice on the same socket; across links extra copies only as probes (ids repeat only on
   links that were gated when the copy was made -- enforced by Route's guard on P) *)
NoDuplicateOnALink == \A l \in L : \A x \in Ids : Count(wire[l], x) <= 1
(* per link the wire order is the arrival order *)
InOrder == \A l \in L : \A a, b \in 1..Len(wire[l]) : a < b => wire[l][a] < wire[l][b]
=============================================================================
