SPECIFICATION MCSpec
CONSTANTS
  MaxLinks = 2
  R = 2
  MaxAge = 2
  WDecr = 100
  WFloor = 1000
  Seqs = {0, 1, 2, 3}
  MaxEvents = 7
  Export = FALSE
VIEW View
CONSTRAINT BoundNow
INVARIANT C05
CHECK_DEADLOCK FALSE
