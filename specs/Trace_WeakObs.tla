---------------------------- MODULE Trace_WeakObs ----------------------------
(* C17 from outside the real event loop: what a control client that reads   *)
(* the stats lines sees of the weak-link classifier -- per housekeeping     *)
(* pass and uplink: connected, measured rate (whole bytes/s, so bit/s up to *)
(* 8), verdict, reason, share, threshold.  The classifier's delay input is  *)
(* not visible from there, so the filter itself (WeakFilter!Tick) is not    *)
(* replayed here (Trace_WeakFilter does that on component histories); the   *)
(* statement's clauses that speak about verdicts only are monitored with    *)
(* the same history variables.                                              *)
EXTENDS WeakFilter, Sequences, Json, IOUtils, TLC

Rec == ndJsonDeserialize(IOEnv.TRACE)

VARIABLE i

TraceInit == Init /\ i = 1

Blank ==
    /\ prevWeak' = [l \in Links |-> FALSE] /\ dstreak' = [l \in Links |-> 0]
    /\ sstreak' = [l \in Links |-> 0] /\ prob' = [l \in Links |-> 0]
    /\ out' = [l \in Links |-> NoVerdict] /\ prevOut' = [l \in Links |-> [weak |-> FALSE, reason |-> "None"]]
    /\ inp' = [l \in Links |-> [conn |-> FALSE, rate |-> 0, delay |-> FALSE]]
    /\ prevDelay' = [l \in Links |-> FALSE]
    /\ run' = [l \in Links |-> 0] /\ owed' = [l \in Links |-> 0] /\ covered' = [l \in Links |-> FALSE]

(* one observed pass: only the monitors move (as in WeakFilter!Tick, with the verdicts taken from the log) *)
Observe(v) ==
    LET live(l) == v[l].conn /\ v[l].reason # "Bypassed"
        sw(l)   == live(l) /\ v[l].weak /\ v[l].reason \in {"LowShare", "NoTraffic"}
        hiTotal == SumTo([l \in Links |-> IF v[l].conn THEN v[l].hi ELSE 0], N)
    IN
    \* well formed: a known reason, weak only for a reason that says so
    /\ \A l \in Links : /\ v[l].reason \in {"Healthy", "Delay", "NoTraffic", "LowShare", "Bypassed", "None"}
                        /\ v[l].weak => v[l].reason \in {"Delay", "NoTraffic", "LowShare"}
    \* never weak while total throughput is under the floor, whatever reason is reported
    /\ hiTotal < Floor => \A l \in Links : ~v[l].weak
    /\ out' = [l \in Links |-> Verdict(v[l].weak, v[l].reason, v[l].share, v[l].thr)]
    /\ prevOut' = [l \in Links |-> [weak |-> out[l].weak, reason |-> out[l].reason]]
    /\ inp' = [l \in Links |-> [conn |-> v[l].conn, rate |-> v[l].lo, delay |-> FALSE]]
    /\ prevDelay' = [l \in Links |-> FALSE]
    /\ covered' = [l \in Links |-> owed[l] > 0]
    /\ run'  = [l \in Links |-> IF sw(l) THEN run[l] + 1 ELSE 0]
    /\ owed' = [l \in Links |->
                 IF ~live(l) THEN 0
                 ELSE IF sw(l) /\ run[l] + 1 >= ProbInterval THEN ProbWindow
                 ELSE IF owed[l] > 0 THEN owed[l] - 1 ELSE 0]
    /\ UNCHANGED fvars

TraceNext ==
    /\ i <= Len(Rec)
    /\ i' = i + 1
    /\ LET r == Rec[i] IN
       \/ r.ev = "Init" /\ Blank
       \/ r.ev = "Tick" /\ Observe([l \in Links |-> r.v[l]])

TraceSpec == TraceInit /\ [][TraceNext]_<<vars, i>>

TraceAccepted ==
    LET d == TLCGet("stats").diameter IN
    IF d - 1 = Len(Rec) THEN TRUE
    ELSE /\ PrintT(<<"TRACE-REJECTED", d, ToJson(Rec[d])>>)
         /\ FALSE
=============================================================================
