SPECIFICATION TraceSpec
CONSTANTS
  MaxLinks = 4
  R = 16384
  MaxAge = 5000
  WDecr = 100
  WFloor = 1000
  CheckClassic = TRUE
POSTCONDITION TraceAccepted
CHECK_DEADLOCK FALSE
