--------------------------- MODULE Trace_Lifecycle ---------------------------
(* Trace validation for C08 on ShellSim fault / repair schedules. *)
EXTENDS Lifecycle, Sequences, Json, IOUtils, TLC

Rec == ndJsonDeserialize(IOEnv.TRACE)

VARIABLES i, n, timeout, att, now, cto,
          selSince   \* a scheduling decision (client packet in an established session) has run since the timeout was last configured

N(r) == Len(r.links)
ConnOf(r) == [l \in Links |-> IF l <= N(r) THEN r.links[l].conn ELSE FALSE]
AttOf(r)  == [l \in Links |-> IF l <= N(r) THEN r.links[l].attempt ELSE -1]

(* links this pass tore down: the attempt stamp moved to the time of the pass *)
Torn(r) == {l \in 1..N(r) : r.links[l].attempt = r.t /\ att[l] # r.t}

(* clean accounting at (re)join: nothing in flight, nothing queued, warming; and, for a link that failed and
   comes back (not the very first registration, where pre-registration traffic may have moved it), the default
   window *)
CleanRejoin(r) == LET k == r.links[r.l] IN
    /\ k.conn /\ k.phase = "Warm" /\ k.infl = 0 /\ k.queued = 0
    /\ (tornSince[r.l] /\ everUp[r.l]) => k.win = 20000

CtoOf(r) == [l \in Links |-> IF l <= N(r) THEN r.links[l].cto ELSE 5000]

TraceInit == Init /\ i = 1 /\ n = 1 /\ timeout = 5000 /\ att = [l \in Links |-> -1] /\ now = 0
             /\ cto = [l \in Links |-> 5000] /\ selSince = FALSE

Step(r) ==
    IF r.ev = "Init" THEN
        /\ heard' = [l \in Links |-> -1] /\ born' = [l \in Links |-> 0] /\ regErr' = [l \in Links |-> FALSE]
        /\ everUp' = [l \in Links |-> FALSE] /\ lastTry' = [l \in Links |-> -1]
        /\ conn' = [l \in Links |-> FALSE] /\ tornSince' = [l \in Links |-> FALSE] /\ upSince' = [l \in Links |-> IF l <= r.n THEN 0 ELSE -1]
        /\ quietSince' = 0 /\ connAt' = TRUE /\ act' = "Init"
    ELSE IF r.ev = "Housekeeping" THEN Pass(r.t, timeout, cto, Torn(r), ConnOf(r), ~selSince)
    ELSE IF r.ev = "UplinkPkt" THEN Arrive(r.l, r.t, r.cls, r.len, ConnOf(r), CleanRejoin(r), r.stray)
    ELSE IF r.ev \in {"ClientPkt", "FlushTick"} /\ \E l \in 1..N(r) : r.marked[l]
         THEN /\ \A l \in 1..N(r) : r.marked[l] => r.sendfail[l]        \* only a link whose send just failed
              /\ SendFailure({l \in 1..N(r) : r.marked[l]}, r.t, ConnOf(r))
    ELSE IF r.ev = "SetPath" THEN (IF r.p = "up" THEN PathUp(r.l, r.t) ELSE PathDown(r.l))
    ELSE IF r.ev \in {"Amnesia", "SendFail", "ReplyLost", "SetCfg", "Burst"} THEN Interfere(r.t)
    ELSE Quiet(ConnOf(r))

TraceNext ==
    /\ i <= Len(Rec)
    /\ i' = i + 1
    /\ LET r == Rec[i] IN
       /\ n' = IF r.ev = "Init" THEN r.n ELSE n
       /\ timeout' = IF r.ev \in {"Init", "SetCfg"} THEN r.timeout ELSE timeout
       /\ att' = AttOf(r)
       /\ cto' = CtoOf(r)
       /\ selSince' = IF r.ev = "Init" \/ (r.ev = "SetCfg" /\ r.timeout # timeout) THEN FALSE
                      ELSE IF r.ev = "ClientPkt" /\ r.regdone THEN TRUE ELSE selSince
       /\ now' = r.t
       /\ Step(r)
       \* no other step tears a link down or connects one
       /\ (r.ev \notin {"Housekeeping", "Init"} => Torn(r) = {})

TraceSpec == TraceInit /\ [][TraceNext]_<<vars, i, n, timeout, att, now, cto, selSince>>

RejoinsInTime == Rejoins(now, timeout)

TraceAccepted ==
    LET d == TLCGet("stats").diameter IN
    IF d - 1 = Len(Rec) THEN TRUE
    ELSE /\ PrintT(<<"TRACE-REJECTED", d, ToJson([ev |-> Rec[d].ev, t |-> Rec[d].t, links |-> Rec[d].links])>>)
         /\ FALSE
=============================================================================
