SPECIFICATION MCSpec
CONSTANTS
  TMin = 100
  TMax = 200000
  SeedOnce = TRUE
  Targets <- GridTargetsFull
  Obss <- GridObsFull
  Export = FALSE
INVARIANT C16After
CHECK_DEADLOCK FALSE
