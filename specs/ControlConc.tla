----------------------------- MODULE ControlConc -----------------------------
(***************************************************************************)
(* C18, concurrency layer -- DynamicConfig under concurrent clients        *)
(* (src/config.rs:29-126).  Every setter is ONE atomic store (the timeout  *)
(* is clamped BEFORE its single store), a snapshot is NF separate atomic   *)
(* loads in field order, all Relaxed: each field is a coherent location,   *)
(* nothing orders different fields.  One action per atomic access.         *)
(*                                                                         *)
(*   Store(t, f, raw)   setter thread t: set_<f>(raw)                      *)
(*   OwnLoad(t)         t reads back the field it stored last (the load of *)
(*                      that field inside its next get_status / snapshot)  *)
(*   SnapBegin/SnapLoad the reader's snapshot(): one load per step         *)
(*                                                                         *)
(* Deliberate deviation, named: SnapshotMayTearAcrossFields -- a snapshot  *)
(* need not equal any configuration that ever existed as a whole           *)
(* (SnapshotIsAtomic is NOT an invariant; the check demands that TLC finds *)
(* its violation, which proves the model really interleaves per field).    *)
(***************************************************************************)
EXTENDS Integers, FiniteSets

CONSTANTS NF,          \* number of fields; field NF is the clamped one (conn_timeout_ms)
          Threads,     \* setter threads
          MaxStores,   \* stores per setter
          MaxSnaps,    \* snapshots taken by the reader
          TMin, TMax, TDefault,
          RawT         \* raw timeout arguments (besides the per-store unique one)

Fields == 1..NF
Unset  == -1
None   == [f |-> 0, v |-> 0]

VARIABLES mem,      \* the atomics
          stored,   \* history: every value each field ever held
          whole,    \* history: every whole configuration that ever existed
          own,      \* per setter: its last completed store [f, v]
          dirty,    \* per setter: another thread stored to own.f since
          nst,      \* stores done per setter
          rk, snap, nsnap,   \* reader: next field to load (0 = idle), partial snapshot, snapshots done
          obs       \* monitor: the last own-load [t, f, v, mine, dirty]

vars == <<mem, stored, whole, own, dirty, nst, rk, snap, nsnap, obs>>

Clamp(n) == IF n < TMin THEN TMin ELSE IF n > TMax THEN TMax ELSE n
Init0 == [f \in Fields |-> IF f = NF THEN TDefault ELSE 0]
NoObs == [t |-> 0, f |-> 0, v |-> 0, mine |-> 0, dirty |-> FALSE]

Init == /\ mem = Init0 /\ stored = [f \in Fields |-> {Init0[f]}] /\ whole = {Init0}
        /\ own = [t \in Threads |-> None] /\ dirty = [t \in Threads |-> FALSE]
        /\ nst = [t \in Threads |-> 0]
        /\ rk = 0 /\ snap = [f \in Fields |-> Unset] /\ nsnap = 0 /\ obs = NoObs

(* the value thread t's n-th store writes: unique per (t, n) unless clamped *)
Uniq(t, n) == t * 10 + n

Store(t, f, raw) ==
    /\ nst[t] < MaxStores
    /\ LET v == IF f = NF THEN Clamp(raw) ELSE raw IN     \* clamp first, then the single store
       /\ mem' = [mem EXCEPT ![f] = v]
       /\ stored' = [stored EXCEPT ![f] = @ \cup {v}]
       /\ whole' = whole \cup {[mem EXCEPT ![f] = v]}
       /\ own' = [own EXCEPT ![t] = [f |-> f, v |-> v]]
       /\ dirty' = [u \in Threads |-> IF u = t THEN FALSE ELSE dirty[u] \/ own[u].f = f]
    /\ nst' = [nst EXCEPT ![t] = @ + 1]
    /\ UNCHANGED <<rk, snap, nsnap, obs>>

OwnLoad(t) ==
    /\ own[t] # None
    /\ obs' = [t |-> t, f |-> own[t].f, v |-> mem[own[t].f], mine |-> own[t].v, dirty |-> dirty[t]]
    /\ UNCHANGED <<mem, stored, whole, own, dirty, nst, rk, snap, nsnap>>

SnapBegin ==
    /\ rk = 0 /\ nsnap < MaxSnaps
    /\ rk' = 1 /\ snap' = [f \in Fields |-> Unset]
    /\ UNCHANGED <<mem, stored, whole, own, dirty, nst, nsnap, obs>>

SnapLoad ==
    /\ rk \in Fields
    /\ snap' = [snap EXCEPT ![rk] = mem[rk]]
    /\ rk' = IF rk = NF THEN 0 ELSE rk + 1
    /\ nsnap' = IF rk = NF THEN nsnap + 1 ELSE nsnap
    /\ UNCHANGED <<mem, stored, whole, own, dirty, nst, obs>>

Next ==
    \/ \E t \in Threads, f \in Fields :
          \E raw \in (IF f = NF THEN RawT \cup {5000 + Uniq(t, nst[t])} ELSE {Uniq(t, nst[t])}) : Store(t, f, raw)
    \/ \E t \in Threads : OwnLoad(t)
    \/ SnapBegin \/ SnapLoad

Spec == Init /\ [][Next]_vars

(* ======================= the property (C18, schedules) ======================= *)
(* every loaded field is a value that was stored *)
LoadedWasStored ==
    /\ \A f \in Fields : snap[f] # Unset => snap[f] \in stored[f]
    /\ obs # NoObs => obs.v \in stored[obs.f]
(* a client's own completed store is visible to its next load unless another store intervened *)
ReadOwnWrite == obs # NoObs => (obs.v = obs.mine \/ obs.dirty)
(* the timeout is clamped at every instant and in every snapshot *)
TimeoutAlwaysClamped ==
    /\ mem[NF] \in TMin..TMax
    /\ snap[NF] # Unset => snap[NF] \in TMin..TMax
    /\ \A v \in stored[NF] : v \in TMin..TMax

(* NOT an invariant (SnapshotMayTearAcrossFields): TLC must find the counterexample *)
SnapshotIsAtomic == (rk = 0 /\ nsnap > 0) => snap \in whole
=============================================================================
