SPECIFICATION MCSpec
CONSTANTS
  Tasks = {1, 2, 3}
  Chans = {1, 2}
  Cap <- Cap12
  Topics = {"stats", "priority.window"}
  MaxSubs = 3
  MaxPubs = 2
  MaxUnsubs = 1
  MaxRecvs = 1
  MaxCloses = 1
  Export = FALSE
VIEW View
INVARIANTS IdsUnique MsgTagged Ordered ReceivedIsPrefix NothingAfterUnsub ClosedPruned LiveStay PubNeverBlocked
CHECK_DEADLOCK FALSE
