------------------------------ MODULE Keepalive ------------------------------
(***************************************************************************)
(* C14 -- keepalive cadence, frame contents and RTT sampling                *)
(* (housekeeping.rs:113-124, connection/mod.rs needs_keepalive /            *)
(*  keepalive_packet, rtt.rs handle_keepalive_response).                    *)
(*                                                                         *)
(* Per link the monitor keeps how many consecutive housekeeping passes went *)
(* by, with the link connected and not timed out, without a keepalive on   *)
(* its socket, and the link's telemetry as it stood when the pass began.   *)
(***************************************************************************)
EXTENDS Integers, Sequences

CONSTANTS MaxLinks

Links == 1..MaxLinks

VARIABLES missed,   \* missed[l]: consecutive qualifying passes without a keepalive
          tele,     \* tele[l]: [win, infl, naks, rate] as of the end of the previous step
          live,     \* live[l]: connected and not timed out as of the end of the previous step
          srtt,     \* srtt[l]: smoothed RTT in us (>= 0), as of the end of the previous step
          outst,    \* outst[l]: a keepalive has left on l since its last echo / reset, i.e. a probe MAY be
                    \*           outstanding (the monitor's own notion, not the code's flag)
          act

vars == <<missed, tele, live, srtt, outst, act>>

NoTele == [win |-> 0, infl |-> 0, naks |-> 0, rate |-> 0]

Init == /\ missed = [l \in Links |-> 0] /\ tele = [l \in Links |-> NoTele]
        /\ live = [l \in Links |-> FALSE] /\ srtt = [l \in Links |-> 0]
        /\ outst = [l \in Links |-> FALSE] /\ act = "Init"

Observe(tele1, live1, srtt1) == tele' = tele1 /\ live' = live1 /\ srtt' = srtt1

(* One housekeeping pass at time now.  kas[l]: the keepalive frames captured on l's socket during it, each
   [len, std10, ext, ts, kw, ki, kn, kr]; reset[l]: the link does not count for the cadence in this pass;
   torn[l]: the pass tore the link down for a reconnect attempt (its RTT state starts over).            *)
Pass(now, kas, reset, torn, tele1, live1, srtt1) ==
    /\ act' = "Pass"
    /\ Observe(tele1, live1, srtt1)
    /\ \A l \in Links :
         \* a frame is a 38-byte extended keepalive: standard 10-byte head with the send time, then the
         \* link's window, in-flight, loss count and rate as they stood when the pass began
         \A k \in 1..Len(kas[l]) :
            LET f == kas[l][k] IN
            /\ f.len = 38 /\ f.std10 /\ f.ext /\ f.ts = now
            /\ f.kw = tele[l].win /\ f.ki = tele[l].infl /\ f.kn = tele[l].naks /\ f.kr = tele[l].rate
    /\ outst' = [l \in Links |-> IF Len(kas[l]) > 0 THEN TRUE ELSE IF reset[l] /\ torn[l] THEN FALSE ELSE outst[l]]
    /\ missed' = [l \in Links |->
                    IF Len(kas[l]) > 0 THEN 0
                    ELSE IF live[l] /\ ~reset[l] THEN missed[l] + 1
                    ELSE 0]

(* a keepalive echo arrives on l: `sampled` = the RTT estimate took a sample from it *)
Echo(l, len, waiting, age, sampled, tele1, live1, srtt1) ==
    /\ act' = "Echo"
    /\ Observe(tele1, live1, srtt1)
    /\ sampled => (waiting /\ outst[l] /\ len >= 10 /\ 0 < age /\ age <= 10000)
    /\ outst' = [outst EXCEPT ![l] = FALSE]        \* answered or not, the probe is no longer outstanding
    /\ UNCHANGED missed

(* any other step; R: links reset during it (send failure -> recovery), whose probe state is cleared *)
Other(R, tele1, live1, srtt1) ==
    /\ act' = "Other" /\ Observe(tele1, live1, srtt1) /\ UNCHANGED missed
    /\ outst' = [l \in Links |-> IF l \in R THEN FALSE ELSE outst[l]]

(* ======================= the property (C14) ======================= *)
(* the gap between consecutive keepalives on a live link never exceeds two housekeeping periods *)
CadenceOK == \A l \in Links : missed[l] <= 1
(* the smoothed RTT is never negative (non-finite values cannot be represented and are rejected upstream) *)
SrttSane == \A l \in Links : srtt[l] >= 0
=============================================================================
