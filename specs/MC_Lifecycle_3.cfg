SPECIFICATION Spec
CONSTANTS
  NL = 3
  Timeout = 5
  Budget = 3
  Bound = 12
  Sat = 20
INVARIANTS RetrySpacing BoundedRejoin
CHECK_DEADLOCK FALSE
