SPECIFICATION TraceSpec
CONSTANTS
  N = 2
  Ids = {"A", "B", "C"}
  Id0 = "A"
  Reg2Timeout = 4000
  Reg3Timeout = 4000
  ProbeTimeout = 2000
  NgpRetry = 1000
  PelCap = 100000000
INVARIANTS AtMostOneReg1Out DriverReg1OnlyUnregistered BroadcastRule EmitCarriesId RegErrCancels AbandonedAfterTimeout OutIsPending
PROPERTIES IdOnlyByAcceptedReg2 ConnectedOnlyByReg3 ThenNgpAcceptedAgain
POSTCONDITION TraceAccepted
CHECK_DEADLOCK FALSE
