--------------------------- MODULE MC_ControlConc ---------------------------
(* 2 setter threads + 1 snapshot reader, every interleaving of the per-field *)
(* loads and stores.                                                          *)
EXTENDS ControlConc, TLC
=============================================================================
