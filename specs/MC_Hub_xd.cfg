SPECIFICATION MCSpec
CONSTANTS
  Tasks = {1, 2}
  Chans = {1, 2}
  Cap <- Cap12
  Topics = {"stats", "priority.window"}
  MaxSubs = 2
  MaxPubs = 2
  MaxUnsubs = 2
  MaxRecvs = 2
  MaxCloses = 2
  Export = TRUE
VIEW View
ACTION_CONSTRAINT Emit
INVARIANTS IdsUnique MsgTagged Ordered ReceivedIsPrefix NothingAfterUnsub ClosedPruned LiveStay PubNeverBlocked
CHECK_DEADLOCK FALSE
