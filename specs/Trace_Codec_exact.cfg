SPECIFICATION TraceSpec
CONSTANTS
  Cap = 1000
  Exact = TRUE
POSTCONDITION TraceAccepted
CHECK_DEADLOCK FALSE
