----------------------------- MODULE LinkCcImpl -----------------------------
(***************************************************************************)
(* The five-state controller's tick() as coded                             *)
(* (crates/srtla-core/src/selection/link_cc.rs:590-770), in integer kbit/s.*)
(* Everything tick() reads besides the previous state and target is an     *)
(* input of the step: the RTT inflation class, whether the loss window is  *)
(* above the back-off threshold, the `loss is not ours` latch, the         *)
(* low-variance (HAI) flag, the fast-recovery budget and the measured rate.*)
(* TLC takes this step from every state of a grid and checks C16's         *)
(* relations (LinkCcRel) on the pair of snapshots.                         *)
(***************************************************************************)
EXTENDS LinkCcRel

CONSTANTS SeedOnce      \* TRUE: seeded on the first tick that leaves Bootstrap (repair of D3);
                        \* FALSE: re-seeded whenever the target equals the floor (as the code had it)

Initial == 1000         \* INITIAL_TARGET_BPS, kbit/s

VARIABLES st, T, frt,           \* state, target, fast-recovery ticks left
          rtt, lossHigh, unc, hai, obs,   \* inputs of the last tick
          pst, pT                         \* snapshot before the last tick

vars == <<st, T, frt, rtt, lossHigh, unc, hai, obs, pst, pT>>

Clamp(x) == Max(TMin, Min(x, TMax))

Tick(r, lh, u, h, o) ==
    /\ rtt' = r /\ lossHigh' = lh /\ unc' = u /\ hai' = h /\ obs' = o /\ pst' = st /\ pT' = T
    /\ IF r = "none"
       THEN st' = "Bootstrap" /\ T' = TMin /\ frt' = frt
       ELSE LET base == Max(T, Initial)
                sane == Min(o, 4 * base)
                T0   == IF (IF SeedOnce THEN st = "Bootstrap" ELSE T = TMin)
                        THEN Clamp(Max(sane, Initial)) ELSE T
                loaded == sane * 1000 >= T0 * 300
                next == IF lh /\ loaded /\ ~u THEN "BackingOff"
                        ELSE IF r = "drain" THEN "Drain"
                        ELSE IF r = "hold" THEN "Holding"
                        ELSE "Climbing"
                frt1 == IF st \in {"BackingOff", "Drain"} /\ next = "Climbing" THEN 5 ELSE frt
                pm   == IF frt1 > 0 THEN 40 ELSE IF h THEN 60 ELSE 20
                step == (T0 * pm) \div 1000
                T1   == CASE next = "Climbing" ->
                                IF sane > 0 THEN Max(T0, TMin) + Max(Min(step, 2 * sane - T0), 0) ELSE T0
                          [] next = "Holding" -> T0
                          [] next = "BackingOff" -> Max((T0 * 850) \div 1000, Min(sane, T0))
                          [] next = "Drain" -> IF st # "Drain" THEN (T0 * 750) \div 1000 ELSE T0
            IN /\ st' = next /\ T' = Clamp(T1)
               /\ frt' = IF next = "Climbing" THEN Max(frt1 - 1, 0) ELSE 0

(* C16 on the pair of snapshots *)
C16 == /\ InRangeR(T)
       /\ FloorUntilRttR(rtt # "none", T)
       /\ LoweredOnlyByR(pst, pT, st, T, obs)
       /\ BackoffNeverRaisesR(pst, pT, st, T)
       /\ GrowthBoundedR(pst, pT, T, obs)
=============================================================================
