SPECIFICATION Spec
CONSTANTS
  QDen = 100
  CDen = 10
  ConnInHealthy = FALSE
  OverrideEligible = FALSE
  N = 2
  Recs <- GateRecs
  Cfgs <- GateCfgs
  Kinds <- PlainKind
  Export = FALSE
INVARIANTS C03_NoBlackout C03_LastUsableNeverGated C04_ChoiceEligible C04_RoutedEligible C10_ClassicIsReference C11_Stable C11_LeaveOnlyIf C11_CapNeverChosen C12_GuardOffIsBaseline
CHECK_DEADLOCK FALSE
