SPECIFICATION PlainSpec
CONSTANTS
  Addrs = {"a", "b", "c"}
  Unbindable = {}
  Seqs = {1, 2}
  StMax = 1
  StartLists <- StartsMid
  FileSet <- GraphFiles3
  MaxHist = 100
  Quiet = FALSE
  OverFiles <- GraphFiles3
  Export = FALSE
VIEW View

INVARIANTS NeverStranded IoConsistent OwnersLive IdsDistinct SelInRange
PROPERTIES ParsedExactly RefusedUntouched SighupTouchesNothing RefusedKeepsQueue SurvivorsKept RemovedExactly IoFollows TrackerPurged AddedOnce SelectionForgotten OrderKept
CHECK_DEADLOCK FALSE
