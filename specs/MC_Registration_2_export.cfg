SPECIFICATION MCSpec
CONSTANTS
  N = 2
  Ids = {"A", "B"}
  Id0 = "A"
  Reg2Timeout = 4000
  Reg3Timeout = 4000
  ProbeTimeout = 2000
  NgpRetry = 1000
  PelCap = 2000
  Steps = {1000, 2000, 4000}
  Export = TRUE
VIEW View
ACTION_CONSTRAINT Emit
CHECK_DEADLOCK FALSE
