SPECIFICATION TraceSpec
CONSTANTS
  Period = 1000
  FlushMs = 15
  Batch = 32
  RejoinMs = 30000
  MaxL = 4
  Check = {"C16"}
POSTCONDITION TraceAccepted
CHECK_DEADLOCK FALSE
