------------------------------ MODULE HubLock ------------------------------
(***************************************************************************)
(* C20 -- the lock layer under Hub.tla: the hub's async mutex              *)
(* (tokio::sync::Mutex: FIFO hand-off) made explicit.                      *)
(*                                                                         *)
(* Every critical section of Hub.tla (Insert, Unsub, Fanout, Prune with a  *)
(* non-empty mark set) becomes  Req(t) -> Grant -> Body(t):                *)
(*   Req    `entries.lock()` is polled: the task joins the FIFO wait queue *)
(*   Grant  the lock is free: the head of the queue becomes the holder     *)
(*   Body   the holder runs the section -- Hub.tla's action, unchanged --  *)
(*          and releases the lock in the same step, because the code has   *)
(*          no await inside any critical section.                          *)
(* AllocId (an atomic counter) and the no-mark exit of publish take no     *)
(* lock.  Subscribers (Recv / Close) never touch it.                       *)
(*                                                                         *)
(* Checked here:                                                           *)
(*  - HubRefined: every step is a step of Hub.tla or leaves its variables  *)
(*    unchanged -- the atomic-step model covers every schedule of the lock *)
(*    layer (also a multi-threaded one);                                   *)
(*  - HolderNeverWaits: the holder's next step is always enabled, whatever *)
(*    the channels look like (full, closed) -- nobody waits inside a       *)
(*    critical section, so nobody can hold up a publisher for longer than  *)
(*    the sections queued in front of it;                                  *)
(*  - PublishTerminates: with fairness on hub-internal steps ONLY (none on *)
(*    Recv / Close: subscribers may be as slow or dead as they like) every *)
(*    publish that started completes.                                      *)
(*                                                                         *)
(* BlockingSend = TRUE is the deliberately wrong variant (a fan-out that   *)
(* awaits room in a subscriber's channel while holding the lock); it must  *)
(* FAIL HolderNeverWaits and PublishTerminates -- the self-test that these *)
(* two are not vacuous.                                                    *)
(***************************************************************************)
EXTENDS Hub

CONSTANT BlockingSend

VARIABLES lk,      \* holder of the mutex, 0 = free
          wq,      \* FIFO queue of tasks waiting for it
          want     \* [Tasks -> the critical section the task has asked the lock for]

lvars == <<lk, wq, want>>
NoWant == [a |-> "none", id |-> -1, topic |-> ""]

LInit == Init /\ lk = 0 /\ wq = <<>> /\ want = [t \in Tasks |-> NoWant]

Free(t) == want[t].a = "none"       \* the task is not inside a lock()/critical section

LAlloc(t, tp, c) == Free(t) /\ AllocId(t, tp, c) /\ UNCHANGED lvars

Req(t, w) ==
    /\ Free(t)
    /\ CASE w.a = "Insert" -> pc[t].k = "sub"
         [] w.a = "Unsub"  -> pc[t].k = "idle" /\ Returned(w.id)
         [] w.a = "Fanout" -> pc[t].k = "idle"
         [] w.a = "Prune"  -> pc[t].k = "pub" /\ pc[t].prune # {}
    /\ want' = [want EXCEPT ![t] = w]
    /\ wq' = Append(wq, t)
    /\ UNCHANGED <<vars, lk>>

Grant ==
    /\ lk = 0 /\ wq # <<>>
    /\ lk' = Head(wq) /\ wq' = Tail(wq)
    /\ UNCHANGED <<vars, want>>

RoomForAll(topic) ==    \* only read by the wrong variant
    \A k \in DOMAIN entries :
        (entries[k].topic = topic /\ ~closed[entries[k].ch]) => Len(buf[entries[k].ch]) < Cap[entries[k].ch]

Body(t) ==
    /\ lk = t
    /\ CASE want[t].a = "Insert" -> Insert(t)
         [] want[t].a = "Unsub"  -> Unsub(t, want[t].id)
         [] want[t].a = "Fanout" -> (BlockingSend => RoomForAll(want[t].topic)) /\ Fanout(t, want[t].topic)
         [] want[t].a = "Prune"  -> Prune(t)
    /\ lk' = 0
    /\ want' = [want EXCEPT ![t] = NoWant]
    /\ UNCHANGED wq

PruneSkip(t) == Free(t) /\ pc[t].k = "pub" /\ pc[t].prune = {} /\ Prune(t) /\ UNCHANGED lvars

LRecv(c) == Recv(c) /\ UNCHANGED lvars
LClose(c) == Close(c) /\ UNCHANGED lvars

(* the steps a publishing task takes by itself once publish() was called *)
PubStep(t) ==
    \/ Req(t, [a |-> "Prune", id |-> -1, topic |-> ""])
    \/ PruneSkip(t)
    \/ (want[t].a \in {"Fanout", "Prune"} /\ Body(t))

Publishing(t) == want[t].a \in {"Fanout", "Prune"} \/ pc[t].k = "pub"

(* ========================= properties ========================= *)
HubRefined == [][Next]_vars

LockSane ==
    /\ lk \in Tasks \cup {0}
    /\ \A t \in Tasks : (lk = t \/ \E k \in DOMAIN wq : wq[k] = t) <=> want[t].a # "none"
    /\ \A j, k \in DOMAIN wq : j # k => wq[j] # wq[k]
    /\ lk # 0 => \A k \in DOMAIN wq : wq[k] # lk

HolderNeverWaits == lk # 0 => ENABLED Body(lk)

PublishTerminates == \A t \in Tasks : Publishing(t) ~> ~Publishing(t)
=============================================================================
