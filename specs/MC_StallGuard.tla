---------------------------- MODULE MC_StallGuard ----------------------------
(* Bounded exhaustive configuration of StallGuard: every interleaving of     *)
(* decisions, proofs, inbound bytes, load / RTT changes, disconnects, resets, *)
(* guard toggles and clock steps, ages saturating at Sat.  With Export, every *)
(* Select transition from every reachable state is printed for replay.       *)
EXTENDS StallGuard, TLC, Json

CONSTANTS Rtts, Ceils, StepSet, Export

MCInit == ceil \in Ceils /\ Init

MCNext ==
    \/ \E h \in BOOLEAN : Select(h)
    \/ ProofHere \/ ProofForeign \/ Recv
    \/ \E b \in BOOLEAN : SetLoad(b)
    \/ \E s \in Rtts : SetRtt(s)
    \/ Disconnect \/ Reg3
    \/ \E g \in BOOLEAN : SetGuard(g)
    \/ \E f \in BOOLEAN : Reset(f)
    \/ \E d \in StepSet : Advance(d)

MCSpec == MCInit /\ [][MCNext]_vars

State == [conn |-> conn, loaded |-> loaded, pa |-> pa, ra |-> ra, srtt |-> srtt, guard |-> guard,
          ceil |-> ceil, latched |-> latched, rec |-> rec, pulled |-> pulled, gated |-> gated]

(* what the monitor allows at this decision (property level), next to the exact post-state *)
Emit == (Export /\ act' = "Select") =>
    PrintT(<<"EDGE", ToJson(<<[
        e |-> [ev |-> "Select", pre |-> State, held |-> (latched' \/ pulled'), other |-> gated'],
        o |-> [latched |-> latched', pulled |-> pulled', gated |-> gated', rec |-> rec',
               riseOK  |-> (guard /\ (loaded \/ pulled') /\ pa # -1 /\ pa >= Eff),
               fallOK  |-> (~guard \/ (fr' # -1 /\ fr' >= DwellMult * Eff)),
               pullFallOK |-> (~guard \/ ~conn \/ heard),
               pullFallD4 |-> (PullWin > pwEng /\ ra # -1 /\ ra < PullWin)]]>>)>>)
=============================================================================
