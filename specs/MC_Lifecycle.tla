----------------------------- MODULE MC_Lifecycle -----------------------------
(***************************************************************************)
(* Design-level model of the link life cycle as the code runs it            *)
(* (is_timed_out, should_attempt_reconnect, the housekeeping reconnect +    *)
(* re-send, REG3 -> connected, keepalive echoes refreshing liveness), in    *)
(* 1 s units, with a fault environment (paths going down and up within a    *)
(* budget), alternating housekeeping passes and network turns.  The group   *)
(* handshake itself is Registration's subject: here a re-sent REG2 on a     *)
(* delivering path is answered by REG3 one network turn later.              *)
(*                                                                         *)
(* Checked: the Lifecycle monitor's Pass guards (teardown only when silent, *)
(* retry spacing) on every pass, and bounded rejoin as an invariant with a  *)
(* per-link countdown.                                                      *)
(***************************************************************************)
EXTENDS Integers, FiniteSets, TLC

CONSTANTS NL, Timeout, Budget, Bound, Sat

L == 1..NL

VARIABLES conn, sil, grace, sinceTry, est, pathUp, slot, upFor, budget, phase, minGapSeen

mvars == <<conn, sil, grace, sinceTry, est, pathUp, slot, upFor, budget, phase, minGapSeen>>

Inc(a) == IF a = -1 THEN -1 ELSE (IF a + 1 > Sat THEN Sat ELSE a + 1)

Init == /\ conn = [l \in L |-> FALSE] /\ sil = [l \in L |-> -1] /\ grace = [l \in L |-> 5]
        /\ sinceTry = [l \in L |-> -1] /\ est = [l \in L |-> FALSE]
        /\ pathUp = [l \in L |-> TRUE] /\ slot = [l \in L |-> "reg2"]       \* the initial REG2 round is on the wire
        /\ upFor = [l \in L |-> 0] /\ budget = Budget /\ phase = "net" /\ minGapSeen = 99

TimedOut(l) == IF ~conn[l]
               THEN IF ~est[l] /\ grace[l] > 0 THEN FALSE ELSE (sil[l] = -1 \/ sil[l] >= Timeout)
               ELSE sil[l] # -1 /\ sil[l] >= Timeout
Due(l) == IF ~est[l] THEN grace[l] = 0 /\ (sinceTry[l] = -1 \/ sinceTry[l] >= 1)
          ELSE sinceTry[l] = -1 \/ sinceTry[l] >= 5

(* one housekeeping pass, then one second goes by *)
Housekeeping ==
    /\ phase = "hk" /\ phase' = "net"
    /\ LET torn == {l \in L : TimedOut(l) /\ Due(l)} IN
       /\ conn' = [l \in L |-> IF l \in torn THEN FALSE ELSE conn[l]]
       /\ sil' = [l \in L |-> IF l \in torn THEN -1 ELSE Inc(sil[l])]
       /\ grace' = [l \in L |-> IF l \in torn THEN 5 ELSE (IF grace[l] > 0 THEN grace[l] - 1 ELSE 0)]
       /\ sinceTry' = [l \in L |-> IF l \in torn THEN 0 ELSE Inc(sinceTry[l])]
       \* what leaves on the wire: REG2 on a torn link, a keepalive on a connected live one
       /\ slot' = [l \in L |-> IF l \in torn THEN (IF pathUp[l] THEN "reg2" ELSE "none")
                               ELSE IF conn[l] /\ ~TimedOut(l) /\ pathUp[l] THEN "echo" ELSE slot[l]]
       /\ minGapSeen' = LET G == {sinceTry[l] : l \in {k \in torn : sinceTry[k] # -1 /\ est[k]}} IN
                        IF G = {} THEN minGapSeen
                        ELSE LET m == CHOOSE x \in G : \A y \in G : x <= y IN (IF m < minGapSeen THEN m ELSE minGapSeen)
       /\ upFor' = [l \in L |-> IF pathUp[l] /\ ~conn'[l] THEN (IF upFor[l] < Sat THEN upFor[l] + 1 ELSE Sat)
                                ELSE IF pathUp[l] THEN 0 ELSE 0]
    /\ UNCHANGED <<est, pathUp, budget>>

(* the network turn: replies in flight on delivering paths arrive *)
Network ==
    /\ phase = "net" /\ phase' = "hk"
    /\ conn' = [l \in L |-> IF pathUp[l] /\ slot[l] = "reg2" THEN TRUE ELSE conn[l]]
    /\ est'  = [l \in L |-> est[l] \/ (pathUp[l] /\ slot[l] = "reg2")]
    /\ sil'  = [l \in L |-> IF pathUp[l] /\ slot[l] \in {"reg2", "echo"} THEN 0 ELSE sil[l]]
    /\ slot' = [l \in L |-> "none"]
    /\ UNCHANGED <<grace, sinceTry, pathUp, upFor, budget, minGapSeen>>

PathDown(l) == /\ budget > 0 /\ pathUp[l] /\ pathUp' = [pathUp EXCEPT ![l] = FALSE] /\ budget' = budget - 1
               /\ slot' = [slot EXCEPT ![l] = "none"] /\ upFor' = [upFor EXCEPT ![l] = 0]
               /\ UNCHANGED <<conn, sil, grace, sinceTry, est, phase, minGapSeen>>
PathUpAgain(l) == /\ ~pathUp[l] /\ pathUp' = [pathUp EXCEPT ![l] = TRUE] /\ upFor' = [upFor EXCEPT ![l] = 0]
                  /\ UNCHANGED <<conn, sil, grace, sinceTry, est, slot, budget, phase, minGapSeen>>

Next == Housekeeping \/ Network \/ \E l \in L : PathDown(l) \/ PathUpAgain(l)
Spec == Init /\ [][Next]_mvars

(* ---- what is checked ---- *)
(* a link is torn down only when it has heard nothing for the timeout (by construction of `torn`), retries on an
   established link are at least 5 s apart *)
RetrySpacing == minGapSeen >= 5
(* once its path delivers, a link is connected again within Bound seconds *)
BoundedRejoin == \A l \in L : upFor[l] <= Bound
(* sanity (must be refuted): both links can be down at once after the faults *)
NeverBothDown == \E l \in L : conn[l] \/ phase = "net" \/ budget = Budget
=============================================================================
