----------------------------- MODULE Trace_Relay -----------------------------
(* Trace validation for C09 on ShellSim runs: every UplinkPkt line (replies of the fake receiver and seeded
   arbitrary byte strings of 0..1500 bytes on links in every state) must be a Relay!Datagram step.       *)
EXTENDS Relay, Sequences, Json, IOUtils, TLC

Rec == ndJsonDeserialize(IOEnv.TRACE)

VARIABLES i, infl,   \* position; in-flight counts after the previous line
          chan      \* digests waiting in the uplink channel (Burst pushes, Drain pops at most 64, in order)

N(r) == Len(r.links)
Stamp(r, f(_)) == [l \in Links |-> IF l <= N(r) THEN f(r.links[l]) ELSE -1]
RecvOf(r)  == LET f(k) == k.recv IN Stamp(r, f)
ProofOf(r) == LET f(k) == k.proof IN Stamp(r, f)
InflOf(r)  == [l \in Links |-> IF l <= N(r) THEN r.links[l].infl ELSE 0]

(* copies of THIS datagram among the client deliveries of the step; anything else delivered is foreign *)
RECURSIVE CountDig(_, _)
CountDig(c, d) == IF c = <<>> THEN 0 ELSE (IF Head(c).dig = d THEN 1 ELSE 0) + CountDig(Tail(c), d)

DrainMax == 64

Digs(c) == [k \in 1..Len(c) |-> c[k].dig]
Prefix(s, m) == [k \in 1..m |-> s[k]]
Rest(s, m) == [k \in 1..(Len(s) - m) |-> s[k + m]]

TraceInit == Init /\ i = 1 /\ infl = [l \in Links |-> 0] /\ chan = <<>>

TraceNext ==
    /\ i <= Len(Rec)
    /\ i' = i + 1
    /\ LET r == Rec[i] IN
       /\ infl' = InflOf(r)
       /\ IF r.ev = "UplinkPkt"
          THEN /\ CountDig(r.client, r.dig) = Len(r.client)      \* nothing but copies of this datagram
               /\ Datagram(r.l, r.cls, r.len, r.known, r.t, Len(r.client), r.waiting0, r.karel,
                           RecvOf(r), ProofOf(r), {k \in 1..N(r) : r.links[k].infl < infl[k]})
          ELSE IF r.ev = "Burst"
          THEN /\ chan' = chan \o r.pushed /\ r.client = <<>> /\ Other(RecvOf(r), ProofOf(r))
          ELSE IF r.ev = "Drain"
          THEN \* the first min(64, |chan|) datagrams are relayed, one copy each, in order; the rest stay queued
               LET m == IF Len(chan) < DrainMax THEN Len(chan) ELSE DrainMax IN
               /\ (r.known => Digs(r.client) = Prefix(chan, m))
               /\ chan' = Rest(chan, m) /\ r.left = Len(chan')
               /\ Other(RecvOf(r), ProofOf(r))
          ELSE /\ (r.client = <<>> \/ r.ev = "Init")
               /\ Other(RecvOf(r), ProofOf(r))
       /\ (r.ev \notin {"Burst", "Drain"} => chan' = (IF r.ev = "Init" THEN <<>> ELSE chan))

TraceSpec == TraceInit /\ [][TraceNext]_<<vars, i, infl, chan>>

TraceAccepted ==
    LET d == TLCGet("stats").diameter IN
    IF d - 1 = Len(Rec) THEN TRUE
    ELSE /\ PrintT(<<"TRACE-REJECTED", d, ToJson([ev |-> Rec[d].ev, t |-> Rec[d].t, client |-> Rec[d].client,
                                                   links |-> Rec[d].links])>>)
         /\ FALSE
=============================================================================
