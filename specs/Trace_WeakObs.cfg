SPECIFICATION TraceSpec
CONSTANTS
  N = 4
  Floor = 100000
  Sustain = 2
  ProbInterval = 15
  ProbWindow = 3
INVARIANTS NotWeakWhenOff RunBounded EnterLeave
PROPERTY ProbationHonoured
POSTCONDITION TraceAccepted
CHECK_DEADLOCK FALSE
