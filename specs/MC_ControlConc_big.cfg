SPECIFICATION Spec
CONSTANTS
  NF = 3
  Threads = {1, 2}
  MaxStores = 3
  MaxSnaps = 1
  TMin = 1000
  TMax = 60000
  TDefault = 5000
  RawT = {0, 70000}
INVARIANTS LoadedWasStored ReadOwnWrite TimeoutAlwaysClamped
CHECK_DEADLOCK FALSE
