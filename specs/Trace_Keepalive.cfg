SPECIFICATION TraceSpec
CONSTANTS
  MaxLinks = 4
INVARIANTS CadenceOK SrttSane
POSTCONDITION TraceAccepted
CHECK_DEADLOCK FALSE
