SPECIFICATION TraceSpec
CONSTANTS
  TMin = 1000
  TMax = 60000
  TDefault = 5000
  Exact = TRUE
INVARIANTS TypeOK LastOK
POSTCONDITION TraceAccepted
CHECK_DEADLOCK FALSE
