SPECIFICATION MCSpec
CONSTANTS
  N = 3
  Floor = 100
  Sustain = 2
  ProbInterval = 3
  ProbWindow = 2
  Rates = {0, 30, 600}
  Delays = {TRUE, FALSE}
  Conns = {TRUE, FALSE}
  MaxTicks = 100000
  Export = FALSE
VIEW View
CONSTRAINT Bound
INVARIANTS NotWeakWhenOff DelayNeedsTwoTicks RunBounded EnterLeave
PROPERTY ProbationHonoured
CHECK_DEADLOCK FALSE
