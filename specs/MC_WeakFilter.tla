---------------------------- MODULE MC_WeakFilter ----------------------------
EXTENDS WeakFilter, TLC, Json, Sequences

CONSTANTS Rates, Delays, Conns, MaxTicks, Export

VARIABLE hist

(* a disconnected link's rate and delay are never read: one canonical input for it *)
LinkIn == {[conn |-> TRUE, rate |-> r, delay |-> d] : r \in Rates, d \in Delays}
          \cup (IF FALSE \in Conns THEN {[conn |-> FALSE, rate |-> 0, delay |-> FALSE]} ELSE {})
Inputs == [Links -> LinkIn]

MCInit == Init /\ hist = <<>>

ObsOf(o) == [l \in Links |-> [weak |-> o[l].weak, reason |-> o[l].reason, share |-> o[l].share, thr |-> o[l].thr]]
InSeq(in) == [l \in Links |-> in[l]]

MCNext == \E in \in Inputs :
            /\ Tick(in)
            /\ hist' = Append(hist, [e |-> [ev |-> "Tick", inp |-> in], o |-> [v |-> ObsOf(out')]])

MCSpec == MCInit /\ [][MCNext]_<<vars, hist>>

View == vars
Bound == Len(hist) < MaxTicks
Emit == Export => PrintT(<<"EDGE", ToJson(hist')>>)
=============================================================================
