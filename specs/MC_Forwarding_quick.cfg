SPECIFICATION MCSpec
CONSTANTS
  MaxLinks = 2
  MaxBatch = 3
  ProbeGap = 2
  CheckEligibility = TRUE
  NLinks = 2
  NPkts = 3
  Thr <- Thresholds
INVARIANTS QueueBound EmptyAfterTick NothingVanishes NoDuplicateOnALink InOrder
CHECK_DEADLOCK FALSE
