----------------------------- MODULE Trace_Loop -----------------------------
(***************************************************************************)
(* End-to-end observer for the REAL event loop (vh record loopsim: the     *)
(* unmodified run_sender_with_config on a paused tokio clock, an SRT       *)
(* client socket and an SRTLA receiver socket on loopback).  Everything    *)
(* here is stated on what a deployment can see from outside: the frames    *)
(* each uplink puts on the wire (link = source address, socket = source    *)
(* port), the datagrams the client gets back, and virtual time.  It        *)
(* decides the clauses of C01 / C09 / C14 / C08 that depend on the inline  *)
(* body of the loop -- timer periods, arm wiring, what runs after what --  *)
(* which the arm-level engine (ShellSim) calls at its own cadence.         *)
(*                                                                         *)
(* A step is one harness action followed by "let the loop run until idle   *)
(* without time moving"; an Advance(d) step lets d virtual ms pass, so a   *)
(* frame logged by it left somewhere in (t - d, t].                        *)
(***************************************************************************)
EXTENDS Integers, Sequences, FiniteSets, Json, IOUtils, TLC, SequencesExt

CONSTANTS Period,      \* housekeeping period              1000
          FlushMs,     \* batch flush tick                   15
          Batch,       \* largest batch                      32
          RejoinMs,    \* reconnect bound after a repair  30000
          MaxL,
          Check        \* which properties' clauses are asserted: a subset of {"C01", "C02", "C03", "C04", "C06", "C07", "C08", "C09", "C10", "C14", "C19", "C20"}
                       \* (the observer's own state always advances; each check names its property)

Rec == ndJsonDeserialize(IOEnv.TRACE)

VARIABLES i,
          n, timeout, profile,
          est,       \* a REG3 has reached the sender: the session is established
          known,     \* the client has spoken (its address is known to the sender)
          outst,     \* client datagrams not yet seen on the wire: [k, dig, t, must]
          hi,        \* hi[l]: highest client index transmitted first on link l
          recent,    \* [dig, l, t] of recent first transmissions (duplicates must copy one of them)
          routed, dups,
          port,      \* port[l]: source port the link currently sends from (0: not seen yet)
          conn,      \* conn[l]: time REG3 reached the link's current socket (-1: not connected)
          heard,     \* heard[l]: last time the sender was given a non-handshake datagram (or REG3) on l's socket
          kaT,       \* kaT[l]: last keepalive seen from the current socket (or its connection time)
          downLo,    \* downLo[l]: earliest possible time of the link's last socket re-creation (-1: none)
          everUp,    \* everUp[l]: the link has been connected at least once
          repaired,  \* repaired[l]: time its path was repaired while it was not connected (-1: nothing pending)
          mode, modeT,  \* the configured scheduling mode and when it was last (re)set
          ackT,      \* last time an ACK-class datagram (SRTLA ACK, SRT ACK) or a REG3 reached the sender
          kw, kwT,   \* kw[l]: window reported by the link's last keepalive (-1: none on this socket), and when
          reg1L, reg1T,  \* the link / time of the last REG1 seen on the wire (0 / -1: none)
          ansT,      \* when the receiver's REG2 answer to that REG1 reached the sender (-1: not yet)
          seen2,     \* links that have sent a REG2 carrying the receiver's group id since that answer
          amn,       \* amn[l]: time of a receiver restart / injected send failure after which link l has not been
                     \*         re-registered (-1: none)
          failing,   \* failing[l]: the kernel refuses every send on l's current socket (injected), not yet re-created
          listed,    \* the uplinks the IP file currently lists (as applied)
          pendL, applyT,  \* a reloaded list waiting for the next housekeeping pass, and when that pass is (-1: none)
          refT,      \* time of the last refused reload (-1: none)
          lastApply, \* when the last list came into force
          out,       \* out[l]: the data sequence numbers that left from l's current socket and have not been retired by
                     \*         what the receiver has sent since (C02, as far as the outside can tell)
          lastBind,  \* lastBind[l]: when the sender last tried to open a socket for l (-1: not since l was listed)
          rex,       \* sequence numbers the client has offered more than once
          nk, nkx, amb, ambN,  \* nk[l]: loss reports certainly charged to l's current registration (C05); nkx[l]: further ones that
                     \*   may have been; amb[l]: numbers in out[l] that such a report may have retired; ambN: such reports
          subs,      \* the reading control clients: <<[sid, topic, open, last]>> (last: time / counter of the last line)
          statT,     \* when the first reading client last got a stats line
          pgev, ppgev, ppulls, pstT, ppstT,  \* stall counters of the last two stats samples per link (-1: not comparable)
          gOffT, gSel   \* since when the stall guard has been switched off (-1: it is on); a datagram was routed since

vars == <<i, n, timeout, profile, est, known, outst, hi, recent, routed, dups, port, conn, heard, kaT, downLo,
          everUp, repaired, mode, modeT, ackT, kw, kwT, reg1L, reg1T, ansT, seen2, amn, failing, listed, pendL, applyT, refT, lastApply, out,
          lastBind, rex, nk, nkx, amb, ambN, subs, statT, pgev, ppgev, ppulls, pstT, ppstT, gOffT, gSel>>

Links == 1..MaxL
Handshake == {"reg1", "reg2", "reg3", "reg_err", "reg_ngp"}
Internal  == Handshake \cup {"srtla_ack", "ka"}
SenderOwn == {"ka", "reg1", "reg2"}          \* frames the sender originates itself

(* per-link views of one step; a frame from a source port other than the link's current one means its socket
   was re-created (torn down and re-registered) *)
FramesOf(r, l) == SelectSeq(r.wire, LAMBDA f : f.l = l)
RxOf(r, l)     == SelectSeq(r.rx, LAMBDA x : x.l = l)

Fs(r, l)     == FramesOf(r, l)
NewP(r, l)   == IF Fs(r, l) = <<>> THEN port[l] ELSE Fs(r, l)[Len(Fs(r, l))].port
Torn(r, l)   == port[l] # 0 /\ \E j \in 1..Len(Fs(r, l)) : Fs(r, l)[j].port # port[l]
(* ---- IP-list reloads (C19): a SIGHUP queues the new list, the next housekeeping pass applies it ---- *)
Applying(r) == applyT # -1 /\ r.t >= applyT
Removed(r)  == IF Applying(r) THEN listed \ pendL ELSE {}
Kept(r)     == IF Applying(r) THEN listed \cap pendL ELSE listed

(* the sockets of link l that may carry unique copies in step r: the one REG3 has reached (still in place when the
   step began), and the one REG3 reaches in this very step *)
OkPorts(r, l) == (IF conn[l] # -1 THEN {port[l]} ELSE {})
                 \cup {r.rx[j].port : j \in {q \in 1..Len(r.rx) : r.rx[q].l = l /\ r.rx[q].cls = "reg3"}}

Fresh(r) ==
    /\ n' = r.n /\ timeout' = r.timeout /\ profile' = r.profile
    /\ est' = FALSE /\ known' = FALSE /\ outst' = {} /\ hi' = [l \in Links |-> 0] /\ recent' = {}
    /\ routed' = 0 /\ dups' = 0
    /\ conn' = [l \in Links |-> -1] /\ heard' = [l \in Links |-> -1] /\ kaT' = [l \in Links |-> -1]
    /\ downLo' = [l \in Links |-> -1] /\ everUp' = [l \in Links |-> FALSE]
    \* an uplink whose path delivers from the start owes its registration like one whose path has just been repaired
    /\ repaired' = [l \in Links |-> IF l <= r.n /\ l \in (IF "listed" \in DOMAIN r THEN {r.listed[j] : j \in 1..Len(r.listed)} ELSE 1..r.n)
                                        /\ r.up[l] THEN 0 ELSE -1]
    /\ mode' = r.mode /\ modeT' = 0 /\ ackT' = -1 /\ kw' = [l \in Links |-> -1] /\ kwT' = [l \in Links |-> -1]
    /\ reg1L' = 0 /\ reg1T' = -1 /\ ansT' = -1 /\ seen2' = {} /\ amn' = [l \in Links |-> -1]
    /\ failing' = [l \in Links |-> FALSE]
    /\ listed' = (IF "listed" \in DOMAIN r THEN {r.listed[j] : j \in 1..Len(r.listed)} ELSE 1..r.n) /\ pendL' = {} /\ applyT' = -1 /\ refT' = -1 /\ lastApply' = 0
    /\ out' = [l \in Links |-> {}]
    /\ lastBind' = [l \in Links |-> -1] /\ rex' = {} /\ nk' = [l \in Links |-> 0] /\ nkx' = [l \in Links |-> 0] /\ amb' = [l \in Links |-> {}] /\ ambN' = 0
    /\ subs' = (IF "subs" \in DOMAIN r
                THEN [j \in 1..Len(r.subs) |-> [sid |-> r.subs[j].sid, topic |-> r.subs[j].topic, open |-> TRUE, last |-> -1]]
                ELSE <<>>)
    /\ statT' = 0 /\ pgev' = [l \in Links |-> -1] /\ ppgev' = [l \in Links |-> -1] /\ ppulls' = [l \in Links |-> -1]
    /\ pstT' = -1 /\ ppstT' = -1 /\ gOffT' = -1 /\ gSel' = FALSE

(* ---------------- the uplink direction (C01) ---------------- *)
(* fold over the frames of one step, in the order the receiver socket delivered them *)
WireStep(r, acc, f) ==
    IF f.cls \in SenderOwn THEN acc
    ELSE LET M == {x \in acc.o : x.dig = f.dig} IN
         IF M # {}
         THEN LET x == CHOOSE y \in M : \A z \in M : y.k <= z.k IN
              [acc EXCEPT !.o = @ \ {x},
                          !.h = [@ EXCEPT ![f.l] = x.k],
                          !.sent = @ \cup {[dig |-> f.dig, l |-> f.l, t |-> r.t]},
                          !.routed = @ + 1,
                          \* per-link arrival order; on time if the session was established when it was accepted
                          !.ok = @ /\ x.k > acc.h[f.l] /\ f.len = x.len
                                   /\ (x.must => r.t - r.d - x.t <= FlushMs),
                          \* C04: the unique copy of a datagram accepted in an established session leaves from a
                          \* socket that has completed registration (REG3 reached it) and whose link had been heard
                          \* from within the configured timeout when the datagram was accepted
                          !.elig = @ /\ (x.must =>
                                           /\ f.port \in OkPorts(r, f.l)
                                           /\ ~(heard[f.l] # -1 /\ x.t - heard[f.l] >= timeout))
                                     \* ... and a datagram accepted once a session had been established never leaves
                                     \* from a socket that REG3 has not reached, whatever else is going on (a total
                                     \* outage, a link that never came up, a reload)
                                     /\ (x.est => f.port \in OkPorts(r, f.l))]
         ELSE \* nothing outstanding has these bytes: only an identical copy of a datagram that just left on
              \* ANOTHER link (the probe trickle on a stall-gated link) is allowed
              [acc EXCEPT !.dups = @ + 1,
                          !.ok = @ /\ \E s \in acc.sent : s.dig = f.dig /\ s.l # f.l]

(* the datagram the client sends in this step is accepted before anything the step puts on the wire *)
(* the premise of C01: some uplink is connected and has been heard from within the configured timeout *)
Usable(t) == \E l \in 1..n : conn[l] # -1 /\ heard[l] # -1 /\ t - heard[l] < timeout
Outst0(r) == IF r.ev = "Client" /\ r.sent
             THEN outst \cup {[k |-> r.k, dig |-> r.dig, t |-> r.t, len |-> r.plen, must |-> est /\ Usable(r.t), est |-> est]}
             ELSE outst
Wire(r) == FoldLeft(LAMBDA acc, f : WireStep(r, acc, f),
                    [o |-> Outst0(r), h |-> hi, sent |-> recent, routed |-> routed, dups |-> dups, ok |-> TRUE,
                     elig |-> TRUE],
                    r.wire)

Uplink(r) ==
    LET w == Wire(r)
        \* a datagram still queued on an uplink that is torn down in this step may be lost with it
        \* ... and so may whatever was routed to an uplink whose socket refuses every send (until it is re-created)
        Fail1 == [l \in Links |-> (failing[l] \/ (r.ev = "SendFail" /\ r.done /\ r.l = l))]
        \* ... or on an uplink that a reload removes in this step
        o1 == IF Applying(r) \/ \E l \in 1..n : Torn(r, l) \/ Fail1[l]
              THEN {[x EXCEPT !.must = FALSE] : x \in w.o} ELSE w.o
    IN /\ outst' = o1 /\ hi' = w.h /\ routed' = w.routed /\ dups' = w.dups
       /\ recent' = {s \in w.sent : r.t - s.t <= 100}
       /\ "C04" \in Check => w.elig
       \* C20 (publish never blocks the loop): with subscribers that never read, nothing accepted waits longer than a
       \* flush tick -- a loop parked in a publish flushes nothing
       /\ "C20" \in Check => \A x \in o1 : x.must => r.t - x.t <= FlushMs
       \* C03 (no blackout): while some uplink is usable, a datagram is never dropped by the scheduler, whatever gates
       \* are engaged -- on the wire: it has left within a flush tick (schedules with a black-holed, failing or
       \* restarting far end, where stall guard, silence pull and in-flight caps do engage)
       /\ "C03" \in Check => \A x \in o1 : x.must => r.t - x.t <= FlushMs
       /\ "C01" \in Check =>
            /\ w.ok
            \* nothing accepted in an established session waits longer than one flush tick, or behind more than
            \* a batch per link
            /\ \A x \in o1 : x.must => r.t - x.t <= FlushMs
            /\ Cardinality({x \in o1 : x.must}) <= Batch * n
            \* duplicates: at most one per 100 routed datagrams per link (plus one)
            /\ w.dups * 100 <= (w.routed + 100) * n

(* ---------------- the return direction (C09) ---------------- *)
Digs(s) == {s[j].dig : j \in 1..Len(s)}
Relayable(r) == {r.rx[j].dig : j \in {q \in 1..Len(r.rx) : r.rx[q].cls \notin Internal /\ r.rx[q].len >= 2}}
(* ... of which those addressed to an uplink that is listed and stays listed must arrive (a datagram on its way to an
   uplink that a reload has just removed finds no socket) *)
MustRelay(r) == {r.rx[j].dig : j \in {q \in 1..Len(r.rx) : /\ r.rx[q].cls \notin Internal /\ r.rx[q].len >= 2
                                                             /\ r.rx[q].l \in listed \ Removed(r)}}
Return(r) ==
    /\ known' = (known \/ (r.ev = "Client" /\ r.sent))
    \* the client gets exactly the receiver's SRT-level datagrams of this step, byte for byte, and nothing else
    /\ "C09" \in Check =>
         /\ Digs(r.client) \subseteq Relayable(r)
         /\ known => MustRelay(r) \subseteq Digs(r.client)
         /\ ~known => r.client = <<>>

(* ---------------- sockets, liveness, keepalives (C08 / C14) ---------------- *)
Got3(r, l)   == \E j \in 1..Len(RxOf(r, l)) : RxOf(r, l)[j].cls = "reg3" /\ RxOf(r, l)[j].port = NewP(r, l)
Hears(r, l)  == \E j \in 1..Len(RxOf(r, l)) :
                   RxOf(r, l)[j].cls \notin {"reg2", "reg_err", "reg_ngp"} /\ RxOf(r, l)[j].port = NewP(r, l)
Kas(r, l)    == SelectSeq(Fs(r, l), LAMBDA f : f.cls = "ka")
Conn1(r, l)  == IF Torn(r, l) THEN (IF Got3(r, l) THEN r.t ELSE -1)
                ELSE IF Got3(r, l) /\ conn[l] = -1 THEN r.t ELSE conn[l]
Heard1(r, l) == IF Hears(r, l) THEN r.t ELSE IF Torn(r, l) THEN -1 ELSE heard[l]
Rep1(r, l)   == IF Conn1(r, l) # -1 THEN -1
                ELSE IF r.ev = "SetPath" /\ r.l = l THEN (IF r.p = "up" THEN r.t ELSE -1)
                ELSE IF Applying(r) /\ l \in pendL \ listed THEN r.t        \* an uplink a reload has just added
                ELSE repaired[l]
KaT1(r, l)   == IF Kas(r, l) # <<>> THEN r.t
                ELSE IF Torn(r, l) \/ (Got3(r, l) /\ conn[l] = -1) THEN Conn1(r, l) ELSE kaT[l]

LinkChecks(r, l) ==
    /\ "C08" \in Check =>
         \* a socket is re-created only after the configured silence, never earlier; retries are spaced
         /\ Torn(r, l) =>
              /\ (heard[l] # -1 /\ ~failing[l]) => r.t >= heard[l] + timeout     \* ... or its socket send failed
              /\ downLo[l] # -1 => r.t - downLo[l] >= (IF everUp[l] THEN 5000 ELSE 1000)
         \* once the path delivers again the link is connected again in time
         /\ (Rep1(r, l) # -1) => r.t - Rep1(r, l) <= RejoinMs + timeout + Period + r.d
    \* C20: ... and the housekeeping arm keeps coming round (keepalives keep their cadence)
    /\ "C20" \in Check =>
         ((Conn1(r, l) # -1 /\ KaT1(r, l) # -1 /\ Heard1(r, l) # -1 /\ r.t - Heard1(r, l) < timeout
               /\ ~failing[l] /\ ~(r.ev = "SendFail" /\ r.l = l))
                => r.t - KaT1(r, l) <= 2 * Period + r.d)
    /\ "C14" \in Check =>
         \* every keepalive is a 38-byte extended frame stamped with its send time
         /\ \A j \in 1..Len(Kas(r, l)) : LET k == Kas(r, l)[j] IN
                /\ k.len = 38 /\ k.std10 /\ k.ext /\ k.ts <= r.t /\ k.ts >= r.t - r.d
         \* a connected link that is not timed out is never silent for more than two periods
         /\ (Conn1(r, l) # -1 /\ KaT1(r, l) # -1 /\ Heard1(r, l) # -1 /\ r.t - Heard1(r, l) < timeout
               /\ ~failing[l] /\ ~(r.ev = "SendFail" /\ r.l = l))
                => r.t - KaT1(r, l) <= 2 * Period + r.d
         \* a link that is not connected sends no keepalives
         /\ (conn[l] = -1 /\ Conn1(r, l) = -1 /\ port[l] # 0 /\ ~Torn(r, l)) => Kas(r, l) = <<>>

(* ---- C06: classic mode never applies time-based window recovery.  The window a link reports in two consecutive
   keepalives of the same socket does not grow while the mode has been classic since before the first of them
   and nothing ACK-like reached the sender in between (only ACKs raise a classic window). ---- *)
AckNow(r) == \E j \in 1..Len(r.rx) : r.rx[j].cls \in {"srtla_ack", "srt_ack", "reg3"}
WindowChecks(r, l) ==
    ("C06" \in Check \/ "C10" \in Check) =>        \* C10 states the same clause for the classic reference algorithm
        \A j \in 1..Len(Kas(r, l)) :
            (j = 1 /\ ~Torn(r, l) /\ kw[l] # -1 /\ Kas(r, l)[j].kw # -1
               /\ mode = "classic" /\ modeT < kwT[l] /\ r.ev # "SetCfg"
               /\ ackT < kwT[l] /\ ~AckNow(r))
            => Kas(r, l)[j].kw <= kw[l]
Kw1(r, l)  == IF Kas(r, l) # <<>> THEN Kas(r, l)[Len(Kas(r, l))].kw ELSE IF Torn(r, l) THEN -1 ELSE kw[l]
KwT1(r, l) == IF Kas(r, l) # <<>> THEN r.t ELSE IF Torn(r, l) THEN -1 ELSE kwT[l]

(* ---- C02 from outside: each keepalive reports the link's in-flight count; the observer knows what left on each
   socket and what the receiver has acknowledged since.  Frames of one step are taken in the order they were sent
   (data frames and keepalives leave while time passes, i.e. before the answers this step delivers are processed);
   a frame from a new source port means the link was reset in between. ---- *)
AcctWire(r, acc, f) ==
    LET o1 == IF f.port # acc.p[f.l] THEN [acc.o EXCEPT ![f.l] = {}] ELSE acc.o
        a1 == [acc EXCEPT !.o = o1, !.p = [@ EXCEPT ![f.l] = f.port]]
    IN IF f.cls = "data" /\ f.seq >= 0 THEN [a1 EXCEPT !.o = [@ EXCEPT ![f.l] = @ \cup {f.seq}]]
       ELSE IF f.cls = "ka" /\ "ki" \in DOMAIN f /\ f.ki # -1
            THEN [a1 EXCEPT !.ok = @ /\ (failing[f.l] \/ (/\ f.ki <= Cardinality(o1[f.l])
                                                             /\ f.ki >= Cardinality(o1[f.l] \ amb[f.l])))]
       ELSE a1
FirstOther(o, s, skip) ==
    LET H == {l \in Links : l # skip /\ s \in o[l]}
    IN IF H = {} THEN 0 ELSE CHOOSE l \in H : \A m \in H : l <= m
AckOne(o, l, s) == IF s \in o[l] THEN [o EXCEPT ![l] = @ \ {s}]
                   ELSE LET h == FirstOther(o, s, l) IN IF h = 0 THEN o ELSE [o EXCEPT ![h] = @ \ {s}]
(* a loss report: each number is charged to the one uplink that holds it.  The harness reports numbers the receiver
   got exactly once, so normally there is one holder or -- after an ACK or a reset -- none; when the client has
   offered the number again (a retransmission, queued or sent on whatever uplink while the report was on its way)
   the outside cannot tell which uplink the sender's tracker names: at most one of the holders is charged (x: possible extra charges, m: numbers that may be
   gone, c: how many such reports) *)
NakOne(a, s) ==
    LET H == {l \in Links : s \in a.o[l]} IN
    IF s < 0 \/ H = {} THEN a
    ELSE IF Cardinality(H) = 1 /\ s \notin rex
         THEN LET h == CHOOSE l \in H : TRUE IN
              IF s \in a.m[h] THEN [a EXCEPT !.x = [@ EXCEPT ![h] = @ + 1], !.c = @ + 1]   \* (it may be gone already)
              ELSE [a EXCEPT !.o = [@ EXCEPT ![h] = @ \ {s}], !.k = [@ EXCEPT ![h] = @ + 1]]
         ELSE [a EXCEPT !.x = [l \in Links |-> IF l \in H THEN a.x[l] + 1 ELSE a.x[l]],
                        !.m = [l \in Links |-> IF l \in H THEN a.m[l] \cup {s} ELSE a.m[l]],
                        !.c = @ + 1]
AcctRx(r, a, x) ==
    IF "nums" \notin DOMAIN x THEN a
    \* (an answer addressed to an uplink that a reload has removed finds no socket: the sender never sees it)
    ELSE IF x.l \notin (IF Applying(r) THEN pendL ELSE listed) THEN a
    ELSE IF x.cls = "srtla_ack" THEN [a EXCEPT !.o = FoldLeft(LAMBDA oo, s : AckOne(oo, x.l, s), a.o, x.nums)]
    ELSE IF x.cls = "srt_ack" /\ x.nums # <<>> THEN [a EXCEPT !.o = [l \in Links |-> {s \in a.o[l] : s > x.nums[1]}]]
    ELSE IF x.cls = "reg3"        \* registration clears the link's accounting
         THEN [a EXCEPT !.o = [@ EXCEPT ![x.l] = {}], !.k = [@ EXCEPT ![x.l] = 0], !.x = [@ EXCEPT ![x.l] = 0]]
    ELSE IF x.cls = "srt_nak" THEN FoldLeft(LAMBDA aa, s : NakOne(aa, s), a, x.nums)
    ELSE a
Acct(r) ==
    LET w  == FoldLeft(LAMBDA acc, f : AcctWire(r, acc, f), [o |-> out, p |-> port, ok |-> TRUE], r.wire)
        a2 == FoldLeft(LAMBDA a, x : AcctRx(r, a, x), [o |-> w.o, k |-> nk, x |-> nkx, m |-> amb, c |-> ambN], r.rx)
        Gone1(l) == l \in Removed(r) \/ (r.ev = "SendFail" /\ r.done /\ r.l = l)
    IN /\ "C02" \in Check => w.ok
       /\ out' = [l \in Links |-> IF Gone1(l) THEN {} ELSE a2.o[l]]
       /\ nk'  = [l \in Links |-> IF Gone1(l) THEN 0 ELSE a2.k[l]]
       /\ nkx' = [l \in Links |-> IF Gone1(l) THEN 0 ELSE a2.x[l]]
       /\ amb' = [l \in Links |-> a2.m[l] \cap out'[l]]
       /\ ambN' = a2.c
       /\ rex' = IF r.ev = "Client" /\ "kind" \in DOMAIN r /\ r.kind = "rexmit" THEN rex \cup {r.seq} ELSE rex

(* ---------------- attempts to open an uplink's socket, as the loop's binder sees them (C08) ---------------- *)
Binds(r) == IF "binds" \in DOMAIN r THEN r.binds ELSE <<>>
BindStep(acc, b) ==
    IF b.l \notin Links THEN acc
    ELSE [acc EXCEPT !.t = [@ EXCEPT ![b.l] = b.t],
                     \* a retry -- whether the socket could be opened or not -- keeps its distance from the attempt
                     \* before: a second during initial registration, five once the link has been up.  (The stamp is
                     \* taken when the socket is opened, which can be some hundred virtual ms after the clock reading
                     \* of the pass that decided it: the paused clock creeps while the loop waits for a blocking
                     \* address lookup of a link handled earlier in the same pass.  Hence the slack; a retry at every
                     \* pass instead of every fifth is still far outside it.)
                     !.ok = @ /\ (acc.t[b.l] # -1 => b.t - acc.t[b.l] >= (IF everUp[b.l] THEN 5000 - Period ELSE Period \div 2))]
Sockets(r) ==
    LET w == FoldLeft(BindStep, [t |-> lastBind, ok |-> TRUE], Binds(r))
    IN /\ "C08" \in Check => w.ok
       /\ lastBind' = [l \in Links |-> IF l \in Removed(r) THEN -1 ELSE w.t[l]]

(* ---------------- telemetry: what control clients that read are pushed ---------------- *)
Pubs(r) == IF "pub" \in DOMAIN r THEN r.pub ELSE <<>>
Subs1(r) == IF r.ev = "Sub" THEN Append(subs, [sid |-> r.sid, topic |-> r.topic, open |-> TRUE, last |-> -1])
            ELSE IF r.ev = "Unsub" THEN [subs EXCEPT ![r.slot].open = FALSE]
            ELSE subs
MethodOf(topic) == IF topic = "stats" THEN "stats.update" ELSE IF topic = "priority.window" THEN "priority.window.update" ELSE "?"
PubStep(acc, p) ==
    IF p.slot > Len(acc.s) THEN [acc EXCEPT !.ok = FALSE]
    ELSE LET e   == acc.s[p.slot]
             key == IF "k" \in DOMAIN p THEN p.k ELSE p.t
         IN [acc EXCEPT !.s = [@ EXCEPT ![p.slot].last = key],
                        !.ok = @ /\ p.psid = e.sid                  \* tagged with its own subscription id
                                 /\ p.method = MethodOf(e.topic)    \* only events of its topic
                                 /\ p.open                          \* nothing once its unsubscribe has completed
                                 \* publication order, each at most once (a side event carries its publication
                                 \* counter; two stats lines can fall into the same millisecond when a pass was late)
                                 /\ (IF "k" \in DOMAIN p THEN key > e.last ELSE key >= e.last)]
Hub(r) ==
    LET w == FoldLeft(PubStep, [s |-> Subs1(r), ok |-> TRUE], Pubs(r))
        sT == {Pubs(r)[j].t : j \in {q \in 1..Len(Pubs(r)) : Pubs(r)[q].slot = 1 /\ Pubs(r)[q].method = "stats.update"}}
    IN /\ subs' = w.s
       /\ statT' = IF sT = {} THEN statT ELSE CHOOSE t \in sT : \A u \in sT : u <= t
       /\ "C20" \in Check =>
            /\ w.ok
            \* every subscription gets an id of its own
            /\ r.ev = "Sub" => \A j \in 1..Len(subs) : subs[j].sid # r.sid
            /\ r.ev = "Unsub" => r.was
            \* nobody gets a stats line more often than the client that has been subscribed all along
            /\ \A a \in 1..Len(Pubs(r)) : LET p == Pubs(r)[a] IN
                  (p.method = "stats.update" /\ Len(subs) >= 1 /\ subs[1].topic = "stats") =>
                     Cardinality({b \in 1..Len(Pubs(r)) : Pubs(r)[b].slot = p.slot /\ Pubs(r)[b].t = p.t /\ Pubs(r)[b].method = p.method})
                       <= Cardinality({b \in 1..Len(Pubs(r)) : Pubs(r)[b].slot = 1 /\ Pubs(r)[b].t = p.t /\ Pubs(r)[b].method = p.method})
            \* one publication is the same event for everybody
            /\ \A a, b \in 1..Len(Pubs(r)) : (Pubs(r)[a].method = Pubs(r)[b].method /\ Pubs(r)[a].t = Pubs(r)[b].t)
                                                  => Pubs(r)[a].dg = Pubs(r)[b].dg
            \* the loop's own publisher keeps its cadence whatever the other clients do
            /\ (Len(subs) >= 1 /\ subs[1].topic = "stats") => r.t - statT' <= 2 * Period + r.d

(* ---------------- what the stats lines say, against what the outside has seen ---------------- *)
Samples(r) == SelectSeq(Pubs(r), LAMBDA p : "st" \in DOMAIN p)
WireSeqs(r, l) == {r.wire[j].seq : j \in {q \in 1..Len(r.wire) : r.wire[q].l = l /\ r.wire[q].cls = "data" /\ r.wire[q].seq >= 0}}
Steady(r, l) == /\ port[l] # 0 /\ ~Torn(r, l) /\ ~failing[l] /\ ~(r.ev = "SendFail" /\ r.l = l) /\ conn[l] # -1
SumOver(S, f(_)) == FoldLeft(LAMBDA a, j : a + f(j), 0, SetToSeq(S))
SampleOK(r, p) ==
    LET L == p.st.links IN
    /\ \A j \in 1..Len(L) : LET x == L[j]   l == L[j].l IN
        \* C02: a stats line is published before the answers of this step are processed, after some or all of the
        \* step's frames have left
        /\ ("C02" \in Check /\ Steady(r, l) /\ x.connected) =>
               /\ Cardinality(out[l] \ amb[l]) <= x.in_flight
               /\ x.in_flight <= Cardinality(out[l] \cup WireSeqs(r, l))
        \* C05: each reported number the link held was counted once, against it and nobody else
        /\ ("C05" \in Check /\ Steady(r, l) /\ x.connected) => (nk[l] <= x.nak /\ x.nak <= nk[l] + nkx[l])
        \* C07: a link calls itself connected only once REG3 has reached its current socket
        /\ ("C07" \in Check /\ ~Torn(r, l) /\ port[l] # 0) => (x.connected => conn[l] # -1)
        \* C08: ... and timed out only after the configured silence (or a refused send)
        /\ ("C08" \in Check /\ known /\ Steady(r, l) /\ heard[l] # -1) => (x.timed_out => p.t - heard[l] >= timeout)
        \* C12: with the guard switched off (and a routing decision made since) no link is latched, and the
        \* engagement counters stand still
        /\ ("C12" \in Check /\ gOffT # -1) =>
               /\ gSel => ~x.gated
               /\ (pstT > gOffT /\ pgev[l] # -1) => (x.gev = pgev[l] /\ x.pulls = ppulls[l])
        \* C13: a latch holds for at least twice a staleness window of at least a second: no two engagements within
        \* two consecutive sampling periods (same registration, guard on throughout)
        /\ ("C13" \in Check /\ ppgev[l] # -1 /\ p.t - ppstT <= 2 * Period) => x.gev - ppgev[l] <= 1
    \* C05: a report whose number two uplinks held was charged to at most one of them
    /\ ("C05" \in Check /\ \A j \in 1..Len(L) : Steady(r, L[j].l) /\ L[j].connected) =>
          SumOver(1..Len(L), LAMBDA j : L[j].nak - nk[L[j].l]) <= ambN
    \* the snapshot is consistent in itself (not part of a listed property: model drift only)
    /\ "TEL" \in Check =>
          LET act == {j \in 1..Len(L) : L[j].connected /\ ~L[j].timed_out} IN
          /\ p.st.total = Len(L) /\ p.st.active = Cardinality(act)
          /\ p.st.tw = SumOver(act, LAMBDA j : L[j].window) /\ p.st.tif = SumOver(act, LAMBDA j : L[j].in_flight)
          /\ \A j \in 1..Len(L) : L[j].finite /\ L[j].window >= 1000 /\ L[j].window <= 60000 /\ L[j].in_flight >= 0
          /\ p.st.mode = mode
Stats(r) ==
    LET S == Samples(r)
        last == IF S = <<>> THEN [t |-> -1] ELSE S[Len(S)]
        Ent(p, l) == LET J == {j \in 1..Len(p.st.links) : p.st.links[j].l = l} IN
                     IF J = {} THEN [connected |-> FALSE, gev |-> -1, pulls |-> -1] ELSE p.st.links[CHOOSE j \in J : TRUE]
        Broken(l) == (l <= n /\ Torn(r, l)) \/ l \in Removed(r) \/ (r.ev = "SetCfg" /\ "guard" \in DOMAIN r)
    IN /\ \A j \in 1..Len(S) : SampleOK(r, S[j])
       /\ pgev' = [l \in Links |-> IF Broken(l) THEN -1
                                     ELSE IF S = <<>> THEN pgev[l]
                                     ELSE IF Ent(last, l).connected THEN Ent(last, l).gev ELSE -1]
       /\ ppulls' = [l \in Links |-> IF Broken(l) THEN -1
                                       ELSE IF S = <<>> THEN ppulls[l]
                                       ELSE IF Ent(last, l).connected THEN Ent(last, l).pulls ELSE -1]
       /\ ppgev' = [l \in Links |-> IF Broken(l) THEN -1
                                      ELSE IF S = <<>> THEN ppgev[l]
                                      ELSE IF ~Ent(last, l).connected THEN -1
                                      ELSE IF Len(S) >= 2 THEN (IF Ent(S[Len(S) - 1], l).connected THEN Ent(S[Len(S) - 1], l).gev ELSE -1)
                                      ELSE pgev[l]]
       /\ pstT' = IF S = <<>> THEN pstT ELSE last.t
       /\ ppstT' = IF S = <<>> THEN ppstT ELSE IF Len(S) >= 2 THEN S[Len(S) - 1].t ELSE pstT
       /\ gOffT' = IF r.ev = "SetCfg" /\ "guard" \in DOMAIN r THEN (IF r.guard THEN -1 ELSE r.t) ELSE gOffT
       /\ gSel' = IF r.ev = "SetCfg" /\ "guard" \in DOMAIN r THEN FALSE
                   ELSE (gSel \/ (r.ev = "Client" /\ r.sent /\ est))

(* ---- C07 on the wire ---- *)
Reg1s(r)   == SelectSeq(r.wire, LAMBDA f : f.cls = "reg1")
Reg2Ans(r) == \E j \in 1..Len(r.rx) : r.rx[j].cls = "reg2" /\ r.rx[j].l = reg1L
GrpReg2(r) == {r.wire[j].l : j \in {q \in 1..Len(r.wire) : r.wire[q].cls = "reg2" /\ r.wire[q].grp}}
HandshakeChecks(r) ==
    "C07" \in Check =>
        \* a group-creating REG1 leaves only while no uplink is registered ...
        /\ Reg1s(r) # <<>> => \A l \in 1..n : conn[l] = -1 \/ Torn(r, l)
        \* ... carries a full-length id, and never while another uplink's REG1 is still outstanding (unanswered,
        \* less than the 4 s wait old, its socket still in place)
        /\ \A j \in 1..Len(Reg1s(r)) : LET f == Reg1s(r)[j] IN
               /\ f.idlen = 256
               /\ (reg1L # 0 /\ f.l # reg1L /\ ansT = -1 /\ ~Torn(r, reg1L)) => r.t - reg1T >= 4000
        \* the id the receiver answered with is adopted and broadcast on every uplink by the next housekeeping pass
        /\ (ansT # -1 /\ r.t - r.d >= ansT + Period /\ lastApply < ansT /\ ~Applying(r)) => (listed \cap (1..n)) \subseteq (seen2 \cup GrpReg2(r))
HandshakeNext(r) ==
    LET f1 == Reg1s(r) IN
    /\ reg1L' = IF f1 # <<>> THEN f1[Len(f1)].l ELSE reg1L
    /\ reg1T' = IF f1 # <<>> THEN r.t ELSE reg1T
    /\ ansT'  = IF f1 # <<>> THEN -1
                ELSE IF ansT = -1 /\ reg1L # 0 /\ Reg2Ans(r) THEN r.t
                ELSE IF ansT # -1 /\ r.t - r.d >= ansT + Period THEN -1      \* the round is over
                ELSE ansT
    /\ seen2' = IF f1 # <<>> \/ ansT = -1 THEN {} ELSE seen2 \cup GrpReg2(r)

(* ---- C08: after a receiver restart every uplink is registered again in time ---- *)
Amn1(r, l) == IF Got3(r, l) THEN -1
              ELSE IF r.ev = "Amnesia" \/ (r.ev = "SendFail" /\ r.done /\ r.l = l /\ amn[l] = -1) THEN r.t
              ELSE amn[l]
Failing1(r, l) == IF Torn(r, l) THEN FALSE ELSE failing[l] \/ (r.ev = "SendFail" /\ r.done /\ r.l = l)

Upd(f(_, _), old, r) == [l \in Links |-> IF l <= n THEN f(r, l) ELSE old[l]]
(* an uplink removed by a reload starts from nothing if its address is ever listed again *)
Gone(fn, blank, r) == [l \in Links |-> IF l \in Removed(r) THEN blank ELSE fn[l]]

ReloadChecks(r) ==
    "C19" \in Check =>
        \* an uplink that is not listed (any more) puts nothing on the wire
        /\ \A j \in 1..Len(r.wire) : r.wire[j].l \in listed \/ (Applying(r) /\ r.wire[j].l \in pendL)
        \* an uplink whose address remains keeps its socket and its registration through the reload
        /\ Applying(r) => \A l \in Kept(r) : conn[l] # -1 => (~Torn(r, l) /\ Conn1(r, l) # -1)
        \* each address is added once: one socket per uplink at a time
        /\ \A l \in 1..n : Cardinality({Fs(r, l)[j].port : j \in 1..Len(Fs(r, l))}) <= (IF Torn(r, l) THEN 2 ELSE 1)
        \* a refused reload (nothing usable in the file) leaves every uplink untouched
        /\ (refT # -1 /\ r.t - refT <= 2 * Period) => \A l \in listed : conn[l] # -1 => ~Torn(r, l)
ReloadNext(r) ==
    /\ listed' = IF Applying(r) THEN pendL ELSE listed
    /\ pendL'  = IF r.ev = "Reload" /\ ~r.refused THEN {r.listed[j] : j \in 1..Len(r.listed)}
                 ELSE IF Applying(r) THEN {} ELSE pendL
    /\ applyT' = IF r.ev = "Reload" /\ ~r.refused THEN ((r.t \div Period) + 1) * Period
                 ELSE IF Applying(r) THEN -1 ELSE applyT
    /\ refT'   = IF r.ev = "Reload" /\ r.refused THEN r.t ELSE refT
    /\ lastApply' = IF Applying(r) THEN r.t ELSE lastApply

LinksOK(r) ==
    /\ \A l \in 1..n : LinkChecks(r, l) /\ WindowChecks(r, l)
    /\ HandshakeChecks(r) /\ HandshakeNext(r)
    /\ amn' = Gone(Upd(Amn1, amn, r), -1, r) /\ failing' = Gone(Upd(Failing1, failing, r), FALSE, r)
    /\ "C08" \in Check => \A l \in 1..n : Amn1(r, l) # -1 => r.t - Amn1(r, l) <= RejoinMs + timeout + Period + r.d
    /\ kw' = Gone(Upd(Kw1, kw, r), -1, r) /\ kwT' = Gone(Upd(KwT1, kwT, r), -1, r)
    /\ ackT' = IF AckNow(r) THEN r.t ELSE ackT
    /\ mode' = IF r.ev = "SetCfg" /\ "classic" \in DOMAIN r THEN (IF r.classic THEN "classic" ELSE "enhanced") ELSE mode
    /\ modeT' = IF r.ev = "SetCfg" /\ "classic" \in DOMAIN r THEN r.t ELSE modeT
    /\ port' = Gone(Upd(NewP, port, r), 0, r) /\ conn' = Gone(Upd(Conn1, conn, r), -1, r)
    /\ heard' = Gone(Upd(Heard1, heard, r), -1, r)
    /\ kaT' = Gone(Upd(KaT1, kaT, r), -1, r) /\ repaired' = Gone(Upd(Rep1, repaired, r), -1, r)
    /\ downLo' = Gone([l \in Links |-> IF l <= n /\ Torn(r, l) THEN r.t - r.d ELSE downLo[l]], -1, r)
    /\ everUp' = Gone([l \in Links |-> IF l <= n THEN (everUp[l] \/ Conn1(r, l) # -1) ELSE everUp[l]], FALSE, r)
    /\ ReloadChecks(r) /\ ReloadNext(r)
    /\ Acct(r) /\ Hub(r) /\ Stats(r) /\ Sockets(r)
    /\ est' = (est \/ \E j \in 1..Len(r.rx) : r.rx[j].cls = "reg3")

TraceInit ==
    /\ i = 1 /\ n = 1 /\ timeout = 5000 /\ profile = "steady"
    /\ est = FALSE /\ known = FALSE /\ outst = {} /\ hi = [l \in Links |-> 0] /\ recent = {}
    /\ routed = 0 /\ dups = 0 /\ port = [l \in Links |-> 0]
    /\ conn = [l \in Links |-> -1] /\ heard = [l \in Links |-> -1] /\ kaT = [l \in Links |-> -1]
    /\ downLo = [l \in Links |-> -1] /\ everUp = [l \in Links |-> FALSE] /\ repaired = [l \in Links |-> -1]
    /\ mode = "enhanced" /\ modeT = 0 /\ ackT = -1 /\ kw = [l \in Links |-> -1] /\ kwT = [l \in Links |-> -1]
    /\ reg1L = 0 /\ reg1T = -1 /\ ansT = -1 /\ seen2 = {} /\ amn = [l \in Links |-> -1]
    /\ failing = [l \in Links |-> FALSE]
    /\ listed = {} /\ pendL = {} /\ applyT = -1 /\ refT = -1 /\ lastApply = 0
    /\ out = [l \in Links |-> {}]
    /\ lastBind = [l \in Links |-> -1] /\ rex = {} /\ nk = [l \in Links |-> 0] /\ nkx = [l \in Links |-> 0] /\ amb = [l \in Links |-> {}] /\ ambN = 0 /\ subs = <<>> /\ statT = 0
    /\ pgev = [l \in Links |-> -1] /\ ppgev = [l \in Links |-> -1] /\ ppulls = [l \in Links |-> -1]
    /\ pstT = -1 /\ ppstT = -1 /\ gOffT = -1 /\ gSel = FALSE

TraceNext ==
    /\ i <= Len(Rec)
    /\ i' = i + 1
    /\ LET r == Rec[i] IN
       /\ r.alive                                   \* the loop never exits on its own
       /\ IF r.ev = "Init"
          THEN /\ Fresh(r)
               /\ port' = [l \in Links |-> IF \E j \in 1..Len(r.wire) : r.wire[j].l = l
                                           THEN (CHOOSE p \in {r.wire[j].port : j \in {q \in 1..Len(r.wire) : r.wire[q].l = l}} : TRUE)
                                           ELSE 0]
          ELSE /\ UNCHANGED <<n, timeout, profile>>
               /\ Uplink(r) /\ Return(r) /\ LinksOK(r)

TraceSpec == TraceInit /\ [][TraceNext]_vars

TraceAccepted ==
    LET d == TLCGet("stats").diameter IN
    IF d - 1 = Len(Rec) THEN TRUE
    ELSE /\ PrintT(<<"TRACE-REJECTED", d, ToJson(Rec[d])>>)
         /\ FALSE
=============================================================================
