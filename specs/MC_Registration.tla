--------------------------- MODULE MC_Registration ---------------------------
EXTENDS Registration, TLC, Json, Sequences

CONSTANTS Steps, Export

(* run_sender_with_config calls start_probing before anything else can happen *)
MCNext ==
  IF probing = "NotStarted" THEN StartProbing ELSE
    \/ \E l \in Links : RecvNgp(l)
    \/ \E l \in Links, f \in BOOLEAN, i \in Ids : RecvReg2(l, f, i)
    \/ \E l \in Links : RecvReg3(l)
    \/ \E l \in Links : RecvRegErr(l)
    \/ \E l \in Links : TimedOutResend(l)
    \/ Housekeeping
    \/ \E l \in Links : LinkDown(l)
    \/ \E d \in Steps : Advance(d)

MCSpec == Init /\ [][MCNext]_vars

(* history variables add no behaviour *)
View == <<mvars, connected>>

State == [id |-> id, pending |-> pending, pto |-> pto, active |-> active, hasConn |-> hasConn,
          bcast |-> bcast, target |-> target, ns |-> ns, probing |-> probing, presp |-> presp, pel |-> pel,
          connected |-> connected]

SetToSeq(S) == LET RECURSIVE F(_) F(T) == IF T = {} THEN <<>> ELSE
                      LET x == CHOOSE y \in T : \A z \in T : y.l <= z.l IN <<x>> \o F(T \ {x})
               IN F(S)

(* one-step edges; the argument of the action is recoverable from pre/post, but print it for the replay:
   the replay is told the action by name and re-derives the argument from `arg` *)
Emit == (Export /\ act' \notin {"Advance", "LinkDown"}) =>
    PrintT(<<"EDGE", ToJson(<<[
        e |-> [ev |-> act', pre |-> State, l |-> arg'[1], full |-> arg'[2], tok |-> arg'[3]],
        o |-> [id |-> id', pending |-> pending', pto |-> pto', hasConn |-> hasConn', bcast |-> bcast',
               target |-> target', ns |-> ns', probing |-> probing', presp |-> presp',
               connected |-> connected', emit |-> SetToSeq(emit')]]>>)>>)
=============================================================================
