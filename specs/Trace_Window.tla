----------------------------- MODULE Trace_Window -----------------------------
(* Trace validation for C06: recorded timed histories of one real link.     *)
EXTENDS Window, Sequences, Json, IOUtils, TLC

Rec == ndJsonDeserialize(IOEnv.TRACE)

VARIABLE i

ObsOK(r) == /\ w' = r.w /\ fast' = r.fast /\ lastNak' = r.lastNak /\ lastInc' = r.lastInc
            /\ conn' = r.conn /\ heard' = r.heard

TraceInit == /\ i = 1 /\ w = WDef /\ fast = FALSE /\ lastNak = 0 /\ lastInc = 0 /\ conn = FALSE
             /\ heard = FALSE /\ now = 0 /\ classic = FALSE /\ act = "Init" /\ arg = 0

NewRun(r) ==    \* a fresh link exactly as connect_uplink creates it
    /\ w' = WDef /\ fast' = FALSE /\ lastNak' = 0 /\ lastInc' = 0 /\ conn' = FALSE /\ heard' = FALSE
    /\ now' = r.now /\ classic' = r.classic /\ act' = "Init" /\ arg' = 0

TraceNext ==
    /\ i <= Len(Rec)
    /\ i' = i + 1
    /\ LET r == Rec[i] IN
       \/ r.ev = "Init" /\ NewRun(r) /\ ObsOK(r)
       \/ r.ev = "Advance" /\ Advance(r.d)
       \/ r.ev = "RttSample" /\ UNCHANGED vars
       \/ r.ev = "SetMode" /\ SetMode(r.c)
       \/ r.ev = "Nak" /\ Nak /\ ObsOK(r)
       \/ r.ev = "EarnedAck" /\ EarnedAck(r.n) /\ ObsOK(r)
       \/ r.ev = "GlobalAck" /\ GlobalAck /\ ObsOK(r)
       \/ r.ev = "RecoveryTick" /\ RecoveryTick(r.v) /\ ObsOK(r)
       \/ r.ev = "SoftReset" /\ SoftReset /\ ObsOK(r)
       \/ r.ev = "FullReset" /\ FullReset /\ ObsOK(r)
       \/ r.ev = "Reg3" /\ Reg3 /\ ObsOK(r)

TraceSpec == TraceInit /\ [][TraceNext]_<<vars, i>>

TraceAccepted ==
    LET d == TLCGet("stats").diameter IN
    IF d - 1 = Len(Rec) THEN TRUE
    ELSE /\ PrintT(<<"TRACE-REJECTED", d, ToJson(Rec[d])>>)
         /\ FALSE
=============================================================================
