----------------------------- MODULE Trace_Window -----------------------------
(* Trace validation for C06: recorded timed histories of one real link.     *)
EXTENDS Window, Sequences, Json, IOUtils, TLC

Rec == ndJsonDeserialize(IOEnv.TRACE)

CONSTANT Exact   \* FALSE: property level (the post-state is whatever the code reported; only the C06
                 \*        statements are checked).  TRUE: additionally every step must be exactly the
                 \*        code-shaped action of Window (a rejection there is MODEL-DRIFT, not a violation).

VARIABLE i

ObsOK(r) == /\ w' = r.w /\ fast' = r.fast /\ lastNak' = r.lastNak /\ lastInc' = r.lastInc
            /\ conn' = r.conn /\ heard' = r.heard

TraceInit == /\ i = 1 /\ w = WDef /\ fast = FALSE /\ lastNak = 0 /\ lastInc = 0 /\ conn = FALSE
             /\ heard = FALSE /\ now = 0 /\ classic = FALSE /\ act = "Init" /\ arg = 0

NewRun(r) ==    \* a fresh link exactly as connect_uplink creates it
    /\ w' = WDef /\ fast' = FALSE /\ lastNak' = 0 /\ lastInc' = 0 /\ conn' = FALSE /\ heard' = FALSE
    /\ now' = r.now /\ classic' = r.classic /\ act' = "Init" /\ arg' = 0

Observe(r, name, a) ==
    /\ w' = r.w /\ fast' = r.fast /\ lastNak' = r.lastNak /\ lastInc' = r.lastInc
    /\ conn' = r.conn /\ heard' = r.heard /\ UNCHANGED <<now, classic>>
    /\ act' = name /\ arg' = a

Step(r, name, a, A) == IF Exact THEN A /\ ObsOK(r) ELSE Observe(r, name, a)

TraceNext ==
    /\ i <= Len(Rec)
    /\ i' = i + 1
    /\ LET r == Rec[i] IN
       \/ r.ev = "Init" /\ NewRun(r) /\ ObsOK(r)
       \/ r.ev = "Advance" /\ Advance(r.d)
       \/ r.ev = "RttSample" /\ UNCHANGED vars
       \/ r.ev = "SetMode" /\ SetMode(r.c)
       \/ r.ev = "Nak" /\ Step(r, "Nak", 0, Nak)
       \/ r.ev = "EarnedAck" /\ Step(r, "EarnedAck", r.n, EarnedAck(r.n))
       \/ r.ev = "GlobalAck" /\ Step(r, "GlobalAck", 0, GlobalAck)
       \/ r.ev = "RecoveryTick" /\ Step(r, "RecoveryTick", 0, RecoveryTick(r.v))
       \/ r.ev = "SoftReset" /\ Step(r, "SoftReset", 0, SoftReset)
       \/ r.ev = "FullReset" /\ Step(r, "FullReset", 0, FullReset)
       \/ r.ev = "Reg3" /\ Step(r, "Reg3", 0, Reg3)

TraceSpec == TraceInit /\ [][TraceNext]_<<vars, i>>

TraceAccepted ==
    LET d == TLCGet("stats").diameter IN
    IF d - 1 = Len(Rec) THEN TRUE
    ELSE /\ PrintT(<<"TRACE-REJECTED", d, ToJson(Rec[d])>>)
         /\ FALSE
=============================================================================
