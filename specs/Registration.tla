---------------------------- MODULE Registration ----------------------------
(***************************************************************************)
(* C07 -- the two-phase SRTLA registration handshake as the manager runs   *)
(* it (crates/srtla-core/src/registration/{mod,probing}.rs) together with  *)
(* the two shell effects that belong to it (uplink_recv.rs: REG3 ->        *)
(* connected, REG_ERR -> disconnected).                                    *)
(*                                                                         *)
(* One action per entry point of the code.  Deadlines are relative         *)
(* countdowns in ms (-1 = the stamp is 0 / unarmed, 0 = reached), so the   *)
(* complete state graph is finite; Advance(d) is the clock.                *)
(***************************************************************************)
EXTENDS Integers, FiniteSets

CONSTANTS N,            \* number of uplinks (ids 1..N, index order matters)
          Ids,          \* id tokens (the 256-byte ids, abstracted)
          Id0,          \* the id the manager starts with
          Reg2Timeout,  \* 4000
          Reg3Timeout,  \* 4000
          ProbeTimeout, \* 2000
          NgpRetry,     \* 1000 (retry cadence set by build_reg1_for)
          PelCap        \* saturation of the probe clock

Links == 1..N
None  == 0

VARIABLES
    id,        \* srtla_id
    pending,   \* pending_reg2_idx
    pto,       \* pending_timeout_at_ms - now   (-1: stamp is 0; 0: reached or passed)
    active,    \* active_connections (as of the last housekeeping)
    hasConn,   \* has_connected
    bcast,     \* broadcast_reg2_pending
    target,    \* reg1_target_idx
    ns,        \* reg1_next_send_at_ms - now, floored at 0 (0: due)
    probing,   \* "NotStarted" | "Waiting" | "Complete"
    presp,     \* probe RTT per link (-1: no response yet)
    pel,       \* time since the probes were sent
    connected, \* per link (shell-owned flag)
    \* ---- history (the property)
    reg1Out,   \* links with a REG1 sent and not yet answered / cancelled / abandoned
    accepted,  \* a REG2 was accepted since the last broadcast round
    emit,      \* packets emitted by the last action: set of [t, l, id]
    act,       \* name of the last action
    arg        \* and its argument <<link, full-length?, id token>>

mvars == <<id, pending, pto, active, hasConn, bcast, target, ns, probing, presp, pel>>
vars  == <<mvars, connected, reg1Out, accepted, emit, act, arg>>

Max(a, b) == IF a > b THEN a ELSE b
Min(a, b) == IF a < b THEN a ELSE b

Pkt(t, l, i) == [t |-> t, l |-> l, id |-> i]

Init ==
    /\ id = Id0 /\ pending = None /\ pto = -1 /\ active = 0 /\ hasConn = FALSE /\ bcast = FALSE
    /\ target = None /\ ns = 0 /\ probing = "NotStarted"
    /\ presp = [l \in Links |-> -1] /\ pel = 0
    /\ connected = [l \in Links |-> FALSE]
    /\ reg1Out = {} /\ accepted = FALSE /\ emit = {} /\ act = "Init" /\ arg = <<0, FALSE, "">>

(* start_probing: a REG2 probe (with the probe id) on every link *)
StartProbing ==
    /\ probing = "NotStarted" /\ active = 0
    /\ probing' = "Waiting" /\ presp' = [l \in Links |-> -1] /\ pel' = 0 /\ pto' = ProbeTimeout
    /\ emit' = {Pkt("PROBE", l, "probe") : l \in Links}
    /\ act' = "StartProbing" /\ arg' = <<0, FALSE, "">>
    /\ UNCHANGED <<id, pending, active, hasConn, bcast, target, ns, connected, reg1Out, accepted>>

(* build_reg1_for(l): the REG1 and the state it leaves *)
BuildReg1(l) ==
    /\ pending' = l /\ target' = l /\ pto' = Reg2Timeout /\ ns' = NgpRetry
    /\ emit' = {Pkt("REG1", l, id)}
    /\ reg1Out' = reg1Out \cup {l}

(* REG_NGP on link l: handle_reg_ngp, then reg1_if_ngp_immediate *)
RecvNgp(l) ==
    /\ act' = "RecvNgp" /\ arg' = <<l, FALSE, "">>
    /\ UNCHANGED <<id, active, hasConn, bcast, connected, accepted>>
    /\ IF probing = "Waiting"
       THEN \* a probe response; the immediate-REG1 test still runs afterwards on the unchanged state
            /\ presp' = [presp EXCEPT ![l] = IF @ = -1 THEN pel ELSE @]
            /\ UNCHANGED <<probing, pel>>
            /\ IF active = 0 /\ pending = None /\ target = l /\ ns = 0
               THEN BuildReg1(l)
               ELSE UNCHANGED <<pending, target, pto, ns, reg1Out>> /\ emit' = {}
       ELSE /\ UNCHANGED <<probing, presp, pel>>
            /\ IF active = 0 /\ pending = None
               THEN BuildReg1(l)      \* accepted as target with next-send = now, hence immediately due
               ELSE UNCHANGED <<pending, target, pto, ns, reg1Out>> /\ emit' = {}

(* REG2 on link l carrying id token i; full = at least 2 + 256 bytes *)
RecvReg2(l, full, i) ==
    /\ act' = "RecvReg2" /\ arg' = <<l, full, i>>
    /\ emit' = {}
    /\ UNCHANGED <<active, hasConn, probing, presp, pel, connected>>
    /\ IF full /\ pending = l
       THEN /\ id' = i /\ pending' = None /\ pto' = Reg3Timeout /\ bcast' = TRUE
            /\ target' = None /\ ns' = 0
            /\ reg1Out' = {} /\ accepted' = TRUE
       ELSE UNCHANGED <<id, pending, pto, bcast, target, ns, reg1Out, accepted>>

(* REG3 on link l: the manager notes has_connected, the shell connects the link *)
RecvReg3(l) ==
    /\ act' = "RecvReg3" /\ emit' = {} /\ arg' = <<l, FALSE, "">>
    /\ hasConn' = TRUE
    /\ connected' = [connected EXCEPT ![l] = TRUE]
    /\ UNCHANGED <<id, pending, pto, active, bcast, target, ns, probing, presp, pel, reg1Out, accepted>>

(* REG_ERR on link l (any link): cancels the pending attempt; the shell disconnects the link *)
RecvRegErr(l) ==
    /\ act' = "RecvRegErr" /\ emit' = {} /\ arg' = <<l, FALSE, "">>
    /\ pending' = None /\ pto' = -1 /\ target' = None /\ ns' = Reg2Timeout
    /\ connected' = [connected EXCEPT ![l] = FALSE]
    /\ reg1Out' = {}
    /\ UNCHANGED <<id, active, hasConn, bcast, probing, presp, pel, accepted>>

(* housekeeping's re-send for a timed-out, reconnect-eligible link l (housekeeping.rs:83-110) *)
TimedOutResend(l) ==
    /\ act' = "TimedOutResend" /\ arg' = <<l, FALSE, "">>
    /\ ~connected[l]
    /\ UNCHANGED <<id, active, hasConn, bcast, probing, presp, pel, connected, accepted>>
    /\ IF pending = l THEN BuildReg1(l)
       ELSE IF pending # None THEN UNCHANGED <<pending, target, pto, ns, reg1Out>> /\ emit' = {}
       ELSE UNCHANGED <<pending, target, pto, ns, reg1Out>> /\ emit' = {Pkt("REG2", l, id)}

(* the registration part of one housekeeping pass *)
Responded == {l \in Links : presp[l] # -1}
BestProbe ==
    IF Responded = {} THEN 1
    ELSE CHOOSE l \in Responded : /\ \A m \in Responded : presp[l] <= presp[m]
                                  /\ \A m \in Responded : (m < l) => presp[m] > presp[l]

Housekeeping ==
    LET \* 1. clear_pending_if_timed_out
        expired == pending # None /\ pto = 0
        p1   == IF expired THEN None ELSE pending
        pto1 == IF expired THEN -1 ELSE pto
        t1   == IF expired THEN None ELSE target
        ns1  == IF expired THEN 0 ELSE ns
        \* 2. check_probing_complete (a zero stamp counts as reached)
        pdone == probing = "Waiting" /\ (Responded = Links \/ pto1 <= 0)
        t2   == IF pdone THEN BestProbe ELSE t1
        ns2  == IF pdone THEN 0 ELSE ns1
        pto2 == IF pdone THEN -1 ELSE pto1
        \* 4. update_active_connections
        act1 == Cardinality({l \in Links : connected[l]})
        \* 5. reg_driver_pending_sends
        drv  == act1 = 0 /\ t2 # None /\ p1 = None /\ ns2 = 0
    IN
    /\ act' = "Housekeeping" /\ arg' = <<0, FALSE, "">>
    /\ active' = act1
    /\ probing' = IF pdone THEN "Complete" ELSE probing
    /\ target' = t2
    /\ pending' = IF drv THEN t2 ELSE p1
    /\ pto' = IF drv THEN Reg2Timeout ELSE pto2
    /\ ns' = IF drv THEN Reg2Timeout ELSE ns2
    /\ bcast' = FALSE
    /\ emit' = (IF drv THEN {Pkt("REG1", t2, id)} ELSE {})
               \cup (IF bcast THEN {Pkt("REG2", l, id) : l \in Links} ELSE {})
    /\ reg1Out' = (IF expired THEN {} ELSE reg1Out) \cup (IF drv THEN {t2} ELSE {})
    /\ accepted' = IF bcast THEN FALSE ELSE accepted
    /\ UNCHANGED <<id, hasConn, presp, pel, connected>>

(* a link is torn down (timeout / send failure): the shell clears its connected flag *)
LinkDown(l) ==
    /\ act' = "LinkDown" /\ emit' = {} /\ arg' = <<l, FALSE, "">>
    /\ connected[l] /\ connected' = [connected EXCEPT ![l] = FALSE]
    /\ UNCHANGED <<mvars, reg1Out, accepted>>

Advance(d) ==
    /\ d > 0 /\ act' = "Advance" /\ emit' = {} /\ arg' = <<d, FALSE, "">>
    /\ pto' = IF pto = -1 THEN -1 ELSE Max(pto - d, 0)
    /\ ns' = Max(ns - d, 0)
    /\ pel' = Min(pel + d, PelCap)
    /\ UNCHANGED <<id, pending, active, hasConn, bcast, target, probing, presp, connected, reg1Out, accepted>>

(* =========================== the property (C07) =========================== *)

(* never a group-creating REG1 outstanding on two uplinks at once *)
AtMostOneReg1Out == Cardinality(reg1Out) <= 1

(* the driver emits REG1 only while no uplink is registered *)
DriverReg1OnlyUnregistered ==
    (act = "Housekeeping" /\ \E p \in emit : p.t = "REG1") => \A l \in Links : ~connected[l]

(* a REG2 is accepted only from the link the REG1 went to, and only full-length; then the id is adopted *)
IdOnlyByAcceptedReg2 ==
    [][id' # id => (act' = "Init" \/ (act' = "RecvReg2" /\ pending # None /\ pending' = None))]_vars
    \* ("Init" only occurs in trace validation, where it starts a fresh run)

(* exactly one broadcast round per acceptance: a round goes to all links, carries the adopted id, and
   happens iff an acceptance is waiting for it *)
BroadcastRule ==
    /\ bcast = accepted
    /\ act = "Housekeeping" =>
          LET R == {p \in emit : p.t = "REG2"} IN R = {} \/ R = {Pkt("REG2", l, id) : l \in Links}

(* every REG1 / registration REG2 carries the currently adopted id *)
EmitCarriesId == \A p \in emit : p.t \in {"REG1", "REG2"} => p.id = id

(* connected only by a REG3 on that link *)
ConnectedOnlyByReg3 ==
    [][\A l \in Links : (~connected[l] /\ connected'[l]) => act' = "RecvReg3"]_vars

(* REG_ERR cancels the pending attempt *)
RegErrCancels == act = "RecvRegErr" => (pending = None /\ reg1Out = {})

(* an unanswered REG1 is abandoned once its 4 s have passed: after a housekeeping pass nothing is
   pending past its deadline, so a new attempt can start *)
AbandonedAfterTimeout == act = "Housekeeping" => (pending # None => pto > 0)
ThenNgpAcceptedAgain  ==
    [][(act' = "RecvNgp" /\ probing # "Waiting" /\ active = 0 /\ pending = None)
          => \E l \in Links : pending' = l /\ Pkt("REG1", l, id) \in emit']_vars

(* what is pending is what is outstanding *)
OutIsPending == reg1Out \subseteq (IF pending = None THEN {} ELSE {pending})
=============================================================================
