SPECIFICATION MCSpec
CONSTANTS
  Addrs = {"a", "b", "x"}
  Unbindable = {"x"}
  Seqs = {1}
  StMax = 1
  StartLists <- StartsAB
  FileSet <- GraphFiles3
  OverFiles <- OverSome
  MaxHist = 5
  Quiet = TRUE
  Export = TRUE
VIEW View
ACTION_CONSTRAINT Emit
INVARIANTS IoConsistent OwnersLive IdsDistinct SelInRange
PROPERTIES ParsedExactly RefusedUntouched SighupTouchesNothing RefusedKeepsQueue SurvivorsKept RemovedExactly IoFollows TrackerPurged AddedOnce SelectionForgotten OrderKept
CHECK_DEADLOCK FALSE
