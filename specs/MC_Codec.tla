------------------------------ MODULE MC_Codec ------------------------------
(***************************************************************************)
(* C15, bounded exhaustive part.  The "state graph" is the input space:    *)
(* every enumerated byte string / builder argument is an initial state,    *)
(* the C15 clauses are invariants evaluated on the reference for each of   *)
(* them, and (Export) every input is printed with the reference outputs    *)
(* for replay through the real decoders / builders of crate srtla-protocol.*)
(* Families (cfg: INIT <family>):                                           *)
(*   Types*    all 65536 two-byte type prefixes x body templates           *)
(*   Alpha*    all strings of length <= 4 over the boundary alphabet, and  *)
(*             typed prefixes x all short suffixes (guards at 4 / 8 bytes) *)
(*   Lengths   every truncation 0..70 (and 254..262) of a valid frame of   *)
(*             every type                                                  *)
(*   Nak*      NAK loss lists: all words from the boundary word set        *)
(*             (0x80000000 / 0xFFFFFFFF, 16-bit carries, 998..1000 around  *)
(*             the cap), with trailing partial words                       *)
(*   Frames    SRTLA ACK lists, SRT ACKs, keepalives (magic / version /    *)
(*             length variants), data packets (flag bits)                  *)
(*   Builds    builder arguments over boundary values                      *)
(* Each family is an INIT predicate (existential form: TLC enumerates the  *)
(* parameters instead of building and sorting one huge set of records).    *)
(***************************************************************************)
EXTENDS Codec, TLC, Json, FiniteSets

CONSTANTS Export

VARIABLE x
vars == <<x>>

(* ---- uniform input record ---- *)
NoTs   == <<0, 0, 0, 0>>
Z      == <<0, 0>>
NoInfo == [conn_id |-> Z, window |-> Z, in_flight |-> Z, rtt |-> Z, nak |-> Z, bitrate |-> Z]
Dec(b)                  == [ev |-> "Dec", what |-> "", b |-> b, ws |-> <<>>, ts |-> NoTs, info |-> NoInfo]
Bld(what, b, ws, ts, i) == [ev |-> "Build", what |-> what, b |-> b, ws |-> ws, ts |-> ts, info |-> i]

(* ---- boundary values ---- *)
BWq == { <<0, 0>>, <<0, 1>>, <<0, 999>>, <<0, 1000>>, <<0, 65535>>, <<1, 1>>, <<32767, 65535>>,
         <<32768, 0>>, <<32768, 1>>, <<32768, 65535>>, <<65535, 65535>> }
BWt == BWq \cup { <<0, 998>>, <<1, 0>>, <<32767, 65534>>, <<32768, 999>>, <<65535, 65534>> }

Rep(pat, n) == [k \in 1..(n * Len(pat)) |-> pat[((k - 1) % Len(pat)) + 1]]
Take(s, n)  == SubSeq(s, 1, IF n < Len(s) THEN n ELSE Len(s))
Tuples(S, k) == [1..k -> S]

(* ---- Types ---- *)
Tpl20  == <<0, 0>> \o Words(<< <<32768, 1>>, <<0, 3>>, <<0, 5>>, <<1, 7>> >>)
Tpl38  == <<1, 2, 4, 5, 6, 7, 8, 9>> \o Bytes16(Magic) \o Bytes16(Version)
          \o Words(<< <<0, 1>>, <<65535, 65535>>, <<32768, 0>>, <<0, 120>>, <<0, 5>>, <<38, 9632>> >>)
Tpl258 == [k \in 1..256 |-> (k * 7) % 256]
AllTypes  == 0..65535
NearTypes == {h * 256 + l : h \in 0..255, l \in {0, 1, 2}} \cup (37120..37887)   \* xx00..xx02, 0x9100..0x93FF
TypesQuick == \/ \E p \in AllTypes, t \in {<<>>, Tpl20, Tpl38} : x = Dec(Bytes16(p) \o t)
              \/ \E p \in NearTypes : x = Dec(Bytes16(p) \o Tpl258)
TypesFull  == \E p \in AllTypes, t \in {<<>>, <<0>>, Tpl20, Tpl38, Tpl258, Tpl258 \o <<0>>} : x = Dec(Bytes16(p) \o t)

(* ---- Alpha ---- *)
Alphabet == {0, 1, 2, 3, 4, 127, 128, 144, 145, 146, 255}
Typed    == {0, 32767, 32768, TSrtAck, TSrtNak, TKeepalive, TAck, TReg1, TReg2, TReg3}
Suffix   == {0, 4, 128, 255}
AlphaQuick == \/ \E j \in 0..4 : \E s \in Tuples(Alphabet, j) : x = Dec(s)
              \/ \E t \in Typed, j \in 3..5 : \E s \in Tuples(Suffix, j) : x = Dec(Bytes16(t) \o s)
AlphaFull  == AlphaQuick \/ \E t \in Typed, s \in Tuples(Suffix, 6) : x = Dec(Bytes16(t) \o s)

(* ---- Lengths: truncations of valid frames ---- *)
Pats == { Bytes32(<<0, 5>>), Bytes32(<<32768, 2>>) \o Bytes32(<<0, 4>>), Bytes32(<<32767, 65535>>),
          <<255, 255, 255, 255>> }
LenSet == (0..70) \cup (254..262)
Lengths == \E t \in Typed, p \in Pats, n \in LenSet : x = Dec(Take(Bytes16(t) \o <<0, 0>> \o Rep(p, 66), n))

(* ---- Nak ---- *)
Trail == {<<>>, <<128>>, <<128, 0, 0>>}
NakSet(W, k, T) == \E ws \in Tuples(W, k), tr \in T : x = Dec(SrtNakFrame(ws) \o tr)
NakQuick == (\E k \in 0..3 : NakSet(BWq, k, Trail)) \/ NakSet(BWq, 4, {<<>>})
NakFull  == (\E k \in 0..3 : NakSet(BWt, k, Trail)) \/ NakSet(BWt, 4, {<<>>}) \/ NakSet(BWq, 5, {<<>>})
(* many singles + ranges: the cap against a long list, lists longer than the SmallVec inline size *)
NakLong == \E a \in {<<0, 7>>}, n \in {0, 3, 4, 5, 60}, c \in {<<32768, 0>>, <<32768, 65000>>},
              d \in {<<0, 930>>, <<0, 996>>, <<1, 400>>, <<65535, 65535>>}, e \in {<<0, 9>>}, m \in {0, 1, 7} :
              x = Dec(SrtNakFrame(Rep(<<a>>, n) \o <<c, d>> \o Rep(<<e>>, m) \o <<c, d>>))

(* ---- Frames ---- *)
Trail2 == {<<>>, <<9>>, <<9, 9>>, <<9, 9, 9>>, <<9, 9, 9, 9>>}
AckFrames == \/ \E j \in 0..3 : \E ws \in Tuples(BWq, j), tr \in Trail2 : x = Dec(BuildSrtlaAck(ws) \o tr)
             \/ \E j \in 0..2 : \E ws \in Tuples(BWq, j) : x = Dec(Bytes16(TAck) \o <<255, 255>> \o Words(ws))
             \/ \E n \in {10, 15, 16, 17, 64} : x = Dec(BuildSrtlaAck(Rep(<< <<n, n>> >>, n)))
SrtAckFrames == \E p \in {0, 255}, w \in BWt, tr \in {<<>>, <<9>>, Rep(<<7>>, 24)} :
                    x = Dec(Bytes16(TSrtAck) \o Rep(<<p>>, 14) \o Bytes32(w) \o tr)
TsSet == {<<0, 0, 0, 0>>, <<0, 0, 1, 57920>>, <<65535, 65535, 65535, 65535>>, <<32768, 0, 0, 1>>}
Info(a, b, c, d, e, f) == [conn_id |-> a, window |-> b, in_flight |-> c, rtt |-> d, nak |-> e, bitrate |-> f]
InfoBase == {Info(<<0, 0>>, <<0, 0>>, <<0, 0>>, <<0, 0>>, <<0, 0>>, <<0, 0>>),
             Info(<<1, 2>>, <<3, 4>>, <<5, 6>>, <<7, 8>>, <<9, 10>>, <<11, 12>>)}
InfoSet(W) == UNION {{[i EXCEPT !.conn_id = w], [i EXCEPT !.window = w], [i EXCEPT !.in_flight = w],
                      [i EXCEPT !.rtt = w], [i EXCEPT !.nak = w], [i EXCEPT !.bitrate = w]} : i \in InfoBase, w \in W}
KaRaw(t, ts, m, v, i) == Bytes16(t) \o Bytes16(ts[1]) \o Bytes16(ts[2]) \o Bytes16(ts[3]) \o Bytes16(ts[4])
                         \o Bytes16(m) \o Bytes16(v) \o Bytes32(i.conn_id) \o Bytes32(i.window)
                         \o Bytes32(i.in_flight) \o Bytes32(i.rtt) \o Bytes32(i.nak) \o Bytes32(i.bitrate)
KaFrames == \/ \E t \in {TKeepalive, TKeepalive + 1, TAck}, ts \in TsSet, m \in {Magic, Magic - 1, 8128, 0},
                  v \in {1, 0, 256, 2}, n \in {9, 10, 11, 13, 14, 37, 38, 39, 40} :
                  x = Dec(Take(KaRaw(t, ts, m, v, Info(<<1, 2>>, <<65535, 65534>>, <<32768, 0>>, <<7, 8>>, <<9, 10>>,
                                                      <<11, 12>>)) \o <<7, 7>>, n))
            \/ \E i \in InfoSet(BWq) : x = Dec(KaRaw(TKeepalive, <<0, 0, 1, 2>>, Magic, Version, i))
DataFrames == \E s \in BWt, f \in {0, 4, 251, 255, 8, 2, 6, 132}, n \in {4, 5, 7, 8, 9, 16} :
                  x = Dec(Take(Bytes32(s) \o <<f, 0, 0, 1>> \o Rep(<<f>>, 8), n))
Frames == AckFrames \/ SrtAckFrames \/ KaFrames \/ DataFrames

(* ---- Builds ---- *)
Ids == {[k \in 1..256 |-> c] : c \in {0, 255, 146}}
       \cup {[k \in 1..256 |-> k - 1], [k \in 1..256 |-> 256 - k], [k \in 1..256 |-> (k * 37) % 256]}
       \cup {[k \in 1..256 |-> IF k = 1 THEN 255 ELSE 0], [k \in 1..256 |-> IF k = 256 THEN 255 ELSE 0],
             [k \in 1..256 |-> IF k = 2 THEN 1 ELSE 146]}
Limb == {0, 1, 32768, 65535}
Builds == \/ \E id \in Ids, w \in {"reg1", "reg2"} : x = Bld(w, id, <<>>, NoTs, NoInfo)
          \/ x = Bld("reg3", <<>>, <<>>, NoTs, NoInfo)
          \/ \E j \in 0..3 : \E ws \in Tuples(BWq, j) : x = Bld("ack", <<>>, ws, NoTs, NoInfo)
          \/ \E n \in {10, 15, 16, 17, 64, 374} :
                x = Bld("ack", <<>>, [k \in 1..n |-> <<(k * 257) % 65536, 65535 - k>>], NoTs, NoInfo)
          \/ \E a \in Limb, b \in Limb, c \in Limb, d \in Limb : x = Bld("ka", <<>>, <<>>, <<a, b, c, d>>, NoInfo)
          \/ \E ts \in TsSet, i \in InfoSet(BWt) : x = Bld("kaext", <<>>, <<>>, ts, i)
          \/ \E w \in BWt : x = Bld("srtack", <<>>, <<w>>, NoTs, NoInfo)
          \/ \E w \in {v \in BWt : v[1] < Top}, f \in {0, 1} : x = Bld("data", <<f>>, <<w>>, NoTs, NoInfo)

(* ---- the state space ---- *)
Next == UNCHANGED vars

IsDec == x.ev = "Dec"

(* ---- invariants: the C15 clauses on the reference ---- *)
C15_NakBounded == IsDec => NakBounded(x.b)
C15_AckBounded == IsDec => AckBounded(x.b)
(* a frame has one type: at most one of the typed decoders yields something *)
One(v) == IF v # <<>> THEN 1 ELSE 0
C15_OneType == IsDec => One(ParseSrtAck(x.b)) + One(ParseSrtlaAck(x.b)) + One(ParseSrtNakSegs(x.b).segs)
                        + One(KeepaliveTs(x.b)) <= 1
C15_DataVsControl == IsDec => /\ (SrtSeq(x.b) # <<>> => ParseSrtAck(x.b) = <<>> /\ KeepaliveTs(x.b) = <<>>)
                              /\ (IsRetransmit(x.b) => SrtSeq(x.b) # <<>>)
                              /\ (KeepaliveInfo(x.b) # <<>> => KeepaliveTs(x.b) # <<>>)
(* the segment form and the flat form agree on length (and content where it is cheap) *)
C15_SegsAgree == IsDec => \E r \in {ParseSrtNakSegs(x.b)} :
                          r.have <= 64 => \E flat \in {Flatten(r.segs)} :
                                             /\ Len(flat) = r.have
                                             /\ \A k \in 1..r.have : ElemAt(r.segs, k) = flat[k]
C15_Layout == ~IsDec =>
    CASE x.what \in {"reg1", "reg2"} -> LayoutReg(x.b)
      [] x.what = "reg3" -> Len(BuildReg3) = 2 /\ IsReg3(BuildReg3)
      [] x.what = "ack"  -> LayoutAck(x.ws)
      [] x.what = "ka"   -> Len(BuildKeepalive(x.ts)) = 10
      [] x.what = "kaext" -> Len(BuildKeepaliveExt(x.info, x.ts)) = 38
      [] OTHER -> TRUE
C15_RoundTrip == ~IsDec =>
    CASE x.what \in {"reg1", "reg2"} -> RoundTripReg(x.b)
      [] x.what = "ack"   -> RoundTripAck(x.ws)
      [] x.what = "ka"    -> RoundTripKa(x.ts)
      [] x.what = "kaext" -> RoundTripKaExt(x.info, x.ts)
      [] x.what = "srtack" -> RoundTripSrtAck(x.ws[1])
      [] x.what = "data"  -> RoundTripData(x.ws[1], x.b[1] = 1)
      [] OTHER -> TRUE

(* the closed form of the range expansion (SpanUpTo / Add32) against the literal element-by-element loop
   `while seq <= end && len < Cap { push(seq); seq = seq + 1 mod 2^32 }`; a masked start is below 2^31, so
   the loop cannot wrap before the cap stops it.  Evaluated once (INIT Trivial), at the real and at a small cap. *)
LoopW == BWt \cup {<<0, 5>>, <<0, 6>>, <<0, 7>>, <<0, 65530>>, <<1, 3>>, <<32767, 65530>>, <<65535, 65530>>}
EndW  == LoopW
ExpandAgree == \A id \in {w \in LoopW : w[1] < Top}, end \in EndW, have \in {0, 1, Cap - 3, Cap - 2, Cap - 1, Cap, Cap + 3} :
                   ClosedExpand(id, end, have) = LoopExpand(id, end, have)
Trivial == x = Dec(<<>>)

(* ---- export ---- *)
SegJ(segs) == [k \in 1..Len(segs) |-> <<segs[k].s[1], segs[k].s[2], segs[k].n>>]
InfoT(i)   == <<i.conn_id, i.window, i.in_flight, i.rtt, i.nak, i.bitrate>>
InfoJ(o)   == IF o = <<>> THEN <<>> ELSE <<InfoT(o[1])>>
RefDecWith(b, nk) ==
    [ty |-> PacketType(b), seq |-> SrtSeq(b), rex |-> IsRetransmit(b), ack |-> ParseSrtAck(b),
     nak |-> SegJ(nk.segs), nak_n |-> nk.have, nak_allow |-> NakAllowance(nk), nak_wf |-> nk.wf,
     lack |-> ParseSrtlaAck(b), ts |-> KeepaliveTs(b), info |-> InfoJ(KeepaliveInfo(b)),
     reg1 |-> IsReg1(b), reg2 |-> IsReg2(b), reg3 |-> IsReg3(b), ka |-> IsKeepalive(b), isack |-> IsSrtAck(b)]
RefDec(b) == RefDecWith(b, ParseSrtNakSegs(b))
RefBuild ==
    CASE x.what = "reg1"  -> BuildReg1(x.b)
      [] x.what = "reg2"  -> BuildReg2(x.b)
      [] x.what = "reg3"  -> BuildReg3
      [] x.what = "ack"   -> BuildSrtlaAck(x.ws)
      [] x.what = "ka"    -> BuildKeepalive(x.ts)
      [] x.what = "kaext" -> BuildKeepaliveExt(x.info, x.ts)
      [] x.what = "srtack" -> SrtAckFrame(x.ws[1])
      [] x.what = "data"  -> SrtDataFrame(x.ws[1], x.b[1] = 1)

Emit == Export =>
    IF IsDec
    THEN \E nk \in {ParseSrtNakSegs(x.b)} :
             PrintT(<<"EDGE", ToJson(<<[e |-> [ev |-> "Dec", b |-> x.b], o |-> RefDecWith(x.b, nk)]>>)>>)
    ELSE PrintT(<<"EDGE", ToJson(<<[e |-> [ev |-> "Build", what |-> x.what, b |-> x.b, ws |-> x.ws, ts |-> x.ts,
                                           info |-> InfoT(x.info), ref |-> RefBuild],
                                    o |-> [bytes |-> RefBuild]]>>)>>)
=============================================================================
