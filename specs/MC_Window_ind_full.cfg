SPECIFICATION IndSpec
CONSTANTS
  WMin = 1000
  WDef = 20000
  WMax = 60000
  WDecr = 100
  WIncr = 30
  FastEnter = 2000
  FastExit = 12000
  WindowSet <- AllWindows
  Infls <- QuickInfls
  Steps = {1}
  Export = FALSE
  Coarse = TRUE
VIEW IndView
INVARIANT InRange
PROPERTIES NakNeverIncreases AckNeverDecreases ResetsToDefault FastEntry FastExitRule ClassicNoRecovery OnlyNakLowers
CHECK_DEADLOCK FALSE
