----------------------------- MODULE MC_InFlight -----------------------------
(* Bounded exhaustive configuration + behaviour export for InFlightImpl.    *)
EXTENDS InFlightImpl, TLC, Json

CONSTANTS MaxEvents, Export

VARIABLE hist       \* the events taken so far with the expected observation (hidden by VIEW)

Obs(lg) == [infl |-> [l \in Links |-> Cardinality(lg[l])]]

Ev(name, l, s) == [ev |-> name, l |-> l, s |-> s]

MCInit == Init /\ hist = <<>>

Step(e, A) == A /\ hist' = Append(hist, [e |-> e, o |-> Obs(log')])

MCNext ==
    \/ \E l \in Links, s \in Seqs : Step(Ev("Send", l, s), Send(l, s))
    \/ \E a \in Seqs : Step(Ev("CumAck", 0, a), CumAck(a))
    \/ \E l \in Links, s \in Seqs : Step(Ev("SrtlaAck", l, s), SrtlaAck(l, s))
    \/ \E s \in Seqs : Step(Ev("Nak", 0, s), Nak(s))
    \/ \E l \in Links : Step(Ev("Reset", l, 0), Reset(l))

MCSpec == MCInit /\ [][MCNext]_<<vars, hist>>

View == vars
Bound == Len(hist) < MaxEvents
Emit == Export => PrintT(<<"EDGE", ToJson(hist')>>)
=============================================================================
