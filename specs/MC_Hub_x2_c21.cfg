SPECIFICATION MCSpec
CONSTANTS
  Tasks = {1, 2}
  Chans = {1, 2}
  Cap <- Cap21
  Topics = {"stats", "priority.window"}
  MaxSubs = 2
  MaxPubs = 2
  MaxUnsubs = 1
  MaxRecvs = 1
  MaxCloses = 1
  Export = TRUE
VIEW View
ACTION_CONSTRAINT Emit
INVARIANTS IdsUnique MsgTagged Ordered ReceivedIsPrefix NothingAfterUnsub ClosedPruned LiveStay PubNeverBlocked
CHECK_DEADLOCK FALSE
