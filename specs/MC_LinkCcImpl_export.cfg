SPECIFICATION MCSpec
CONSTANTS
  TMin = 100
  TMax = 200000
  SeedOnce = TRUE
  Targets <- GridTargets
  Obss <- GridObs
  Export = TRUE
INVARIANT C16After
ACTION_CONSTRAINT Emit
CHECK_DEADLOCK FALSE
