--------------------------- MODULE Trace_Selection ---------------------------
(***************************************************************************)
(* C11 over HISTORIES: seeded timed runs of the real enhanced selector on  *)
(* 2..4 real links (vh record selhist).  The one-shot input space of the   *)
(* decision is enumerated exactly by MC_Selection; what only a history     *)
(* shows is decided here:                                                  *)
(*   - the 50 ms quality cache: the multiplier a decision used is the true *)
(*     multiplier of that link computed at this decision or at an earlier  *)
(*     decision less than 50 ms ago -- never older, however often it was   *)
(*     read in between;                                                    *)
(*   - hysteresis / argmax / skip and gate precedence on the scores the    *)
(*     real quality function, RTT tracker, NAK accounting and soft cap     *)
(*     produce over time (score = base x phase weight x quality x soft cap,*)
(*     in 1/1000, as logged per link; the 2 % gate penalty is applied      *)
(*     here);                                                              *)
(*   - re-running the decision at the same instant with its own answer as  *)
(*     the previous index returns the same uplink;                         *)
(*   - every factor finite and inside its documented range.                *)
(* With Exact = TRUE the code-shaped details are compared too (refresh     *)
(* exactly when the entry is >= 50 ms old or was reset; the multiplier     *)
(* against a tabulated 1 - 0.5 e^(-age/2000); the in-flight cap against    *)
(* its bandwidth-delay formula); a rejection there is MODEL-DRIFT.         *)
(***************************************************************************)
EXTENDS Integers, Sequences, FiniteSets, Json, IOUtils, TLC

CONSTANT Exact

Rec == ndJsonDeserialize(IOEnv.TRACE)

MaxL == 4
Tol  == 2          \* 1/1000 score units: rounding of the logged scores
HTol == 42         \* the same, through 10 x best vs 11 x current

VARIABLES i,       \* position in the trace
          qv, qtm, \* per link: the cache entry (value in 1/1000, stamp; -1 = never / reset) after the last
                   \*           decision that scored the link
          pdec, pt \* previous decision and its time

vars == <<i, qv, qtm, pdec, pt>>

L(r) == 1..Len(r.links)

(* ---- skip / gate precedence (enhanced.rs) on the flags the code reports ---- *)
Skip(k)   == k.to \/ ~k.sched \/ k.sg
AnyUnc(r) == \E a \in L(r) : LET k == r.links[a] IN
                 k.conn /\ ~k.to /\ k.sched /\ ~k.wk /\ ~k.sg /\ ~k.capx
Scored(r) == {a \in L(r) : ~Skip(r.links[a]) /\ ~(AnyUnc(r) /\ r.links[a].capx)}
Pen(r, a) == AnyUnc(r) /\ r.links[a].wk
Eff(r, a) == IF Pen(r, a) THEN r.links[a].raw \div 50 ELSE r.links[a].raw
Cands(r)  == {a \in Scored(r) : Eff(r, a) > -1000}

Top(r)   == CHOOSE s \in {Eff(r, a) : a \in Cands(r)} : \A b \in Cands(r) : Eff(r, b) <= s
BestT(r) == {a \in Cands(r) : Eff(r, a) >= Top(r) - Tol}

(* the answers the statement allows (up to the rounding of the logged scores) *)
Allowed(r) ==
    IF Cands(r) = {} THEN {0}
    ELSE IF r.last = 0 \/ r.last \notin Cands(r) THEN BestT(r)
    ELSE LET cur == Eff(r, r.last) IN
         (IF Top(r) * 10 < cur * 11 + HTol THEN {r.last} ELSE {})
         \cup {b \in BestT(r) : b # r.last /\ Eff(r, b) * 10 >= cur * 11 - HTol}

(* ---- factor ranges ---- *)
RangesOK(r) ==
    \A a \in L(r) : LET k == r.links[a] IN
        /\ k.fin
        /\ k.c \in 100..1000
        /\ r.quality => (k.qu \in 350..1133 /\ k.qt \in 350..1133)
        /\ k.pw5 = (IF k.phase = "Warm" THEN 4 ELSE IF k.phase = "Reg" THEN 0 ELSE 5)

(* ---- the quality cache ---- *)
Fresh(r, k, a) == k.qcalc = r.t /\ qtm[a] # r.t /\ k.qu = k.qt          \* computed by this decision
Hit(r, k, a)   == k.qcalc = qtm[a] /\ qtm[a] # -1 /\ k.qu = qv[a] /\ r.t - k.qcalc < 50
CacheOK(r) ==
    r.quality => \A a \in Scored(r) : LET k == r.links[a] IN
        /\ Fresh(r, k, a) \/ Hit(r, k, a)
        /\ Exact => (k.qcalc = r.t /\ qtm[a] # r.t) <=> (qtm[a] = -1 \/ r.t - qtm[a] >= 50)
CacheNext(r) ==
    /\ qv'  = [a \in 1..MaxL |-> IF r.quality /\ a \in Scored(r) THEN r.links[a].qu ELSE qv[a]]
    /\ qtm' = [a \in 1..MaxL |-> IF r.quality /\ a \in Scored(r) THEN r.links[a].qcalc ELSE qtm[a]]
(* a link that was not scored (or quality scoring off) keeps its entry *)
CacheUntouched(r) ==
    Exact => \A a \in L(r) : (~r.quality \/ a \notin Scored(r)) =>
                 (r.links[a].qcalc = qtm[a] /\ (qtm[a] # -1 => r.links[a].qu = qv[a]))

(* ---- code-shaped oracles (Exact only) ---- *)
FLoTab == <<499, 558, 610, 656, 696, 732, 763, 791, 816, 837, 856, 873, 888, 901, 913, 923, 932, 940, 947, 953,
            958, 963, 968, 971, 975, 978, 980, 982, 984, 986, 988, 989, 990, 991, 992, 993, 994, 995, 995, 996,
            996, 997, 997, 997, 997, 998, 998, 998, 998, 998, 999, 999, 999, 999, 999, 999, 999, 999, 999, 999,
            999, 999, 999, 999, 999>>
FHiTab == <<501, 559, 611, 657, 697, 733, 764, 792, 817, 838, 857, 874, 889, 902, 914, 924, 933, 941, 948, 954,
            959, 964, 969, 972, 976, 979, 981, 983, 985, 987, 989, 990, 991, 992, 993, 994, 995, 996, 996, 997,
            997, 998, 998, 998, 998, 999, 999, 999, 999, 999, 1000, 1000, 1000, 1000, 1000, 1000, 1000, 1000,
            1000, 1000, 1000, 1000, 1000, 1000, 1000>>
FLo(a) == IF a >= 16000 THEN FLoTab[65] ELSE FLoTab[(a \div 250) + 1]
FHi(a) == IF a >= 16000 THEN 1000 ELSE FHiTab[(a \div 250) + 2]

Min(x, y) == IF x < y THEN x ELSE y
Max(x, y) == IF x > y THEN x ELSE y
BonusLo(k) == IF k.srttUs <= 0 THEN 1000 ELSE Max(Min(200000000 \div Max(k.srttUs, 50000), 1030), 1000)
BonusHi(k) == IF k.srttUs <= 0 THEN 1000 ELSE Min(BonusLo(k) + 1, 1030)

QBounds(k) ==   \* <<lo, hi>> of the multiplier in 1/1000
    IF k.age < 30000 THEN (IF k.naks = 0 THEN <<1100, 1100>> ELSE <<980, 980>>)
    ELSE LET m == IF k.nakAge # -1
                  THEN IF k.burst >= 5 /\ k.nakAge < 3000
                       THEN <<(FLo(k.nakAge) * 7) \div 10, (FHi(k.nakAge) * 7) \div 10 + 1>>
                       ELSE <<FLo(k.nakAge), FHi(k.nakAge)>>
                  ELSE IF k.naks = 0 THEN <<1100, 1100>> ELSE <<1000, 1000>>
         IN <<(m[1] * BonusLo(k)) \div 1000 - 1, (m[2] * BonusHi(k)) \div 1000 + 2>>
QualityFormulaOK(r) ==
    \A a \in L(r) : LET k == r.links[a] b == QBounds(k) IN k.qt >= b[1] - 1 /\ k.qt <= b[2] + 1

CapOK(r) ==
    \A a \in L(r) : LET k == r.links[a] IN
        IF k.tgtKbps = 0 /\ k.tgtExact THEN ~k.capx
        ELSE IF ~k.tgtExact \/ (k.rttMinUs > 0 /\ k.rttMinUs % 1000 # 0) THEN TRUE
        ELSE LET ms  == IF k.rttMinUs > 0 THEN k.rttMinUs \div 1000 ELSE 1
                 cap == Max(1, (k.tgtKbps * ms * 3) \div (16 * 1316))
             IN (k.infl \in (cap - 1)..(cap + 1)) \/ (k.capx = (k.infl > cap))

(* ---- one logged decision ---- *)
SelectOK(r) ==
    /\ RangesOK(r)
    /\ CacheOK(r) /\ CacheUntouched(r)
    /\ r.dec \in Allowed(r)
    /\ (r.dec # 0 /\ AnyUnc(r)) => ~r.links[r.dec].capx      \* never an over-cap link while an unconstrained one exists
    /\ r.again => (r.t = pt /\ r.last = pdec /\ r.dec = r.last)
    /\ Exact => (QualityFormulaOK(r) /\ CapOK(r))

TraceInit ==
    /\ i = 1
    /\ qv = [a \in 1..MaxL |-> 1000] /\ qtm = [a \in 1..MaxL |-> -1]
    /\ pdec = 0 /\ pt = -1

TraceNext ==
    /\ i <= Len(Rec)
    /\ i' = i + 1
    /\ LET r == Rec[i] IN
       \/ /\ r.ev = "Init"
          /\ qv' = [a \in 1..MaxL |-> 1000] /\ qtm' = [a \in 1..MaxL |-> -1] /\ pdec' = 0 /\ pt' = -1
       \/ /\ r.ev = "Select"
          /\ SelectOK(r)
          /\ CacheNext(r)
          /\ pdec' = r.dec /\ pt' = r.t
       \/ /\ r.ev = "Reg3"           \* REG3 clears the link's accounting, including its cache entry
          /\ qv' = [qv EXCEPT ![r.l] = 1000] /\ qtm' = [qtm EXCEPT ![r.l] = -1]
          /\ UNCHANGED <<pdec, pt>>
       \/ /\ r.ev \in {"Advance", "Nak", "Rtt", "Load", "Window", "Cc", "Flags", "Phase", "Silence", "Recv",
                       "Establish"}
          /\ UNCHANGED <<qv, qtm, pdec, pt>>

TraceSpec == TraceInit /\ [][TraceNext]_vars

TraceAccepted ==
    LET d == TLCGet("stats").diameter IN
    IF d - 1 = Len(Rec) THEN TRUE
    ELSE /\ PrintT(<<"TRACE-REJECTED", d, ToJson(Rec[d])>>)
         /\ FALSE
=============================================================================
