----------------------------- MODULE MC_HubLock -----------------------------
(* Bounded configurations of HubLock.tla (no behaviour export: on a single     *)
(* thread the real code cannot be suspended inside a critical section, so the  *)
(* lock layer adds no schedule the manual executor could replay; the binding   *)
(* of the atomic steps is MC_Hub's).                                           *)
EXTENDS HubLock, TLC

CONSTANTS MaxSubs, MaxPubs, MaxUnsubs, MaxRecvs, MaxCloses

VARIABLE cnt

Cap11 == <<1, 1>>
Cap12 == <<1, 2>>

NClosed == Cardinality({c \in Chans : closed[c]})
LowestFree(t) == Free(t) /\ pc[t].k = "idle" /\ \A u \in Tasks : u < t => ~(Free(u) /\ pc[u].k = "idle")
Fanouts == Len(pubs) + Cardinality({t \in Tasks : want[t].a = "Fanout"})

MCInit == LInit /\ cnt = [u |-> 0, r |-> 0]

Start(t) ==      \* a task calls subscribe / unsubscribe / publish
    /\ LowestFree(t)
    /\ \/ nextId < MaxSubs /\ (\E tp \in Topics, c \in Chans : LAlloc(t, tp, c)) /\ UNCHANGED cnt
       \/ /\ cnt.u < MaxUnsubs
          /\ \E id \in 0..(nextId - 1) : Req(t, [a |-> "Unsub", id |-> id, topic |-> ""])
          /\ cnt' = [cnt EXCEPT !.u = @ + 1]
       \/ Fanouts < MaxPubs /\ (\E tp \in Topics : Req(t, [a |-> "Fanout", id |-> -1, topic |-> tp])) /\ UNCHANGED cnt

(* once called, an operation is driven to its end by its own task *)
Cont(t) ==
    \/ Req(t, [a |-> "Insert", id |-> -1, topic |-> ""])
    \/ (want[t].a \in {"Insert", "Unsub"} /\ Body(t))
    \/ PubStep(t)

HubStep == Grant \/ \E t \in Tasks : Cont(t)

MCNext ==
    \/ (\E t \in Tasks : Start(t))
    \/ HubStep /\ UNCHANGED cnt
    \/ \E c \in Chans :
         \/ cnt.r < MaxRecvs /\ LRecv(c) /\ cnt' = [cnt EXCEPT !.r = @ + 1]
         \/ NClosed < MaxCloses /\ LClose(c) /\ UNCHANGED cnt

allvars == <<vars, lvars, cnt>>

(* fairness on the hub's own steps only -- none on Start (nobody has to call anything), none on the
   subscribers' Recv / Close *)
MCSpec == MCInit /\ [][MCNext]_allvars
            /\ WF_allvars(Grant /\ UNCHANGED cnt)
            /\ \A t \in Tasks : WF_allvars(Cont(t) /\ UNCHANGED cnt)
=============================================================================
