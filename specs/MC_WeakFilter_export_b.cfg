SPECIFICATION MCSpec
CONSTANTS
  N = 2
  Floor = 100
  Sustain = 2
  ProbInterval = 15
  ProbWindow = 3
  Rates = {30, 600}
  Delays = {FALSE}
  Conns = {TRUE}
  MaxTicks = 24
  Export = TRUE
VIEW View
ACTION_CONSTRAINT Emit
CONSTRAINT Bound
INVARIANTS NotWeakWhenOff DelayNeedsTwoTicks RunBounded EnterLeave
PROPERTY ProbationHonoured
CHECK_DEADLOCK FALSE
