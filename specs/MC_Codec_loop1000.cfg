INIT Trivial
NEXT Next
CONSTANTS
  Cap = 1000
  Export = FALSE
INVARIANTS ExpandAgree
CHECK_DEADLOCK FALSE
