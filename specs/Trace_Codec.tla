----------------------------- MODULE Trace_Codec -----------------------------
(***************************************************************************)
(* Trace validation for C15: frames decoded / built by the REAL code of    *)
(* crate srtla-protocol (vh record codec), re-decoded by TLC from the      *)
(* logged bytes with the reference definitions of Codec.tla.               *)
(*   Dec    a frame head ++ pat^reps ++ tail (every length 0..1500 of      *)
(*          every type code as truncations of header + repeated words;     *)
(*          short explicit frames have pat = <<>>) with the outputs of     *)
(*          every decoder; long lists are logged as length + sampled       *)
(*          positions [k, hi, lo]                                          *)
(*   Sum    a long frame of random content: length, first 40 bytes, the    *)
(*          outputs that those determine (everything but the list bodies)  *)
(*   Build  builder arguments, the bytes the real builder produced, and    *)
(*          whether the real decoders returned the arguments               *)
(* A panic of the code under test is a "Panic" line, which nothing here    *)
(* accepts.  Exact = FALSE judges at the level of the property (see        *)
(* DecOK); Exact = TRUE compares everything with the code-shaped reference *)
(* (a difference there alone is MODEL-DRIFT).                              *)
(***************************************************************************)
EXTENDS Codec, Sequences, Json, IOUtils, TLC

CONSTANT Exact

Rec == ndJsonDeserialize(IOEnv.TRACE)

VARIABLE i
vars == <<i>>

Rep(pat, n) == [k \in 1..(n * Len(pat)) |-> pat[((k - 1) % Len(pat)) + 1]]
FrameOf(r)  == r.head \o Rep(r.pat, r.reps) \o r.tail

InfoT(o) == IF o = <<>> THEN <<>>
            ELSE << <<o[1].conn_id, o[1].window, o[1].in_flight, o[1].rtt, o[1].nak, o[1].bitrate>> >>
InfoR(t) == [conn_id |-> t[1], window |-> t[2], in_flight |-> t[3], rtt |-> t[4], nak |-> t[5], bitrate |-> t[6]]

(* `\E v \in {e}` instead of LET: TLC binds v to the evaluated VALUE once (a LET definition is re-evaluated
   at every use here, which made a 375-word NAK cost 20 ms) *)
DecOK(r) ==
    \E b \in {FrameOf(r)} : \E nk \in {ParseSrtNakSegs(b)}, la \in {ParseSrtlaAck(b)} :
       /\ r.ty = PacketType(b)
       /\ r.seq = SrtSeq(b)
       \* the flag lives in byte 4; the statement does not say what a 5..7 byte frame is
       /\ (Exact \/ Len(b) \notin 5..7) => (r.rex = IsRetransmit(b))
       /\ r.ack = ParseSrtAck(b)
       /\ r.ts = KeepaliveTs(b)
       /\ r.info = InfoT(KeepaliveInfo(b))
       /\ r.reg1 = IsReg1(b) /\ r.reg2 = IsReg2(b) /\ r.reg3 = IsReg3(b)
       \* a manager that awaits the answer to its REG1 adopts the id of a REG2 frame, and of nothing shorter or of
       \* another type (what it does with a longer frame of that type the statement leaves open)
       /\ ("regacc" \in DOMAIN r) => /\ (IsReg2(b) => r.regacc)
                                      /\ (r.regacc => (Len(b) >= RegLen /\ HasType(b, TReg2)))
                                      /\ r.regid
       /\ r.ka = IsKeepalive(b) /\ r.isack = IsSrtAck(b)
       \* SRTLA ACK: one number per whole word after the 4-byte header
       /\ r.lack_n = Len(la)
       /\ \A j \in 1..Len(r.lack_at) : /\ r.lack_at[j][1] \in 1..Len(la)
                                       /\ la[r.lack_at[j][1]] = <<r.lack_at[j][2], r.lack_at[j][3]>>
       \* NAK: at most Cap range-expanded entries plus one per word outside a start/end pair, whatever the frame
       /\ r.nak_n <= NakAllowance(nk)
       \* ... and exactly the listed numbers when the loss list is well formed
       /\ (Exact \/ nk.wf) =>
              /\ r.nak_n = nk.have
              /\ \A j \in 1..Len(r.nak_at) : /\ r.nak_at[j][1] \in 1..nk.have
                                             /\ ElemAt(nk.segs, r.nak_at[j][1]) = <<r.nak_at[j][2], r.nak_at[j][3]>>

(* a frame of r.len >= 65 bytes of which the first 40 are r.pre: every guard of the fixed-offset decoders
   (>= 2, 4, 8, 10, 20, 38 bytes) is decided by those *)
SumOK(r) ==
    LET p == r.pre
        L == r.len
        words == (L - 4) \div 4
    IN /\ L >= 65 /\ Len(p) = 40
       /\ r.ty = PacketType(p) /\ r.seq = SrtSeq(p) /\ r.rex = IsRetransmit(p) /\ r.ack = ParseSrtAck(p)
       /\ r.ts = KeepaliveTs(p) /\ r.info = InfoT(KeepaliveInfo(p))
       /\ r.ka = IsKeepalive(p) /\ r.isack = IsSrtAck(p)
       /\ r.reg1 = (L = RegLen /\ HasType(p, TReg1)) /\ r.reg2 = (L = RegLen /\ HasType(p, TReg2)) /\ r.reg3 = FALSE
       /\ ("regacc" \in DOMAIN r) => /\ ((L = RegLen /\ HasType(p, TReg2)) => r.regacc)
                                      /\ (r.regacc => (L >= RegLen /\ HasType(p, TReg2)))
                                      /\ r.regid
       /\ r.lack_n = (IF HasType(p, TAck) THEN words ELSE 0)
       /\ \A j \in 1..Len(r.lack_at) : /\ r.lack_at[j][1] \in 1..9
                                       /\ W32(p, 4 * r.lack_at[j][1]) = <<r.lack_at[j][2], r.lack_at[j][3]>>
       /\ r.nak_n <= (IF HasType(p, TSrtNak) THEN Cap + words ELSE 0)

BuildOK(r) ==
    LET ref == CASE r.what = "reg1"  -> BuildReg1(r.b)
                 [] r.what = "reg2"  -> BuildReg2(r.b)
                 [] r.what = "ack"   -> BuildSrtlaAck(r.ws)
                 [] r.what = "ka"    -> BuildKeepalive(r.ts)
                 [] r.what = "kaext" -> BuildKeepaliveExt(InfoR(r.info), r.ts)
    IN /\ r.rt                                         \* decode(build(x)) = x on the real code
       /\ Len(r.bytes) = Len(ref)                      \* 258 / 4 + 4n / 10 / 38
       /\ \A k \in 1..Len(ref) : \/ r.bytes[k] = ref[k]
                                 \/ (~Exact /\ r.what = "ack" /\ k \in {3, 4})   \* header padding: not stated

TraceInit == i = 1

TraceNext ==
    /\ i <= Len(Rec)
    /\ i' = i + 1
    /\ LET r == Rec[i] IN
       \/ r.ev = "Init"
       \/ r.ev = "Dec" /\ DecOK(r)
       \/ r.ev = "Sum" /\ SumOK(r)
       \/ r.ev = "Build" /\ BuildOK(r)

TraceSpec == TraceInit /\ [][TraceNext]_vars

TraceAccepted ==
    LET d == TLCGet("stats").diameter IN
    IF d - 1 = Len(Rec) THEN TRUE
    ELSE /\ PrintT(<<"TRACE-REJECTED", d, ToJson(Rec[d])>>)
         /\ FALSE
=============================================================================
