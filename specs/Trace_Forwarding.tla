--------------------------- MODULE Trace_Forwarding ---------------------------
(***************************************************************************)
(* Trace validation for C01 / C04 (shell half) / C03 (shell half): every   *)
(* arm call of a ShellSim run (vh record shellsim) must be explained by a  *)
(* Forwarding action whose wire output equals, digest for digest and in    *)
(* order, what was captured on each uplink's socket during that call, and  *)
(* whose queue depths equal what the code reports afterwards.              *)
(***************************************************************************)
EXTENDS Forwarding, Json, IOUtils, TLC

Rec == ndJsonDeserialize(IOEnv.TRACE)

VARIABLES i, n,     \* position; number of links of the current run
          pc        \* connected flags after the previous line (a failed flush takes a link from connected to reset)

Own == {"ka", "reg1", "reg2"}        \* what the sender emits of its own accord

(* the stream frames captured on link l during the step, as a sequence of digests *)
RECURSIVE Pick(_, _)
Pick(w, l) == IF w = <<>> THEN <<>>
              ELSE IF Head(w).l = l /\ Head(w).cls \notin Own
                   THEN <<Head(w).dig>> \o Pick(Tail(w), l)
                   ELSE Pick(Tail(w), l)

Depths(r) == \A l \in 1..n : r.links[l].queued = Len(q'[l])

Failed(r) == {l \in 1..n : r.sendfail[l]}

(* a ClientPkt line: find u, P, F that explain it *)
TraceRoute(r) ==
    \E u \in 0..n : \E P \in SUBSET ((1..n) \ {u}) : \E F \in SUBSET (1..n) :
      LET \* a link with an injected send failure that was asked to flush lost its batch
          fl == {l \in F : r.sendfail[l] /\ Pick(r.wire, l) = <<>> /\ r.marked[l]}
      IN /\ Route(r.dig, u, P, F, fl, r.links, n, r.isdata, r.regdone)
         /\ \A l \in 1..n : Pick(r.wire, l) = RouteWire(r.dig, u, P, F, fl, l)
         /\ Depths(r)

TraceFlush(r) ==
    LET fl == {l \in 1..n : r.sendfail[l] /\ q[l] # <<>> /\ Pick(r.wire, l) = <<>>}
    IN /\ FlushTick(fl)
       /\ \A l \in 1..n : Pick(r.wire, l) = FlushWire(fl, l)
       /\ Depths(r)

(* housekeeping: links that were timed out and due for a reconnect attempt are reset *)
TraceHousekeeping(r) ==
    LET R == {l \in 1..n : r.pre[l].to /\ r.pre[l].due}
    IN /\ (IF R = {} THEN Other ELSE LinkReset(R))
       /\ \A l \in 1..n : Pick(r.wire, l) = <<>>
       /\ Depths(r)

(* an uplink datagram: REG3 re-registers the link (its queue is cleared); nothing else touches the queues *)
TraceUplink(r) ==
    /\ (IF r.cls = "reg3" /\ r.len >= 2 THEN LinkReset({r.l}) ELSE Other)
    /\ \A l \in 1..n : Pick(r.wire, l) = <<>>
    /\ Depths(r)

TraceQuiet(r) == Other /\ (\A l \in 1..n : Pick(r.wire, l) = <<>>) /\ Depths(r)

TraceInit == Init /\ i = 1 /\ n = 1 /\ pc = [l \in Links |-> FALSE]

TraceNext ==
    /\ i <= Len(Rec)
    /\ i' = i + 1
    /\ pc' = [l \in Links |-> IF l <= Len(Rec[i].links) THEN Rec[i].links[l].conn ELSE FALSE]
    /\ LET r == Rec[i] IN
       \/ /\ r.ev = "Init" /\ n' = r.n
          /\ q' = [l \in Links |-> <<>>] /\ gap' = [l \in Links |-> 0] /\ act' = "Init"
       \/ r.ev = "ClientPkt" /\ TraceRoute(r) /\ UNCHANGED n
       \/ r.ev = "FlushTick" /\ TraceFlush(r) /\ UNCHANGED n
       \/ r.ev = "Housekeeping" /\ TraceHousekeeping(r) /\ UNCHANGED n
       \/ r.ev = "UplinkPkt" /\ TraceUplink(r) /\ UNCHANGED n
       \/ r.ev \in {"Advance", "SetPath", "Amnesia", "SendFail", "SetCfg", "Burst", "Drain", "ReplyLost", "Backpressure"} /\ TraceQuiet(r) /\ UNCHANGED n

TraceSpec == TraceInit /\ [][TraceNext]_<<vars, i, n, pc>>

TraceAccepted ==
    LET d == TLCGet("stats").diameter IN
    IF d - 1 = Len(Rec) THEN TRUE
    ELSE /\ PrintT(<<"TRACE-REJECTED", d, ToJson([ev |-> Rec[d].ev, t |-> Rec[d].t, wire |-> Rec[d].wire,
                                                   links |-> Rec[d].links])>>)
         /\ FALSE
=============================================================================
