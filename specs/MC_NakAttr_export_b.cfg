SPECIFICATION MCSpec
CONSTANTS
  MaxLinks = 2
  R = 2
  MaxAge = 2
  WDecr = 100
  WFloor = 1000
  Seqs = {0, 2}
  MaxEvents = 7
  Export = TRUE
VIEW View
ACTION_CONSTRAINT Emit
CONSTRAINT Bound
INVARIANT C05
CHECK_DEADLOCK FALSE
