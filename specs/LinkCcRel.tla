----------------------------- MODULE LinkCcRel -----------------------------
(* C16's clauses as relations between the snapshot before a tick (pst, pT),  *)
(* the snapshot after it (st, T, hasRtt) and the measured rate offered (obs).*)
(* Rates in kbit/s; the slack terms absorb the floor of the unit conversion. *)
EXTENDS Integers

CONSTANTS TMin, TMax

Min(a, b) == IF a < b THEN a ELSE b
Max(a, b) == IF a > b THEN a ELSE b

SeededR(pst) == pst # "Bootstrap"     \* a tick with an RTT sample has already happened before this one

InRangeR(T) == TMin <= T /\ T <= TMax
FloorUntilRttR(hasRtt, T) == ~hasRtt => T = TMin

LoweredOnlyByR(pst, pT, st, T, obs) ==
    T < pT => \/ /\ st = "BackingOff"
                 /\ T * 1000 >= pT * 850 - 2000          \* x0.85
                 /\ T >= Min(obs, pT) - 1                \* never below what the link is measurably delivering
              \/ /\ st = "Drain" /\ pst # "Drain"         \* once, on entry
                 /\ T * 1000 >= pT * 750 - 2000          \* x0.75

BackoffNeverRaisesR(pst, pT, st, T) == (st = "BackingOff" /\ SeededR(pst)) => T <= pT

GrowthBoundedR(pst, pT, T, obs) ==
    (SeededR(pst) /\ T > pT) => /\ T * 1000 <= pT * 1060 + 2000   \* at most 6 % per tick
                                /\ T <= Max(pT, 2 * obs) + 2      \* never beyond twice the measured rate
=============================================================================
