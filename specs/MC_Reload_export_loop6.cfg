SPECIFICATION MCSpec
CONSTANTS
  Addrs = {"a", "b", "c"}
  Unbindable = {}
  Seqs = {}
  StMax = 0
  StartLists <- LoopStarts
  FileSet <- LoopFiles
  OverFiles <- LoopFiles
  MaxHist = 6
  Quiet = TRUE
  Export = TRUE
VIEW ViewR
ACTION_CONSTRAINT Emit
INVARIANTS NeverStranded IoConsistent OwnersLive IdsDistinct SelInRange
PROPERTIES ParsedExactly RefusedUntouched SighupTouchesNothing RefusedKeepsQueue SurvivorsKept RemovedExactly IoFollows TrackerPurged AddedOnce SelectionForgotten OrderKept
CHECK_DEADLOCK FALSE
