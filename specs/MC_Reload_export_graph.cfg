SPECIFICATION MCSpec
CONSTANTS
  Addrs = {"a", "b", "c"}
  Unbindable = {}
  Seqs = {1, 2}
  StMax = 1
  StartLists <- StartsQuick
  FileSet <- GraphFiles3
  OverFiles <- OverSome
  MaxHist = 5
  Quiet = TRUE
  Export = TRUE
VIEW View
ACTION_CONSTRAINT Emit
INVARIANTS NeverStranded IoConsistent OwnersLive IdsDistinct SelInRange
PROPERTIES ParsedExactly RefusedUntouched SighupTouchesNothing RefusedKeepsQueue SurvivorsKept RemovedExactly IoFollows TrackerPurged AddedOnce SelectionForgotten OrderKept
CHECK_DEADLOCK FALSE
