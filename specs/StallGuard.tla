----------------------------- MODULE StallGuard -----------------------------
(***************************************************************************)
(* C13 (and the timed half of C12 / C03): one link's stall latch and       *)
(* silence pull as the code drives them on every scheduling decision       *)
(* (connection/mod.rs effective_stall_stale_ms, is_stalled,                *)
(*  update_stall_latch, silence_pull_window_ms, is_briefly_silent,         *)
(*  update_silence_pull; selection/mod.rs apply_stall_gate), next to an    *)
(* INDEPENDENT monitor of the property written from the statement, not     *)
(* from the code's bookkeeping.                                            *)
(*                                                                         *)
(* All times are AGES in ms (-1 = none), advanced by Advance(d) and        *)
(* saturating at Sat.  The exhaustive configuration uses 250 ms steps and  *)
(* Sat just above the longest dwell; trace validation uses real ms and a   *)
(* huge Sat.                                                               *)
(*                                                                         *)
(* The link under test is one of >= 2 links; what the others contribute to *)
(* its gate is one bit per decision: "some other healthy link exists".     *)
(***************************************************************************)
EXTENDS Integers

CONSTANTS Floor,        \* STALL_STALE_FLOOR_MS       1000
          RttMult,      \* STALL_STALE_RTT_MULT       4
          DwellMult,    \* STALL_REJOIN_DWELL_MULT    2
          PullFloor,    \* SILENCE_PULL_FLOOR_MS      250
          PullMult,     \* SILENCE_PULL_RTT_MULT      2
          Sat           \* saturation of ages

VARIABLES
    \* ---- inputs the link's own history produces
    conn,       \* connected
    loaded,     \* in_flight >= stall_min_in_flight
    pa,         \* age of the last delivery proof (-1: never / cleared by reset)
    ra,         \* age of the last received byte  (-1: none)
    srtt,       \* smoothed RTT in ms, 0 = no baseline
    guard,      \* stall_deselect
    ceil,       \* stall_ack_stale_ms (configured ceiling)
    \* ---- the code's guard-private state
    latched,    \* stall_latched_since_ms != 0
    rec,        \* age of stall_recovery_since_ms (-1: no run in progress)
    pulled,     \* silence_pulled
    gated,      \* stall_gated as left by the last decision
    \* ---- the monitor (property-level history)
    fr,         \* age of the first decision of the current uninterrupted run of decisions that saw
                \* fresh proof (-1: none)
    heard,      \* a byte arrived on this link since the pull engaged
    pwEng,      \* the pull window in force when the pull engaged
    act

cvars == <<conn, loaded, pa, ra, srtt, guard, ceil>>
gvars == <<latched, rec, pulled, gated>>
mvars == <<fr, heard, pwEng>>
vars  == <<cvars, gvars, mvars, act>>

Min(a, b) == IF a < b THEN a ELSE b
Max(a, b) == IF a > b THEN a ELSE b

(* ---------------- the code's predicates ---------------- *)
Eff     == IF srtt = 0 THEN ceil ELSE Min(Max(RttMult * srtt, Floor), ceil)
PullWin == Min(IF srtt = 0 THEN PullFloor ELSE Max(PullMult * srtt, PullFloor), Eff)

BrieflySilent == conn /\ loaded /\ ra # -1 /\ ra >= PullWin
Spoke         == ra # -1 /\ ra < PullWin
Pulled1       == IF BrieflySilent THEN TRUE
                 ELSE IF ~pulled THEN FALSE
                 ELSE IF Spoke \/ ~conn THEN FALSE ELSE TRUE

ProofStale == pa # -1 /\ pa >= Eff
ProofFresh == pa # -1 /\ pa < Eff
IsStalled  == conn /\ loaded /\ ProofStale
Engage     == IsStalled \/ (Pulled1 /\ ProofStale)

Init ==
    /\ ceil \in Nat /\ guard \in BOOLEAN
    /\ conn = TRUE /\ loaded = FALSE /\ pa = -1 /\ ra = 0 /\ srtt = 0
    /\ latched = FALSE /\ rec = -1 /\ pulled = FALSE /\ gated = FALSE
    /\ fr = -1 /\ heard = FALSE /\ pwEng = 0
    /\ act = "Init"

(* ---------------- one scheduling decision (apply_stall_gate) ---------------- *)
Select(otherHealthy) ==
    /\ act' = "Select"
    /\ UNCHANGED cvars                       \* C12: a decision never touches liveness / accounting
    /\ IF ~guard
       THEN /\ latched' = FALSE /\ rec' = -1 /\ pulled' = FALSE /\ gated' = FALSE
            /\ fr' = -1 /\ UNCHANGED <<heard, pwEng>>
       ELSE /\ pulled' = Pulled1
            /\ IF Engage THEN latched' = TRUE /\ rec' = -1
               ELSE IF ~latched THEN UNCHANGED <<latched, rec>>
               ELSE IF ~ProofFresh THEN latched' = TRUE /\ rec' = -1
               ELSE LET r == IF rec = -1 THEN 0 ELSE rec IN
                    IF r >= DwellMult * Eff THEN latched' = FALSE /\ rec' = -1
                    ELSE latched' = TRUE /\ rec' = r
            /\ gated' = (otherHealthy /\ (latched' \/ pulled'))
            \* the monitor, from the statement: fresh at EVERY decision of the run
            /\ fr' = IF ProofFresh THEN (IF fr = -1 THEN 0 ELSE fr) ELSE -1
            /\ heard' = IF ~pulled /\ pulled' THEN FALSE ELSE heard
            /\ pwEng' = IF ~pulled /\ pulled' THEN PullWin ELSE pwEng

(* ---------------- what happens to the link between decisions ---------------- *)
Env(name) == act' = name /\ UNCHANGED <<gvars, fr, pwEng>>

(* earned SRTLA ACK / keepalive echo received on this link: proof + byte *)
ProofHere    == Env("ProofHere") /\ pa' = 0 /\ ra' = 0 /\ heard' = TRUE
                /\ UNCHANGED <<conn, loaded, srtt, guard, ceil>>
(* SRTLA ACK for a number this link holds, arriving on ANOTHER link (fallback scan) *)
ProofForeign == Env("ProofForeign") /\ pa' = 0
                /\ UNCHANGED <<conn, loaded, ra, srtt, guard, ceil, heard>>
(* any other non-registration datagram on this link *)
Recv         == Env("Recv") /\ ra' = 0 /\ heard' = TRUE
                /\ UNCHANGED <<conn, loaded, pa, srtt, guard, ceil>>
SetLoad(b)   == Env("SetLoad") /\ loaded' = b
                /\ UNCHANGED <<conn, pa, ra, srtt, guard, ceil, heard>>
(* an RTT sample WITHOUT a byte on this link (cumulative SRT ACK relayed by another link) *)
SetRtt(s)    == Env("SetRtt") /\ srtt' = s
                /\ UNCHANGED <<conn, loaded, pa, ra, guard, ceil, heard>>
(* REG_ERR: disconnected, liveness stamp dropped; guard-private state untouched *)
Disconnect   == Env("Disconnect") /\ conn' = FALSE /\ ra' = -1
                /\ UNCHANGED <<loaded, pa, srtt, guard, ceil, heard>>
(* duplicate / fresh REG3: connected, heard, accounting cleared *)
Reg3         == Env("Reg3") /\ conn' = TRUE /\ ra' = 0 /\ loaded' = FALSE /\ heard' = TRUE
                /\ UNCHANGED <<pa, srtt, guard, ceil>>
SetGuard(g)  == Env("SetGuard") /\ guard' = g
                /\ UNCHANGED <<conn, loaded, pa, ra, srtt, ceil, heard>>

(* mark_for_recovery / reset_for_reconnect (full also forgets the RTT baseline) *)
Reset(full) ==
    /\ act' = "Reset"
    /\ conn' = FALSE /\ loaded' = FALSE /\ pa' = -1 /\ ra' = -1
    /\ srtt' = IF full THEN 0 ELSE srtt
    /\ latched' = FALSE /\ rec' = -1 /\ pulled' = FALSE /\ gated' = FALSE
    /\ fr' = -1 /\ UNCHANGED <<guard, ceil, heard, pwEng>>

Age(a, d) == IF a = -1 THEN -1 ELSE Min(a + d, Sat)
Advance(d) ==
    /\ d > 0 /\ act' = "Advance"
    /\ pa' = Age(pa, d) /\ ra' = Age(ra, d) /\ rec' = Age(rec, d) /\ fr' = Age(fr, d)
    /\ UNCHANGED <<conn, loaded, srtt, guard, ceil, latched, pulled, gated, heard, pwEng>>

(* ======================= the property (C13) =======================
   ("Init" only occurs in trace validation, where it starts a fresh run.)   *)

(* latched only with a backlog (or held by the pull) AND proof older than the effective window *)
LatchRiseOK ==
    [][(~latched /\ latched') =>
          /\ act' = "Select" /\ guard
          /\ (loaded \/ pulled')
          /\ pa # -1 /\ pa >= Eff]_vars

(* an uplink that never produced delivery proof is never latched *)
NeverBlind == latched => pa # -1

(* rejoin: reset, guard off, or proof fresh at every decision for >= 2 x the window *)
LatchFallOK ==
    [][(latched /\ ~latched') =>
          \/ act' \in {"Reset", "Init"}
          \/ act' = "Select" /\ ~guard
          \/ act' = "Select" /\ fr' # -1 /\ fr' >= DwellMult * Eff]_vars

(* the pull releases only when the link is heard from again or disconnects *)
PullFallOK ==
    [][(pulled /\ ~pulled') =>
          \/ act' \in {"Reset", "Init"}
          \/ act' = "Select" /\ ~guard
          \/ act' = "Select" /\ (~conn \/ heard)]_vars

(* the same, tolerating exactly the recorded finding D4: released because an RTT sample relayed
   by another link widened the pull window past the current silence                          *)
PullFallOKModuloD4 ==
    [][(pulled /\ ~pulled') =>
          \/ act' \in {"Reset", "Init"}
          \/ act' = "Select" /\ ~guard
          \/ act' = "Select" /\ (~conn \/ heard)
          \/ act' = "Select" /\ PullWin > pwEng /\ ra # -1 /\ ra < PullWin]_vars

(* C12: with the guard off a decision leaves no flag, latch or pull behind *)
GuardOffClears ==
    [][(act' = "Select" /\ ~guard) => (~latched' /\ ~pulled' /\ ~gated')]_vars

(* only a decision (or a reset) ever changes the guard-private state *)
OnlySelectMoves ==
    [][(latched' # latched \/ pulled' # pulled \/ gated' # gated) => act' \in {"Select", "Reset", "Init"}]_vars
=============================================================================
