SPECIFICATION TraceSpec
CONSTANTS
  MaxLinks = 4
  Grace = 5000
  MinGapInitial = 1000
  MinGapLater = 5000
  MaxBackoff = 120000
  RejoinBound = 30000
  Period = 2200
INVARIANT RejoinsInTime
POSTCONDITION TraceAccepted
CHECK_DEADLOCK FALSE
