SPECIFICATION TraceSpec
CONSTANTS
  Tasks = {1, 2, 3, 4}
  Chans = {1, 2, 3}
  Cap <- TraceCap
  Topics = {"stats", "priority.window"}
  Exact = TRUE
INVARIANTS IdsUnique MsgTagged Ordered ReceivedIsPrefix NothingAfterUnsub ClosedPruned LiveStay
POSTCONDITION TraceAccepted
CHECK_DEADLOCK FALSE
