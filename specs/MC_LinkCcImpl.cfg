SPECIFICATION MCSpec
CONSTANTS
  TMin = 100
  TMax = 200000
  SeedOnce = TRUE
  Targets <- GridTargets
  Obss <- GridObs
  Export = FALSE
INVARIANT C16After
CHECK_DEADLOCK FALSE
