------------------------------ MODULE Trace_Hub ------------------------------
(* Trace validation for C20: schedules executed on the real SubscriptionHub    *)
(* under the manual executor (4 tasks, 3 channels, capacities 1..3 taken from  *)
(* the first line of the file), one ndjson line per atomic step with what the  *)
(* code returned / left in the channels.                                       *)
(*                                                                             *)
(* Exact = TRUE : the steps are Hub.tla's own actions (any difference is       *)
(*                MODEL-DRIFT).                                                *)
(* Exact = FALSE: the property-level hub -- the most general hub that keeps    *)
(*                every clause of C20.  It may drop an event although there is *)
(*                room, serve the subscriptions of one fan-out in any order,   *)
(*                and prune closed subscribers at any earlier critical         *)
(*                section; it may not deliver to anything but the registered,  *)
(*                not yet unsubscribed entries of the topic, not lose a live   *)
(*                entry, not keep an entry a completed publish found closed,   *)
(*                not reuse an id, and a publish step always completes.  A     *)
(*                recorded line no such hub can produce rejects the trace.     *)
EXTENDS Hub, Json, IOUtils, TLC

CONSTANT Exact

Rec == ndJsonDeserialize(IOEnv.TRACE)
TraceCap == Rec[1].cap          \* Cap <- TraceCap: all runs of one file share the capacities

VARIABLE i

TraceInit == Init /\ i = 1

NewRun ==
    /\ entries' = <<>> /\ nextId' = 0
    /\ buf' = [c \in Chans |-> <<>>] /\ closed' = [c \in Chans |-> FALSE]
    /\ pc' = [t \in Tasks |-> IdlePc]
    /\ pubs' = <<>> /\ subs' = <<>>
    /\ enq' = [c \in Chans |-> <<>>] /\ rcv' = [c \in Chans |-> 0]
    /\ found' = {} /\ ret' = [k |-> "init"]

(* ------------------- the property-level hub (Exact = FALSE) ------------------- *)
ClosedIds(es) == {es[k].id : k \in {j \in DOMAIN es : closed[es[j].ch]}}
(* any closed subscribers may go at any critical section; `must` has to *)
Loose(es, must) == \E R \in SUBSET ClosedIds(es) : entries' = Without(es, R \cup must)

RInsert(t) ==
    /\ pc[t].k = "sub"
    /\ Loose(Append(entries, [id |-> pc[t].id, topic |-> pc[t].topic, ch |-> pc[t].ch]), {})
    /\ pc' = [pc EXCEPT ![t] = IdlePc]
    /\ subs' = [subs EXCEPT ![pc[t].id + 1].ins = Len(pubs)]
    /\ ret' = [k |-> "id", id |-> pc[t].id]
    /\ UNCHANGED <<nextId, buf, closed, pubs, enq, rcv, found>>

RUnsub(t, id) ==
    /\ pc[t].k = "idle" /\ Returned(id)
    /\ Loose(Without(entries, {id}), {})
    /\ ret' = [k |-> "removed", removed |-> (id \in EntryIds)]
    /\ subs' = [subs EXCEPT ![id + 1].unsub = IF @ = -1 THEN Len(pubs) ELSE @]
    /\ UNCHANGED <<nextId, buf, closed, pc, pubs, enq, rcv, found>>

RECURSIVE Inj(_, _)     \* the sequences of n distinct elements of S
Inj(S, n) == IF n = 0 THEN {<<>>} ELSE UNION {{<<x>> \o s : s \in Inj(S \ {x}, n - 1)} : x \in S}

(* who may be served by a fan-out of `topic` on channel c: the registered entries of the topic *)
Eligible(topic, c) == {entries[k].id : k \in {j \in DOMAIN entries :
                          entries[j].topic = topic /\ entries[j].ch = c /\ ~closed[c]}}

(* one sequence of distinct eligible ids per channel 1..k, of the logged lengths (Chans = 1..NC) *)
RECURSIVE Choices(_, _, _)
Choices(k, topic, newq) ==
    IF k = 0 THEN {<<>>}
    ELSE {Append(f, s) : f \in Choices(k - 1, topic, newq),
                         s \in Inj(Eligible(topic, k), newq[k] - Len(buf[k]))}

RFanout(t, topic, newq) ==      \* newq: the logged queue lengths after the step
    /\ pc[t].k = "idle"
    /\ LET n == Len(pubs) + 1
           d(c) == newq[c] - Len(buf[c])
           must == {entries[k].id : k \in {j \in DOMAIN entries : entries[j].topic = topic /\ closed[entries[j].ch]}}
       IN /\ \A c \in Chans : d(c) >= 0 /\ d(c) <= Cardinality(Eligible(topic, c)) /\ newq[c] <= Cap[c]
          /\ \E f \in Choices(Cardinality(Chans), topic, newq) :
               LET new(c) == [k \in 1..d(c) |-> [id |-> f[c][k], topic |-> topic, n |-> n]] IN
               /\ buf' = [c \in Chans |-> buf[c] \o new(c)]
               /\ enq' = [c \in Chans |-> enq[c] \o new(c)]
          /\ pc' = [pc EXCEPT ![t] = [IdlePc EXCEPT !.k = "pub", !.topic = topic, !.n = n, !.prune = must]]
    /\ Loose(entries, {})
    /\ pubs' = Append(pubs, topic)
    /\ ret' = [k |-> "at", at |-> "publish:after_fanout"]
    /\ UNCHANGED <<nextId, closed, subs, rcv, found>>

RPrune(t) ==
    /\ pc[t].k = "pub"
    /\ Loose(entries, pc[t].prune)
    /\ found' = found \cup pc[t].prune
    /\ pc' = [pc EXCEPT ![t] = IdlePc]
    /\ ret' = [k |-> "done"]
    /\ UNCHANGED <<nextId, buf, closed, pubs, subs, enq, rcv>>

(* ------------------------------ binding the log ------------------------------ *)
SameRet(x) ==       \* the logged return value against ret'
    /\ x.k = ret'.k
    /\ x.k = "at" => x.at = ret'.at
    /\ x.k = "id" => x.id = ret'.id
    /\ x.k = "removed" => x.removed = ret'.removed
    /\ x.k = "msg" => (x.msg.id = ret'.msg.id /\ x.msg.topic = ret'.msg.topic /\ x.msg.n = ret'.msg.n)

ObsOK(r) ==
    /\ r.viol = <<>>                       \* the harness's own monitor saw nothing (malformed line, foreign id ...)
    /\ SameRet(r.r)
    /\ Len(entries') = r.len
    /\ \A c \in Chans : Len(buf'[c]) = r.q[c]

DrainOK(r) ==
    /\ r.viol = <<>>
    /\ r.len = Len(entries)
    /\ \A c \in Chans :
         /\ Len(r.bufs[c]) = Len(buf[c])
         /\ \A k \in 1..Len(buf[c]) : /\ r.bufs[c][k].id = buf[c][k].id /\ r.bufs[c][k].n = buf[c][k].n
                                      /\ r.bufs[c][k].topic = buf[c][k].topic
    /\ Len(r.p) = nextId
    /\ \A k \in 1..nextId : r.p[k] = ((k - 1) \in EntryIds)

TraceNext ==
    /\ i <= Len(Rec)
    /\ i' = i + 1
    /\ LET r == Rec[i] IN
       \/ r.ev = "Init" /\ NewRun
       \/ r.ev = "AllocId" /\ r.id = nextId /\ AllocId(r.t, r.topic, r.ch) /\ ObsOK(r)
       \/ r.ev = "Insert" /\ (IF Exact THEN Insert(r.t) ELSE RInsert(r.t)) /\ ObsOK(r)
       \/ r.ev = "Unsub" /\ (IF Exact THEN Unsub(r.t, r.id) ELSE RUnsub(r.t, r.id)) /\ ObsOK(r)
       \/ r.ev = "Fanout" /\ r.n = Len(pubs) + 1
            /\ (IF Exact THEN Fanout(r.t, r.topic) ELSE RFanout(r.t, r.topic, r.q)) /\ ObsOK(r)
       \/ r.ev = "Prune" /\ (IF Exact THEN Prune(r.t) ELSE RPrune(r.t)) /\ ObsOK(r)
       \/ r.ev = "Recv" /\ Recv(r.c) /\ ObsOK(r)
       \/ r.ev = "Close" /\ Close(r.c) /\ ObsOK(r)
       \/ r.ev = "Drain" /\ DrainOK(r) /\ UNCHANGED vars
       \* a subscribe / unsubscribe that does not return says nothing about C20 (the harness ends the run
       \* there); a publish step that does not return has no counterpart at all and rejects the trace
       \/ ~Exact /\ r.ev \in {"AllocId", "Insert", "Unsub"} /\ r.r.k = "blocked" /\ r.viol = <<>> /\ UNCHANGED vars
       \* a scheduling point that turns out to sit inside a critical section: the step structure of this
       \* module does not apply to that code (the harness ends the run there)
       \/ ~Exact /\ r.ev \in {"AllocId", "Fanout"} /\ r.r.k = "at-inside-lock" /\ r.viol = <<>> /\ UNCHANGED vars

TraceSpec == TraceInit /\ [][TraceNext]_<<vars, i>>

TraceAccepted ==
    LET d == TLCGet("stats").diameter IN
    IF d - 1 = Len(Rec) THEN TRUE
    ELSE /\ PrintT(<<"TRACE-REJECTED", d, ToJson(Rec[d])>>)
         /\ FALSE
=============================================================================
