SPECIFICATION TraceSpec
CONSTANTS
  Exact = FALSE
POSTCONDITION TraceAccepted
CHECK_DEADLOCK FALSE
