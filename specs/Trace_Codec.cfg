SPECIFICATION TraceSpec
CONSTANTS
  Cap = 1000
  Exact = FALSE
POSTCONDITION TraceAccepted
CHECK_DEADLOCK FALSE
