"""Shared machinery for /verif/bin/check: building the harness, running TLC
(model checking, behaviour export piped into `vh replay`, trace validation of
`vh record` output), evidence files, known findings, exit codes."""

import fcntl
import json
import os
import re
import subprocess
import sys
import time

VERIF = os.path.dirname(os.path.dirname(os.path.abspath(__file__)))
SPECS = os.path.join(VERIF, "specs")
# VERIF_HARNESS / VERIF_OUT exist so that seeded changes can be checked against a scratch copy of the
# repository without touching /repo, /verif/evidence or a concurrently running check.
HARNESS = os.environ.get("VERIF_HARNESS", os.path.join(VERIF, "harness"))
OUT = os.environ.get("VERIF_OUT", VERIF)
WORK = os.path.join(OUT, "work")
REPLAYS = os.path.join(OUT, "replays")
EVIDENCE = os.path.join(OUT, "evidence")
VH = os.path.join(HARNESS, "target", "debug", "vh")
TLA_CP = "/opt/veriftools/tla/tla2tools.jar:/opt/veriftools/tla/CommunityModules-deps.jar"

for d in (WORK, REPLAYS, EVIDENCE):
    os.makedirs(d, exist_ok=True)


class ToolError(Exception):
    pass


def log(msg):
    print(f"[check] {msg}", flush=True)


# --------------------------------------------------------------------------
# harness build
# --------------------------------------------------------------------------

def build_harness():
    """cargo build of `vh` against /repo's current working tree (path deps:
    cargo notices edited sources). Serialised across concurrent checks."""
    t0 = time.time()
    lock = open(os.path.join(WORK, "build.lock"), "w")
    fcntl.flock(lock, fcntl.LOCK_EX)
    try:
        env = dict(os.environ)
        env["CARGO_NET_OFFLINE"] = "true"
        p = subprocess.run(
            ["cargo", "build", "--offline", "--quiet"],
            cwd=HARNESS, env=env, stdout=subprocess.PIPE, stderr=subprocess.STDOUT, text=True,
        )
        if p.returncode != 0:
            tail = "\n".join(p.stdout.splitlines()[-40:])
            raise ToolError("harness build failed (does /repo compile with --features verif-hooks?):\n" + tail)
    finally:
        fcntl.flock(lock, fcntl.LOCK_UN)
        lock.close()
    return time.time() - t0


# --------------------------------------------------------------------------
# TLC
# --------------------------------------------------------------------------

def _java(jvm_opts):
    return ["java", "-XX:+UseParallelGC"] + jvm_opts + ["-cp", TLA_CP, "tlc2.TLC"]


def workers_default(tier):
    w = os.environ.get("VERIF_TLC_WORKERS")
    if w:
        return int(w)
    return 8 if tier == "quick" else 16


_RE_STATES = re.compile(r"(\d+) states generated, (\d+) distinct states found, (\d+) states left on queue")
_RE_DEPTH = re.compile(r"The depth of the complete state graph search is (\d+)")
_RE_ERR = re.compile(r"^Error: (.*)$")
_RE_COV = re.compile(r"^<(\w+) line (\d+), col (\d+) to line (\d+), col (\d+) of module (\w+)>: (\d+):(\d+)")


def parse_tlc(text):
    r = {"ok": False, "generated": 0, "distinct": 0, "queue": 0, "depth": 0, "errors": [],
         "violated": None, "actions": {}}
    lines = text if isinstance(text, list) else text.splitlines()
    for ln in lines:
        m = _RE_STATES.search(ln)
        if m:
            r["generated"], r["distinct"], r["queue"] = int(m.group(1)), int(m.group(2)), int(m.group(3))
        m = _RE_DEPTH.search(ln)
        if m:
            r["depth"] = int(m.group(1))
        m = _RE_ERR.match(ln)
        if m:
            r["errors"].append(m.group(1))
            mm = re.search(r"Invariant (\w+) is violated", ln) or re.search(r"Action property (\w+) is violated", ln) \
                or re.search(r"property (\w+) (?:is|was) violated", ln)
            if mm and not r["violated"]:
                r["violated"] = mm.group(1)
            if "Temporal properties were violated" in ln and not r["violated"]:
                r["violated"] = "temporal"
        m = _RE_COV.match(ln)
        if m:
            name = m.group(1)
            r["actions"][name] = r["actions"].get(name, 0) + int(m.group(7))
        if "Model checking completed. No error has been found." in ln:
            r["ok"] = True
    return r


def run_tlc(module, cfg, tier, tag, workers=None, timeout=600, jvm=None, extra=None, env_extra=None,
            coverage=False):
    """Run TLC on specs/<module>.tla with specs/<cfg>; returns (parsed, text)."""
    meta = os.path.join(WORK, f"tlc_{tag}_{os.getpid()}")
    cmd = _java(jvm or ["-Xmx12g"]) + ["-workers", str(workers or workers_default(tier)), "-metadir", meta,
                                         "-cleanup", "-noGenerateSpecTE", "-config", cfg]
    if coverage:
        cmd += ["-coverage", "1"]
    cmd += (extra or []) + [module + ".tla"]
    env = dict(os.environ)
    env.update(env_extra or {})
    t0 = time.time()
    try:
        p = subprocess.run(cmd, cwd=SPECS, env=env, stdout=subprocess.PIPE, stderr=subprocess.STDOUT,
                           text=True, timeout=timeout)
    except subprocess.TimeoutExpired:
        subprocess.run(["rm", "-rf", meta])
        raise ToolError(f"TLC timed out after {timeout}s on {module}/{cfg}")
    subprocess.run(["rm", "-rf", meta])
    out = p.stdout
    with open(os.path.join(WORK, f"tlc_{tag}.log"), "w") as f:
        f.write(out)
    r = parse_tlc(out)
    r["wall_s"] = round(time.time() - t0, 1)
    r["cmd"] = " ".join(cmd[cmd.index("tlc2.TLC"):])
    if not r["ok"] and not r["errors"] and "TRACE-REJECTED" not in out:
        raise ToolError(f"TLC did not finish on {module}/{cfg}; see work/tlc_{tag}.log\n" +
                        "\n".join(out.splitlines()[-15:]))
    return r, out


def tlc_counterexample(text):
    """The `State n:` blocks of a TLC error trace as a list of strings."""
    states, cur = [], None
    for ln in text.splitlines():
        if re.match(r"^State \d+:", ln):
            if cur is not None:
                states.append("\n".join(cur))
            cur = [ln]
        elif cur is not None:
            if ln.strip() == "" or re.match(r"^\d+ states generated", ln):
                states.append("\n".join(cur))
                cur = None
            else:
                cur.append(ln)
    if cur:
        states.append("\n".join(cur))
    return states


def export_replay(module, cfg, engine, tier, tag, seed=0, stride=1, timeout=900, last_only=False,
                  vh_args=None, tlc_workers=1):
    """`tlc -workers 1 <export cfg> | vh replay <engine>`: every transition TLC
    generates becomes one behaviour replayed against the real code."""
    meta = os.path.join(WORK, f"tlc_{tag}_{os.getpid()}")
    # one worker keeps "one line per transition, shortest path first"; exports whose lines are independent vectors
    # (level-wise input spaces) may use more
    tlc_cmd = _java(["-Xmx16g" if tlc_workers > 1 else "-Xmx8g"]) + ["-workers", str(tlc_workers), "-metadir", meta, "-cleanup", "-noGenerateSpecTE",
                                   "-config", cfg, module + ".tla"]
    vh_cmd = [VH, "replay", engine, "--seed", str(seed), "--stride", str(stride)] + (vh_args or [])
    if last_only:
        vh_cmd.append("--last-only")
    vh_cmd.append("-")
    t0 = time.time()
    tlc = subprocess.Popen(tlc_cmd, cwd=SPECS, stdout=subprocess.PIPE, stderr=subprocess.STDOUT)
    vh = subprocess.Popen(vh_cmd, stdin=tlc.stdout, stdout=subprocess.PIPE, stderr=subprocess.PIPE, text=True)
    tlc.stdout.close()
    try:
        out, err = vh.communicate(timeout=timeout)
    except subprocess.TimeoutExpired:
        tlc.kill()
        vh.kill()
        subprocess.run(["rm", "-rf", meta])
        raise ToolError(f"export/replay timed out after {timeout}s on {module}/{cfg}")
    tlc.wait()
    subprocess.run(["rm", "-rf", meta])
    if vh.returncode != 0:
        raise ToolError(f"vh replay {engine} failed: {err[-2000:]}")
    try:
        res = json.loads(out.strip().splitlines()[-1])
    except Exception as e:
        raise ToolError(f"vh replay {engine}: unparsable output: {e}: {out[-500:]}")
    res["tlc"] = parse_tlc(res.get("tlc_tail", []))
    res["wall_s"] = round(time.time() - t0, 1)
    if not res["tlc"]["ok"] and not res["tlc"]["errors"]:
        raise ToolError(f"TLC export did not finish on {module}/{cfg}: " + "\n".join(res.get("tlc_tail", [])[-15:]))
    return res


def record(engine, seed, runs, steps, out_path, extra=None, env_extra=None):
    cmd = [VH, "record", engine, "--seed", str(seed), "--runs", str(runs), "--steps", str(steps),
           "--out", out_path] + (extra or [])
    env = dict(os.environ)
    env.update(env_extra or {})
    p = subprocess.run(cmd, stdout=subprocess.PIPE, stderr=subprocess.PIPE, text=True, timeout=1800, env=env)
    if p.returncode != 0:
        raise ToolError(f"vh record {engine} failed: {p.stderr[-2000:]}")
    return json.loads(p.stdout.strip().splitlines()[-1])


_RE_REJ = re.compile(r'<<"TRACE-REJECTED", (\d+), "(.*)">>')


def validate_trace(module, cfg, trace_path, tag, timeout=900, workers=1, extra_env=None):
    """TLC trace validation: accepted iff the POSTCONDITION holds (whole trace
    consumed) and no invariant / action property of the spec is violated."""
    meta = os.path.join(WORK, f"tlc_{tag}_{os.getpid()}")
    env = dict(os.environ)
    env["TRACE"] = trace_path
    env.update(extra_env or {})
    cmd = _java(["-Xss1g", "-Xmx8g", "-Dtlc2.tool.queue.IStateQueue=StateDeque"]) + \
        ["-workers", str(workers), "-metadir", meta, "-cleanup", "-noGenerateSpecTE", "-config", cfg,
         module + ".tla"]
    t0 = time.time()
    try:
        p = subprocess.run(cmd, cwd=SPECS, env=env, stdout=subprocess.PIPE, stderr=subprocess.STDOUT,
                           text=True, timeout=timeout)
    except subprocess.TimeoutExpired:
        subprocess.run(["rm", "-rf", meta])
        raise ToolError(f"trace validation timed out after {timeout}s on {module}")
    subprocess.run(["rm", "-rf", meta])
    out = p.stdout
    with open(os.path.join(WORK, f"tlc_{tag}.log"), "w") as f:
        f.write(out)
    r = parse_tlc(out)
    r["wall_s"] = round(time.time() - t0, 1)
    r["accepted"] = r["ok"]
    r["rejected_at"] = None
    # a trace spec may accept a step only by way of a specific, separately recorded finding and say so
    r["finding_hits"] = {}
    for m in re.finditer(r'<<"KNOWN-FINDING-HIT", "([^"]+)">>', out):
        r["finding_hits"][m.group(1)] = r["finding_hits"].get(m.group(1), 0) + 1
    m = _RE_REJ.search(out)
    if m:
        r["rejected_at"] = int(m.group(1))
        r["rejected_event"] = m.group(2).replace('\\"', '"').replace("\\\\", "\\")
    if not r["ok"] and not r["errors"]:
        raise ToolError(f"trace validation did not finish on {module}; see work/tlc_{tag}.log\n" +
                        "\n".join(out.splitlines()[-15:]))
    # a failure of the tool chain itself (specification does not parse, TLC cannot evaluate a step, e.g. because a
    # logged field is missing) is not a verdict about the code
    if not r["ok"] and r["rejected_at"] is None and not r.get("violated") and re.search(
            r"Parsing or semantic analysis failed|TLC threw an unexpected exception|unable to fingerprint|"
            r"Attempted to (access|apply|select|check|compare)|was not in the domain|java\.lang\.", out):
        raise ToolError(f"TLC could not evaluate {module} on the recorded trace; see work/tlc_{tag}.log\n" +
                        "\n".join(l for l in out.splitlines() if "rror" in l)[:1500])
    return r



# --------------------------------------------------------------------------
# what a reading control client of the real loop was pushed, as traces of the component specifications
# --------------------------------------------------------------------------

def _stats_samples(src):
    """(run start marker | (t, links)) of the first reading client's stats lines of a loopsim trace"""
    with open(src) as f:
        for line in f:
            r = json.loads(line)
            if r.get("ev") == "Init":
                yield None
            for p in r.get("pub", []):
                if "st" in p:
                    yield (p["t"], p["st"]["links"])


def same_trace(src, dst):
    """the recording itself, for a further specification that reads other fields of the same lines"""
    n = 0
    with open(src) as f, open(dst, "w") as out:
        for line in f:
            out.write(line)
            n += 1
    return n


def loop_to_linkcc(src, dst):
    """one Tick line per uplink per published stats snapshot (Trace_LinkCc): the loop ticks every link's
    controller once per housekeeping pass and publishes the snapshots in the same pass"""
    n = 0
    with open(dst, "w") as out:
        present = set()
        for s in _stats_samples(src):
            if s is None:
                out.write(json.dumps({"ev": "Init"}) + "\n")
                present = set()
                continue
            t, links = s
            now = set()
            for x in links:
                l = x["l"]
                if not 1 <= l <= 4:
                    continue
                now.add(l)
                if l not in present:
                    out.write(json.dumps({"ev": "New", "l": l}) + "\n")
                # measured rate in kbit/s: the snapshot carries whole bytes/s, the controller saw bit/s
                obs = min((x["bps"] * 8 + 8) // 1000, 2_000_000)
                out.write(json.dumps({"ev": "Tick", "l": l, "now": t, "obs": obs, "st": x["st"], "T": x["T"] // 1000,
                                      "hasRtt": x["hasRtt"], "ewma": x["ewma"], "deg": x["deg"],
                                      "finite": x["finite"]}) + "\n")
                n += 1
            present = now
    return n


_REASON = {"healthy": "Healthy", "high_rtt": "Delay", "queue_building": "Delay", "no_traffic": "NoTraffic",
           "low_share": "LowShare", "bypassed": "Bypassed"}


def loop_to_weakobs(src, dst):
    """one Tick line per published stats snapshot (Trace_WeakObs): connectivity, measured rate and verdict of
    every uplink slot"""
    n = 0
    blank = {"conn": False, "lo": 0, "hi": 0, "weak": False, "reason": "None", "share": 0, "thr": 0}
    with open(dst, "w") as out:
        for s in _stats_samples(src):
            if s is None:
                out.write(json.dumps({"ev": "Init"}) + "\n")
                continue
            t, links = s
            v = [dict(blank) for _ in range(4)]
            for x in links:
                l = x["l"]
                if 1 <= l <= 4:
                    v[l - 1] = {"conn": x["connected"], "lo": x["bps"] * 8, "hi": x["bps"] * 8 + 8, "weak": x["weak"],
                                "reason": _REASON.get(x["reason"], x["reason"]), "share": x["share"], "thr": x["thr"]}
            out.write(json.dumps({"ev": "Tick", "t": t, "v": v}) + "\n")
            n += 1
    return n


def record_and_validate(engine, module, cfg, tier, tag, seed, runs, steps, chunks=1, extra=None,
                        extra_env=None, drift_cfg=None, derived=None):
    """Record `chunks` independent trace files from the real code and validate
    each with TLC. Returns (summary, first_rejection or None).
    derived: [(convert(src, dst) -> lines, module, cfg)]: views of the same recording that are validated against
    further specifications (a rejection there is reported with that module's name)."""
    total_events, total_states = 0, 0
    counters = {}
    samples = []
    drift_notes = []
    finding_hits = {}
    wall = 0.0
    for c in range(chunks):
        path = os.path.join(WORK, f"trace_{tag}_{c}.ndjson")
        rec = record(engine, seed * 1000 + c, runs, steps, path, extra, env_extra=extra_env)
        total_events += rec["events"]
        for k, v in rec.get("counters", {}).items():
            if isinstance(v, (int, float)):
                counters[k] = counters.get(k, 0) + v
        if rec.get("panics", 0) > 0:
            log(f"{engine}: {rec['panics']} panic(s) in the code under test during recording")
        if not samples:
            with open(path) as f:
                for _ in range(6):
                    ln = f.readline()
                    if ln:
                        samples.append(json.loads(ln))
        v = validate_trace(module, cfg, path, f"{tag}_{c}", extra_env=extra_env)
        wall += v["wall_s"]
        for k, cnt in v.get("finding_hits", {}).items():
            finding_hits[k] = finding_hits.get(k, 0) + cnt
        if v["accepted"] and drift_cfg:
            dv = validate_trace(module, drift_cfg, path, f"{tag}_{c}_exact", extra_env=extra_env)
            wall += dv["wall_s"]
            if not dv["accepted"]:
                drift_notes.append({"line": dv["rejected_at"], "event": dv.get("rejected_event")})
        total_states += v["distinct"]
        vmod = module
        if v["accepted"]:
            for k, (conv, dmod, dcfg) in enumerate(derived or []):
                dpath = os.path.join(WORK, f"trace_{tag}_{c}_d{k}.ndjson")
                lines = conv(path, dpath)
                counters[f"derived_lines_{dmod}"] = counters.get(f"derived_lines_{dmod}", 0) + lines
                dv = validate_trace(dmod, dcfg, dpath, f"{tag}_{c}_d{k}", extra_env=extra_env)
                wall += dv["wall_s"]
                total_states += dv["distinct"]
                if not dv["accepted"]:
                    v, vmod = dv, dmod
                    subprocess.run(["cp", dpath, os.path.join(REPLAYS, f"{tag}_seed{seed}_chunk{c}_{dmod}.ndjson")])
                    break
                os.remove(dpath)
        if not v["accepted"]:
            keep = os.path.join(REPLAYS, f"{tag}_seed{seed}_chunk{c}.ndjson")
            subprocess.run(["cp", path, keep])
            return ({"events": total_events, "runs": runs * (c + 1), "states": total_states,
                     "counters": counters, "samples": samples, "wall_s": wall, "finding_hits": finding_hits},
                    {"trace": keep, "line": v["rejected_at"], "event": v.get("rejected_event"),
                     "violated": v["violated"], "errors": v["errors"], "module": vmod})
        os.remove(path)
    return ({"events": total_events, "runs": runs * chunks, "states": total_states, "counters": counters,
             "samples": samples, "wall_s": wall, "drift": drift_notes, "finding_hits": finding_hits}, None)


# --------------------------------------------------------------------------
# known findings, evidence, verdicts
# --------------------------------------------------------------------------

def known_findings():
    p = os.path.join(VERIF, "known_findings.json")
    if not os.path.exists(p):
        return {"findings": [], "fixed": []}
    with open(p) as f:
        return json.load(f)


def finding_for(prop, key):
    for f in known_findings().get("findings", []):
        if f["property"] == prop and f["key"] == key:
            return f
    return None


CURRENT = [None]


class Verdict:
    def __init__(self, prop, tier, seed, level):
        CURRENT[0] = self
        self.prop, self.tier, self.seed, self.level = prop, tier, seed, level
        self.t0 = time.time()
        self.coverage = {"states": 0, "transitions": 0, "traces_validated_against_impl": 0, "samples": [],
                         "exhaustive": False, "parts": []}
        self.assumptions = []
        self.drifts = []
        self.violations = []   # (key, what, replay_payload)
        self.known = []
        self.vacuities = []

    def add_model(self, name, r, exhaustive=True, note=None):
        self.coverage["states"] += r["distinct"]
        self.coverage["transitions"] += r["generated"]
        part = {"part": name, "kind": "tlc-model-check", "distinct_states": r["distinct"],
                "transitions": r["generated"], "depth": r["depth"], "wall_s": r.get("wall_s"),
                "complete": r["ok"] and r["queue"] == 0 and exhaustive}
        if note:
            part["note"] = note
        if r.get("actions"):
            part["action_counts"] = r["actions"]
        self.coverage["parts"].append(part)

    def add_replay(self, name, res):
        self.coverage["traces_validated_against_impl"] += res["cases"]
        self.coverage["parts"].append({"part": name, "kind": "spec->impl replay", "transitions_emitted": res["emitted"],
                                       "behaviours_replayed": res["cases"], "steps_executed": res["steps"],
                                       "mismatches": res["mismatch_count"], "panics": res["panic_count"],
                                       "counters": res.get("counters"), "wall_s": res.get("wall_s"),
                                       "tlc_distinct_states": res["tlc"]["distinct"]})
        for s in res.get("samples", [])[:2]:
            if len(self.coverage["samples"]) < 6:
                self.coverage["samples"].append({"from": name, "behaviour": s})

    def add_traces(self, name, summ):
        self.coverage["traces_validated_against_impl"] += summ["runs"]
        self.coverage["parts"].append({"part": name, "kind": "impl->spec trace validation",
                                       "events_validated": summ["events"], "runs": summ["runs"],
                                       "counters": summ.get("counters"), "wall_s": summ.get("wall_s")})
        if summ.get("samples") and len(self.coverage["samples"]) < 8:
            self.coverage["samples"].append({"from": name, "first_events": summ["samples"][:5]})

    def drift(self, part, what):
        self.drifts.append({"part": part, "what": what})
        print(f"MODEL-DRIFT: property={self.prop} {what}", flush=True)

    def violation(self, key, what, payload):
        f = finding_for(self.prop, key)
        if f:
            if all(k != key for k, _ in self.known):
                self.known.append((key, f["what"]))
        else:
            self.violations.append((key, what, payload))

    def finish(self):
        if self.vacuities and not self.violations:
            raise ToolError("vacuous run: " + "; ".join(self.vacuities))
        wall = round(time.time() - self.t0, 1)
        cov = self.coverage
        if not cov["samples"]:
            cov["samples"] = [{"note": "no sample captured"}]
        ev = {"property_id": self.prop, "tier": self.tier, "seed": self.seed, "level": self.level,
              "coverage": cov, "assumptions": self.assumptions, "wall_s": wall,
              "violations": len(self.violations)}
        if self.drifts:
            ev["model_drift"] = self.drifts
        if self.known:
            ev["known_findings_reproduced"] = [k for k, _ in self.known]
        with open(os.path.join(EVIDENCE, f"{self.prop}.json"), "w") as f:
            json.dump(ev, f, indent=1)
        for key, what in self.known:
            print(f"KNOWN-FINDING: property={self.prop} {what} [{key}]", flush=True)
        if self.violations:
            for n, (key, what, payload) in enumerate(self.violations[:3]):
                path = os.path.join(REPLAYS, f"{self.prop}_{self.tier}_seed{self.seed}_{n}.json")
                with open(path, "w") as f:
                    json.dump({"property": self.prop, "key": key, "what": what, "detail": payload}, f, indent=1)
                log(f"violation [{key}]: {what}")
                print(f"VIOLATION property={self.prop} replay={path}", flush=True)
            return 1
        log(f"{self.prop} {self.tier}: held on everything explored "
            f"({cov['states']} states, {cov['transitions']} transitions, "
            f"{cov['traces_validated_against_impl']} behaviours bound to the code) in {wall}s")
        return 0


def slug(s):
    return re.sub(r"[^A-Za-z0-9]+", "_", s)[:40].strip("_")


def vacuous(msg):
    """A part that ran without exercising what it is there for decides nothing.  The complaint is kept until the
    check is over: a later part may still find a violation (a change to the code can be what silenced a counter),
    and a violation wins; with none, the run ends as a tool error."""
    v = CURRENT[0]
    if v is None:
        raise ToolError("vacuous run: " + msg)
    log("vacuous part (decided at the end of the check): " + msg)
    v.vacuities.append(msg)


def model_check_part(v, name, module, cfg, tier, key_prefix, workers=None, timeout=900, exhaustive=True,
                     note=None, coverage=False, extra=None):
    """Run TLC on a bounded model; an invariant/property violation on the model
    is a design-level violation of the property (the model is bound to the code
    by the replay/trace parts of the same check)."""
    r, out = run_tlc(module, cfg, tier, f"{v.prop}_{slug(name)}", workers=workers, timeout=timeout,
                     coverage=coverage, extra=extra)
    v.add_model(name, r, exhaustive=exhaustive, note=note)
    if r["errors"]:
        ce = tlc_counterexample(out)
        v.violation(f"{key_prefix}/{r['violated'] or 'error'}",
                    f"TLC: {r['errors'][0]} in {module}/{cfg}",
                    {"module": module, "cfg": cfg, "errors": r["errors"], "counterexample": ce[-12:]})
    return r


def replay_part(v, name, module, cfg, engine, tier, key_prefix, stride=1, timeout=1200, last_only=False,
                vh_args=None, min_cases=1, count_model=False, tlc_workers=1):
    res = export_replay(module, cfg, engine, tier, f"{v.prop}_{slug(name)}", seed=v.seed, stride=stride,
                        timeout=timeout, last_only=last_only, vh_args=vh_args, tlc_workers=tlc_workers)
    v.add_replay(name, res)
    if count_model:
        # the export run also evaluated the cfg's invariants on every state it generated
        v.coverage["states"] += res["tlc"]["distinct"]
        v.coverage["transitions"] += res["tlc"]["generated"]
        v.coverage["parts"][-1]["invariants_checked_by_tlc_in_same_run"] = True
    if res["tlc"]["errors"]:
        v.violation(f"{key_prefix}/model/{res['tlc']['violated'] or 'error'}",
                    f"TLC: {res['tlc']['errors'][0]} in {module}/{cfg}", {"errors": res["tlc"]["errors"]})
    if res["cases"] < min_cases:
        vacuous(f"{name}: only {res['cases']} behaviours exported")
    for key, f in (res.get("findings") or {}).items():
        v.violation(key, f"{f['count']} behaviour(s) of the real code break the property in the specific way "
                         f"`{key}`; first: {json.dumps(f['first'])[:500]}", f)
    if res.get("drift_count"):
        first = res["drifts"][0] if res.get("drifts") else {}
        v.drift(name, f"{res['drift_count']} behaviour(s) keep the property but differ from the code-shaped model "
                      f"{module}; first: {json.dumps(first)[:500]}")
    if res["mismatch_count"] or res["panic_count"]:
        first = res["mismatches"][0] if res["mismatches"] else {}
        kind = "panic" if "panic" in first else "mismatch"
        v.violation(f"{key_prefix}/replay/{kind}",
                    f"real code deviates from {module} on {res['mismatch_count']} behaviour(s), "
                    f"{res['panic_count']} panic(s); first: {json.dumps(first)[:600]}",
                    {"engine": engine, "module": module, "cfg": cfg, "mismatches": res["mismatches"]})
    return res


def trace_part(v, name, engine, module, cfg, tier, key_prefix, runs, steps, chunks=1, extra=None,
               extra_env=None, drift_cfg=None, derived=None):
    summ, rej = record_and_validate(engine, module, cfg, tier, f"{v.prop}_{slug(name)}", v.seed, runs, steps,
                                    chunks=chunks, extra=extra, extra_env=extra_env, drift_cfg=drift_cfg,
                                    derived=derived)
    v.add_traces(name, summ)
    for key, cnt in (summ.get("finding_hits") or {}).items():
        v.violation(key, f"{cnt} step(s) of recorded behaviours of the real code are explained only by the specific "
                         f"deviation `{key}`", {"module": module, "count": cnt})
    if summ.get("drift"):
        v.drift(name, f"recorded behaviour satisfies the property but differs from the code-shaped model "
                      f"{module} at line {summ['drift'][0]['line']}: {(summ['drift'][0].get('event') or '')[:300]}")
    if rej:
        module = rej.get("module") or module
        what = (f"recorded behaviour of the real code rejected by {module} at line {rej['line']}: "
                f"{(rej.get('event') or '')[:400]}")
        if rej.get("violated"):
            what = f"{module}: {rej['violated']} violated on a recorded behaviour of the real code"
        v.violation(f"{key_prefix}/trace/{rej.get('violated') or 'rejected'}", what, rej)
    return summ
