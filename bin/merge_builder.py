#!/usr/bin/env python3
"""merge_builder.py <ID> <engine_name> <EngineType> : merge a builder copy /tmp/build_<ID>/verif into /verif."""
import sys, re, shutil, glob, os
ID, eng, typ = sys.argv[1:4]
src = f"/tmp/build_{ID}/verif"
# 1. new spec files and the engine
base_specs = set(os.listdir("/verif/specs"))
for f in os.listdir(f"{src}/specs"):
    if f not in base_specs or f.lower().startswith(tuple(x.lower() for x in sys.argv[4:])):
        if os.path.isfile(f"{src}/specs/{f}") and (f not in base_specs):
            shutil.copy(f"{src}/specs/{f}", f"/verif/specs/{f}")
            print("spec", f)
shutil.copy(f"{src}/harness/src/engines/{eng}.rs", f"/verif/harness/src/engines/{eng}.rs")
# 2. mod.rs / main.rs
m = open("/verif/harness/src/engines/mod.rs").read()
if f"pub mod {eng};" not in m:
    open("/verif/harness/src/engines/mod.rs", "a").write(f"pub mod {eng};\n")
mn = open("/verif/harness/src/main.rs").read()
arm = f'        "{eng}" => run_engine(engines::{eng}::{typ}::new(), mode, rest),\n'
if arm not in mn:
    mn = mn.replace("        _ => {\n            eprintln!(\"unknown engine {engine}\");", arm + "        _ => {\n            eprintln!(\"unknown engine {engine}\");")
    open("/verif/harness/src/main.rs", "w").write(mn)
# 3. bin/check block: from the '# ---...--- <ID> ---' header (or def check_<ID>) up to the next top-level header / CHECKS
c = open(f"{src}/bin/check").read()
start = c.find(f"# ---------------------------------------------------------------- {ID} ------")
if start < 0:
    start = c.rfind("\n\n", 0, c.find(f"def check_{ID}(")) + 2
end = c.find("CHECKS = {name[6:]", start)
nxt = re.search(r"\n# -{20,} (?!%s)" % ID, c[start + 10:end])
if nxt:
    end = start + 10 + nxt.start() + 1
block = c[start:end].rstrip() + "\n\n\n"
mine = open("/verif/bin/check").read()
if f"def check_{ID}(" not in mine:
    mine = mine.replace("CHECKS = {name[6:]", block + "CHECKS = {name[6:]")
    open("/verif/bin/check", "w").write(mine)
    print("check block merged,", block.count("\n"), "lines")
# 4. mkmanifest block
mm = open(f"{src}/bin/mkmanifest.py").read()
s = mm.find(f'CLAIMED["{ID}"] = dict(')
e = mm.find("\nPENDING = {}", s)
nx = re.search(r'\nCLAIMED\["C\d+"\] = dict\(', mm[s + 10:e])
if nx:
    e = s + 10 + nx.start()
blk = mm[s:e].rstrip() + "\n"
my = open("/verif/bin/mkmanifest.py").read()
if f'CLAIMED["{ID}"]' not in my:
    my = my.replace("\nPENDING = {}", "\n" + blk + "\nPENDING = {}")
    open("/verif/bin/mkmanifest.py", "w").write(my)
    print("manifest block merged")
