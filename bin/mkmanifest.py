#!/usr/bin/env python3
"""Regenerates /verif/MANIFEST.json from the table below (single source of
truth for which properties are claimed, at which level, by which technique)."""
import json, os, subprocess

VERIF = os.path.dirname(os.path.dirname(os.path.abspath(__file__)))

CLAIMED = {
    "C02": dict(
        engine="tlc+inflight",
        design_ref="4.2",
        technique="TLA+ refinement check (InFlightImpl => InFlight) with TLC on the complete state graph; every "
                  "TLC transition replayed on the real SrtlaConnection/shell functions; recorded random histories "
                  "of the real code validated by TLC against the set model"
              "; the UNMODIFIED event loop (run_sender_with_config on a paused clock, real sockets) recorded end to end and "
              "validated by TLC against the observer Trace_Loop.tla (the in-flight count each keepalive reports equals what left on that socket minus what the receiver has acknowledged since)"
              "; loop runs also with loss reports (nak / busy schedules), ACK lists that come back on another uplink (3 and 4 links pinned) and the in-flight count of every stats snapshot",
        text="TLC explores the complete reachable graph of the code-shaped accounting model (packet log, high-water "
             "mark, fast/slow cumulative-ACK path) and checks it refines the property's per-link set model; each "
             "transition of that graph is then executed on real connections through take_batch, "
             "process_connection_events and attribute_nak, and 20k+ event random histories at real constants are "
             "accepted by the set model only if in_flight_packets = |sent and not retired| on every link after "
             "every event.",
        note="Exhaustive for 2 links x 5 (quick) / 7 (thorough) sequence numbers; beyond that by recorded random "
             "histories (1..4 links, any non-wrapping span). Trusted: the s -> base+32*s concretisation, TLC, the "
             "JSON trace plumbing.",
    ),
}

CLAIMED["C06"] = dict(
    engine="tlc+window",
    design_ref="4.6",
    technique="TLA+ model of the window rules at the real constants, TLC one-step (inductive) exploration from every "
              "state of the range; each exported transition executed on a real SrtlaConnection; recorded timed "
              "histories validated by TLC"
              "; the UNMODIFIED event loop (run_sender_with_config on a paused clock, real sockets) recorded end to end and "
              "validated by TLC against the observer Trace_Loop.tla (a classic window never grows without ACKs, incl. after run-time mode switches)",
    text="Every C06 clause is a single-step statement about the window, so TLC takes every action of Window.tla from "
         "every state of the real range (quick: boundary windows x all age boundaries; thorough: all 59001 windows x "
         "every age class, 5e8 transitions) and checks range, direction, reset value and the fast-recovery entry/exit "
         "rules; 2e5..1.2e6 of those transitions are executed on a real connection (handle_nak, "
         "handle_srtla_ack_specific in both modes with in-flight up to i32::MAX, handle_srtla_ack_global, "
         "perform_window_recovery with both velocity classes, the resets, REG3 through process_uplink_packet) and "
         "20k-240k event random timed histories are validated against the same module.",
    note="RTT velocity is abstracted to the flag velocity > 2.0; the housekeeping rule 'classic skips recovery' is a "
         "model action here and is bound to the real housekeeping pass in the shell-level checks. Trusted: TLC, the "
         "state construction through test-internals fields.",
)

SEL_NOTE = ("Exhaustive over the enumerated vectors (admission bits x mode x guard x previous index; numerics from a "
            "boundary grid); bits the code only uses as disjunctions are expanded by the replay, the many concrete "
            "ways of being (not) timed out are sampled per vector from a seed. Trusted: TLC, the materialisation "
            "of a vector as real connections through test-internals fields and the verif-hooks setters.")

CLAIMED["C03"] = dict(
    engine="tlc+selection", design_ref="4.3",
    technique="TLA+ transcription of the decision pipeline (Selection.tla); TLC evaluates NoBlackout / "
              "LastUsableNeverGated on every vector of the enumerated input space; every vector replayed on the real "
              "select_connection_idx"
              "; the UNMODIFIED event loop (run_sender_with_config on a paused clock, real sockets) recorded end to end and "
              "validated by TLC against the observer Trace_Loop.tla (while an uplink is usable nothing accepted is dropped: on the wire within a flush tick, in schedules where the stall guard demonstrably engages)",
    text="The selector's input space (phase x connected x timed-out x latch/pull x weak/loss-degraded x in-flight "
         "cap x score grid, both modes, guard on/off, every previous index, 1-2 links exhaustively, 3 links in the "
         "thorough tier) is enumerated by TLC, which checks that the specification never drops a packet while a "
         "usable link exists; each vector is materialised as real connections (several timeout settings, stale "
         "mirrored timeouts) and the real selector must not return None / gate the last usable link where the "
         "specification does not.",
    note=SEL_NOTE)
CLAIMED["C11"] = dict(
    engine="tlc+selection", design_ref="4.11",
    technique="TLA+ exact-integer scoring model with tie tolerance; TLC checks stability, leave-only-if, cap precedence "
              "on every vector; every vector replayed on the real selector (called twice and with the result fed "
              "back); seeded timed histories of the real selector validated by TLC against Trace_Selection.tla "
              "(50 ms quality-cache contract, hysteresis, re-run stability, factor ranges)",
    text="Scores are exact integers in the specification (base x phase weight x quality x soft cap x gate penalty); "
         "TLC checks Stable, LeaveOnlyIf and CapNeverChosenWhileUnconstrained on every enumerated vector incl. "
         "ties, zero scores and the exact 1.10x boundary, and the real selector's answer must lie in the allowed "
         "set, repeat on an unchanged state and stay when fed back.",
    note=SEL_NOTE + " One-shot vectors stamp a fresh cache entry; staleness, the real quality function (NAK decay, "
         "bursts, RTT bonus, 30 s grace boundary) and the soft cap over time are covered by the recorded histories, "
         "where scores are compared within the rounding of the logged 1/1000 units.")
CLAIMED["C04"] = dict(
    engine="tlc+selection", design_ref="4.4",
    technique="TLA+ Selection.tla Routed/Eligible operators checked by TLC on the enumerated space x packet kind x "
              "critical window; every vector replayed through the real handle_srt_packet"
              "; the UNMODIFIED event loop (run_sender_with_config on a paused clock, real sockets) recorded end to end and "
              "validated by TLC against the observer Trace_Loop.tla (unique copies leave only from sockets REG3 has reached, on links heard from within the timeout; outage / receiver-restart / send-failure schedules); loop runs include total blackouts with an uplink that never registered: a datagram accepted once a session was established never leaves from a socket REG3 has not reached",
    text="For every enumerated link-state vector, packet kind (data / retransmit-flagged / control) and critical "
         "window state TLC checks that the routed link is eligible, and the real shell entry point handle_srt_packet "
         "is run on the materialised vector: the link whose queue received the unique copy must be registered, not "
         "timed out and not stall-gated, and probe copies may only land on gated links.",
    note=SEL_NOTE + " This is the per-decision half; fault histories through the shell loop are the Forwarding trace "
         "check (when present in the evidence parts).")
CLAIMED["C10"] = dict(
    engine="tlc+selection", design_ref="4.10",
    technique="TLA+ reference argmax (RefClassic) checked equal to the modelled classic routing by TLC on every "
              "vector; every vector replayed through the real handle_srt_packet in classic mode"
              "; the UNMODIFIED event loop (run_sender_with_config on a paused clock, real sockets) recorded end to end and "
              "validated by TLC against the observer Trace_Loop.tla (a classic window never grows without ACKs, incl. after run-time mode switches)",
    text="TLC checks that classic mode with the guard off routes every packet kind to the lowest-index usable link "
         "of maximal window div (in-flight + queued + 1); the real handle_srt_packet must pick exactly that link on "
         "every materialised vector (windows carry random remainders so equal integer quotients with different "
         "exact ratios occur).",
    note=SEL_NOTE + " Window evolution under the classic rules is bound by the Window model (C06 engine) and the "
         "closed-loop classic trace check when present in the evidence parts.")
CLAIMED["C12"] = dict(
    engine="tlc+stallguard+selection", design_ref="4.12",
    technique="TLA+ frame property (Select leaves liveness/accounting unchanged) and GuardOffClears on the StallGuard "
              "state graph; GuardOffIsBaseline on the Selection vectors; replay of every Select transition and "
              "vector on the real selector with a field-by-field projection compared around the call; the UNMODIFIED event loop (run_sender_with_config on a paused clock, real sockets) recorded end to end and validated by TLC against the observer Trace_Loop.tla (guard switched off at run time, also in the middle of an outage while the victim is latched: no link is reported latched once a datagram has been routed, engagement counters stand still); ShellSim recordings validated by TLC against Trace_ShellGuard.tla: with the guard off no flag, latch or pull is left standing after a routing decision, whichever path through the real handle_srt_packet made it (guard switched off while a link is held, followed by a retransmission)",
    text="Every Select transition of the timed stall-guard graph and every enumerated selector vector is executed "
         "on the real select_connection_idx with a projection of all liveness / accounting fields of every link "
         "taken before and after; with the guard off every flag, latch and pull must be cleared and the decision "
         "must equal the decision on the same links without stall history.",
    note="Trusted: the projection lists the fields named in the statement (connected, receive/send/keepalive stamps, "
         "window, in-flight count and log size, NAK counters, proof stamp, phase, reconnect state, queue depth). Loop part: observed through the stats lines a reading control client is pushed once per housekeeping pass (latch flag and engagement counters); the routing flag of the sub-second silence pull is not published and stays with the component parts.")
CLAIMED["C13"] = dict(
    engine="tlc+stallguard", design_ref="4.13",
    technique="TLA+ timed per-link latch/pull machine with an independent monitor of the statement; TLC on the "
              "complete state graphs; every Select transition replayed on the real selector; recorded ms-resolution "
              "histories validated by TLC against the monitor; the UNMODIFIED event loop (run_sender_with_config on a paused clock, real sockets) recorded end to end and validated by TLC against the observer Trace_Loop.tla (a latch holds for at least two staleness windows of at least one second: the published engagement counter of a link never rises twice within two consecutive stats periods on the same registration with the guard on); ShellSim recordings validated by TLC against Trace_ShellGuard.tla: a link's delivery-proof stamp is renewed only while an SRTLA ACK or a keepalive echo is processed",
    text="TLC explores the complete graph of the per-link stall machine (decisions, proofs with and without a byte, "
         "inbound bytes, load and RTT changes, disconnects, resets, guard toggles, clock steps; ceiling above and "
         "below the floor) and checks the rise / never-blind / rejoin-dwell / pull-release rules against a monitor "
         "written from the statement; 8.7e5+ Select transitions are executed on the real selector and 20k-320k "
         "event histories through the real RTT tracker are judged by the same monitor at ms resolution.",
    note="The smoothed RTT is an input. One genuine defect (pull released after an RTT-widened window) is recorded in "
         "known_findings.json and reported as KNOWN-FINDING; any other release without a byte is a violation. Loop part: a necessary consequence of the rejoin dwell only, at the 1 s resolution of the stats lines.")

CLAIMED["C17"] = dict(
    engine="tlc+weakfilter", design_ref="4.17",
    technique="TLA+ model of classify() with history-variable monitors for the five clauses; TLC on the complete "
              "2-link graph at the real constants; TLC transitions replayed on the real WeakLinkFilter; recorded tick "
              "histories validated by TLC; the UNMODIFIED event loop (run_sender_with_config on a paused clock, real sockets) recorded end to end and validated by TLC against the observer Trace_Loop.tla and its stats snapshots as verdict histories against Trace_WeakObs.tla (not weak while disconnected or under the floor, share-weak runs of at most 15 then a 3-tick probation, enter / leave thresholds), on long dense streams with an uplink that loses everything for half a minute",
    text="TLC explores the complete reachable graph of the classifier for 2 links at the real constants (15-tick "
         "probation interval, 3-tick window, 2-tick sustain; 81 inputs per tick) and checks not-weak-when-off, "
         "two-tick delay, bounded share-weak runs followed by the probation window, and the enter/leave thresholds; "
         "1.4e5 transitions (all inputs to depth 4, share-starved paths to depth 24) are executed on the real "
         "classifier incl. disconnected-but-present links and links leaving the set, and 20k-200k tick histories "
         "with rates in bit/s over 4 link slots are validated against the same module.",
    note="The delay signal is an input: the tier cascade is driven with RTTs far above / below every tier. The "
         "verdict sequence (weak, reason class, share, threshold) is compared exactly. Loop part: the classifier's delay input is not visible from outside, so the two-tick delay clause and the exact filter replay stay with the component parts.")

CLAIMED["C07"] = dict(
    engine="tlc+registration", design_ref="4.7",
    technique="TLA+ model of the registration manager with relative countdown timers; TLC on the complete state graph "
              "(no depth bound); every transition out of every manager state executed on the real manager through "
              "process_uplink_packet; recorded ms-resolution histories validated by TLC"
              "; the UNMODIFIED event loop (run_sender_with_config on a paused clock, real sockets) recorded end to end and "
              "validated by TLC against the observer Trace_Loop.tla (REG1 only while no uplink is registered and never two outstanding, adopted id broadcast on every uplink by the next pass; receiver-restart schedules)",
    text="TLC explores the complete graph of the handshake (REG_NGP / REG2 full, short, wrong-link, any id token / "
         "REG3 / REG_ERR on any link, housekeeping passes, link drops, clock steps across the 1 s / 2 s / 4 s "
         "deadlines; 2 links, 3 with the thorough tier) and checks at-most-one outstanding REG1, driver REG1 only "
         "while unregistered, REG2 acceptance and id adoption, one broadcast round per acceptance carrying the "
         "adopted id, connected only by REG3, REG_ERR cancels, abandonment after 4 s and re-acceptance; 3.2e5 "
         "transitions are executed on the real manager with real packet bytes and every emitted packet decoded "
         "back, and 40k-240k event histories at ms resolution (deadlines +-1 ms) are validated exactly.",
    note="The call order of the housekeeping pass and the timed-out re-send are replicated by the harness at this "
         "level (the real handle_housekeeping is executed by the shell-level checks). Ids are tokens.")

CLAIMED["C16"] = dict(
    engine="tlc+linkcc", design_ref="4.16",
    technique="TLA+ relational specification of the property (LinkCcRel/LinkCc) and integer transcription of tick() "
              "(LinkCcImpl) checked against it by TLC one step from every grid state; one-step edges replayed on a "
              "real LinkCongestionState; recorded controller histories validated by TLC against the relations; the UNMODIFIED event loop (run_sender_with_config on a paused clock, real sockets) recorded end to end and validated by TLC against the observer Trace_Loop.tla and its stats snapshots, one Tick line per uplink and housekeeping pass, against the same Trace_LinkCc relations and latch rule (tick_all wiring: one tick per pass and link, the right connection, the loop's clock; a lossy uplink, outages, reloads)",
    text="TLC takes the transcribed tick() from every state of a boundary grid (5 controller states x 64 targets x "
         "every input combination) and checks range, floor-until-RTT, lowered-only-by back-off (x0.85, not below the "
         "delivered rate) or drain entry (x0.75), back-off never raises, growth <= 6% and <= 2x measured after the "
         "initial seeding; 5e4 of those steps run on a real LinkCongestionState, and 30k-300k per-link ticks of the "
         "real LinkCcController over real connections (RTT through the real tracker, counter resets, 100x bursts, "
         "irregular spacing, links appearing / disappearing) are validated against the same relations plus the "
         "loss-latch rule (rise only after the average stayed above 0.55 for 4 s, clear only below 0.25).",
    note="Floating-point formulas are not proved; relations are on reported integers with unit slack. Differences "
         "from the transcription that keep every relation are MODEL-DRIFT, not violations.")

SHELL_NOTE = ("Binding = ShellSim (the real arm functions driven directly under a virtual clock with real loopback "
              "sockets; sees link internals, injects send failures / kernel back-pressure) and LoopSim (the unmodified "
              "event loop as a task on a paused tokio clock with now_ms() routed to it; observed only from its "
              "sockets, so timer periods, arm wiring and run-time configuration reads are executed for real). "
              "Trusted: the harness's frame classification by type code, the 24-bit digest, the fault injection "
              "(socket write side shut down, a 4 KiB datagram pair for back-pressure), tokio's paused-clock semantics. Loop part: the measured rate is taken from the same snapshot in whole bytes/s (within the relations' slack).")

CLAIMED["C01"] = dict(
    engine="tlc+shellsim", design_ref="4.1",
    technique="TLA+ Forwarding.tla (per-link FIFOs, Route / FlushTick / LinkReset with the property as guards) "
              "model-checked with the code's flush policy over every interleaving; ShellSim runs of the real "
              "shell validated line by line by TLC against Forwarding (wire output digest for digest, in order)"
              "; the UNMODIFIED event loop (run_sender_with_config on a paused clock, real sockets) recorded end to end and "
              "validated by TLC against the observer Trace_Loop.tla (exactly once, intact, per-link order, on the wire within one 15 ms tick; steady / outage / receiver-restart / send-failure schedules)",
    text="TLC explores every interleaving of datagrams, flush ticks, regime / status changes, link resets and send "
         "failures on the bounded model (scaled thresholds, 3-4 datagrams, 2 links, no depth bound; 1e6-8e6 states) "
         "and checks queue bound, empty-after-tick, nothing vanishes, no duplicate on a link, per-link order; "
         "32k-190k arm calls of the real shell at the real constants (1..4 links, both modes, all regimes, loss, "
         "black-holing, send failures, kernel back-pressure, re-registration) are accepted only if every captured frame sequence is "
         "exactly the queue the specification says was flushed.",
    note=SHELL_NOTE + " Short sendmmsg counts / EAGAIN inside a batch are provoked by moving one link behind a "
         "4 KiB datagram pair wrapped in the real BatchUdpSocket (loopback UDP never pushes back); the 15 ms hold bound "
         "is covered as `empty after every flush tick` at arm level and as a 15 virtual ms deadline on the real loop.")
CLAIMED["C08"] = dict(
    engine="tlc+shellsim", design_ref="4.8",
    technique="TLA+ Lifecycle.tla monitor (own record of arrivals, teardowns, environment) and a design-level "
              "MC_Lifecycle model checked by TLC; ShellSim fault / adversarial-repair schedules validated by TLC "
              "against the monitor"
              "; the UNMODIFIED event loop (run_sender_with_config on a paused clock, real sockets) recorded end to end and "
              "validated by TLC against the observer Trace_Loop.tla (socket re-created only after the configured silence or a send failure, retries >= 1 s / 5 s apart, registered again in time after repair / receiver restart / send failure); loop runs include sockets that cannot be re-opened (the loop's UplinkBinder refuses, every attempt logged with its virtual time: retries keep their distance whether they succeed or not), total blackouts, a lost first REG1, and the registration bound for uplinks whose path delivers from the start or that a reload has added",
    text="TLC checks the life-cycle design (time-out, retry spacing, REG3 rejoin, keepalive liveness, fault budget) "
         "on the complete 2-link graph incl. bounded rejoin (holds for 6 s, refuted for 4 s); recorded runs of the "
         "real housekeeping / reconnect / uplink arms under loss, black-holes, lost replies, receiver amnesia, "
         "REG_ERR, send failures and runtime timeouts 1-60 s -- with everything repaired right after the victim "
         "link's 4th retry -- must satisfy: teardown only after the configured silence (or REG_ERR / send failure), "
         "retry spacing >= 1 s / 5 s, connected only by REG3 with clean accounting, connected again within 30 s "
         "(+ the configured timeout) of a quiet, delivering path.",
    note=SHELL_NOTE + " One genuine defect (stale per-link copy of the timeout before the first selection) is a "
         "recorded known finding. Back-off <= 120 s is exercised only up to the run length.")
CLAIMED["C09"] = dict(
    engine="tlc+shellsim", design_ref="4.9",
    technique="TLA+ Relay.tla (one total Datagram action over class / length / link state with the relay, liveness "
              "and proof rules as guards) checked by TLC against the code's dispatch table; ShellSim runs with "
              "arbitrary byte strings validated by TLC against Relay"
              "; the UNMODIFIED event loop (run_sender_with_config on a paused clock, real sockets) recorded end to end and "
              "validated by TLC against the observer Trace_Loop.tla (the client receives exactly the SRT-level datagrams of each instant)",
    text="Every datagram injected on any uplink in any link state (replies of the fake receiver and seeded byte "
         "strings of 0..1500 bytes over every SRTLA / SRT type code, ACK / NAK payloads aimed at live numbers, "
         "keepalive echoes with zero / future / stale / fresh timestamps, bursts of up to 200 datagrams through "
         "drain_packet_queue) must be explained by Relay!Datagram: relayed byte-identical at least once iff not "
         "SRTLA-internal and a client is known, nothing else delivered, liveness stamp refreshed by every "
         "non-registration datagram, delivery proof only by an earned SRTLA ACK or an answered keepalive; a panic "
         "is a line no specification accepts.",
    note=SHELL_NOTE)
CLAIMED["C14"] = dict(
    engine="tlc+shellsim", design_ref="4.14",
    technique="TLA+ Keepalive.tla monitor (cadence per housekeeping pass, frame fields, independent "
              "outstanding-probe notion) and a design-level MC_Keepalive model checked by TLC; ShellSim runs "
              "validated by TLC against the monitor"
              "; the UNMODIFIED event loop (run_sender_with_config on a paused clock, real sockets) recorded end to end and "
              "validated by TLC against the observer Trace_Loop.tla (keepalive format and the 2-period cadence of the real 1 s timer)",
    text="TLC checks cadence and sampling rules on the one-link model over pass spacings 1.0 / 1.5 s and every echo "
         "kind; in the recorded runs every keepalive captured on an uplink must be a 38-byte extended frame whose "
         "10-byte head carries the pass time and whose telemetry equals the link's window / in-flight / loss count "
         "/ rate at the start of the pass, at most one pass may go by without one on a live link, and an RTT "
         "sample may be taken only from an echo of >= 10 bytes with 0 < RTT <= 10 s while a probe sent since the "
         "last echo / reset is outstanding; the smoothed RTT stays finite and non-negative.",
    note=SHELL_NOTE + " At arm level passes are 1.0-1.5 s apart in the schedules; the 1 s timer itself runs in the LoopSim part.")

CLAIMED["C15"] = dict(
    engine="tlc+codec", design_ref="4.15",
    technique="TLA+ reference codec over byte sequences (Codec.tla); TLC evaluates the bound / one-type / round-trip / "
              "layout clauses on every input of an enumerated input space and exports each input with the reference "
              "outputs for differential replay through every pub fn of crate srtla-protocol; frames decoded and built "
              "by the real code (every length 0..1500 of every type code, mutated and random frames) are re-decoded by "
              "TLC from the logged bytes; every enumerated and recorded frame is also consumed by a real SrtlaRegistrationManager that awaits REG2 on that uplink (totality at the place where the 256-byte id is decoded; accepted iff a REG2 frame of full length, adopted id = bytes 2..258)",
    text="Codec.tla defines packet type, data sequence number / retransmit flag, ParseSrtAck, ParseSrtNak (as segments, "
         "32-bit numbers as 16-bit pairs, cap 1000 on range expansion), ParseSrtlaAck, keepalive timestamp / "
         "connection info and the builders from the layouts; TLC checks on the reference that the NAK list never "
         "exceeds 1000 + #single words, that a frame has one type and that decode(build(x)) = x, cross-checks the "
         "closed-form range expansion against the literal loop, and enumerates 2.6e5 inputs (all 65536 type prefixes x "
         "body templates, all strings of length <= 4 over a boundary alphabet, every truncation of valid frames, all "
         "NAK lists of <= 4 boundary words incl. 0x80000000/0xFFFFFFFF and 998..1000 around the cap, long lists, "
         "builder arguments over boundary values) that are each run through the real decoders / builders (a panic is "
         "caught and is a violation); in the other direction 25k-200k frames processed by the real code, among them "
         "every length 0..1500 of every type code, are validated by TLC against the same module.",
    note="Totality over all strings up to 1500 bytes is exhaustive only on the enumerated families and sampled beyond "
         "(seeded); differences on ill-formed NAK loss lists (dangling start, end below start / top bit set, cut by "
         "the cap), on the retransmit flag of 5..7 byte frames and in the ACK header padding are MODEL-DRIFT, not "
         "violations. The NAK loss list is taken to start at byte 4 as the crate's own tests pin it. Trusted: TLC, "
         "the Json/SequencesExt community modules, the 16-bit pair plumbing of the harness.")

CLAIMED["C20"] = dict(
    engine="tlc+hub", design_ref="4.20",
    technique="TLA+ model of the subscription hub with one action per critical section / await point and history-"
              "variable monitors; TLC on complete bounded graphs of all interleavings; a lock-layer module refining "
              "it (FIFO async mutex, liveness with no fairness on subscribers); every TLC transition replayed on the "
              "real SubscriptionHub by a manual single-thread executor (real futures polled by hand, real bounded "
              "tokio mpsc channels, verif-hooks scheduling points); recorded random schedules validated by TLC "
              "against the property-level hub"
              "; the UNMODIFIED event loop (run_sender_with_config on a paused clock, real sockets) recorded end to end and "
              "validated by TLC against the observer Trace_Loop.tla (with subscribers that never read and a second publisher task, the loop stays live: flush deadline and keepalive cadence hold); over a real control_socket connection bursts of 2 / 5 / 40 events queued before the connection's task runs again must reach the client in publication order (Trace_SockPush.tla)",
    text="TLC explores every interleaving, at the await points, of subscribe (AllocId / Insert), unsubscribe, publish "
         "(Fanout / Prune) by 2-3 tasks and subscriber-side receive / close over 2 channels of capacity 1-2, both "
         "topics, shared channels, up to 3 subscriptions and 3 publishes (7e6-2e7 transitions), and checks unique "
         "ids, id/topic tagging, per-subscription duplicate-free publication order, nothing delivered by a fan-out "
         "that starts after unsubscribe completed, closed entries pruned by the publish that found them, live "
         "entries never removed, and that fan-out / prune are enabled whatever the channels look like; HubLock adds "
         "the mutex and shows refinement, that the lock holder never waits and that publish terminates without any "
         "fairness on subscribers (a blocking-send variant fails both, as a self-test). Every transition of the "
         "exported graphs (8.7e5 quick) is executed on the real hub: the real futures are polled in TLC's order, a "
         "publish that returns Pending anywhere but at a released scheduling point is a violation, channel "
         "contents, hub.len(), return values and (by a final drain + unsubscribe probe of every state) the exact "
         "queue contents and entry membership are compared; 3e4-2.5e5 events of seeded schedules at a larger scale "
         "(4 tasks, 3 channels, capacities 1-3) are validated by TLC against the most general hub that keeps the "
         "property.",
    note="Single-threaded manual executor: lock contention cannot occur on the real code there (no await inside a "
         "critical section), so the mutex hand-off is covered by the model (HubLock) only. The control-socket "
         "connection task is not executed by this check; the sender loop's own 1 Hz publish is (LoopSim with stalled "
         "subscribers and a second publisher task). A difference from "
         "the model that keeps every clause (fewer deliveries, other order inside one fan-out, earlier pruning of "
         "closed subscribers) is MODEL-DRIFT, not a violation.")

CLAIMED["C19"] = dict(
    engine="tlc+reload", design_ref="4.19",
    technique="TLA+ model of the reload path (parser, SIGHUP queue, apply_connection_changes statement by "
              "statement) with the clauses of the statement as independent action properties; TLC on the complete "
              "interleaved graph; the parser's input space and every bounded path replayed on the real parser and "
              "the real apply_connection_changes over loopback uplinks with random conn ids; reload sequences "
              "replayed through the unmodified event loop with a real SIGHUP; recorded histories validated by TLC "
              "against the clauses"
              "; the UNMODIFIED event loop (run_sender_with_config on a paused clock, real sockets) recorded end to end and "
              "validated by TLC against the observer Trace_Loop.tla (reloads by real SIGHUP under a running stream: unlisted uplinks fall silent, kept ones keep socket and registration, added ones get one socket, refused reloads change nothing)",
    text="TLC explores every interleaving of routing, state mutation, SIGHUP (any file of the line alphabet, incl. "
         "a second SIGHUP before the first list is applied) and apply for 3 addresses and checks refused-untouched, "
         "parsed-exactly, survivors-kept, removed-exactly (uplink, I/O handle, tracker records), added-once and "
         "selection-forgotten as action properties next to the consistency of the three structures; 7e3-1.4e5 "
         "files are parsed by the real analyze_ip_reload(_text) (real files, missing path, CRLF, padding, IPv6 "
         "spellings, 8 garbage shapes) and 5e4-2.5e5 paths are executed on real loopback uplinks (random u64 conn "
         "ids, packets queued and on the wire, tracker filled through forward_via_connection) comparing labels in "
         "order, identities, socket identity and a digest of every connection field of survivors, the ConnIoMap "
         "key set, tracker lookups and last_selected_idx after every step; 800+ reload sequences run through "
         "run_sender_with_config itself (real SIGHUP raised in-process, ips file on disk, paused clock) comparing "
         "the label list the loop publishes; 40k-200k event random histories with 8 addresses, the real selector "
         "and unbindable addresses are judged by TLC on the same clauses.",
    note="Identities, sockets, tracker and routing choice are observed where the harness holds the structures (the "
         "SIGHUP / housekeeping arms' three statements replicated); through the unmodified loop only the published "
         "label list is observable. Order of uplinks, the routing choice when nothing was removed, the refusal "
         "reason / line number and whether a refused SIGHUP also drops a queued list are drift-level (the statement "
         "leaves them open). Reader tasks (sync_readers) are executed by the loop part but not observed.")

CLAIMED["C05"] = dict(
    engine="tlc+inflight+shellsim", design_ref="4.5",
    technique="TLA+ NakAttr.tla (outstanding sets, the carrier memory as a ring with collision and expiry, the "
              "charging rule) checked by TLC on every bounded path; every path replayed on the real "
              "SequenceTracker / links / attribute_nak; ShellSim runs validated by TLC against NakAttr; the UNMODIFIED event loop (run_sender_with_config on a paused clock, real sockets) recorded end to end and validated by TLC against the observer Trace_Loop.tla (the loss count every uplink publishes in its stats lines = the loss reports the receiver sent for numbers that uplink held, each charged once; lists, ranges, repeats, unknown numbers, reports arriving on another uplink, a link losing everything for half a minute)",
    text="TLC explores every path of <= 7 events (unique copies re-routed to another link, probe copies, colliding "
         "numbers in a 2-slot ring, clock steps landing on age = 5000 ms and just beyond, cumulative / SRTLA ACKs, "
         "resets, NAKs of every number) and checks that a NAK charges at most one holder, only the remembered "
         "carrier while remembered, and that a repeat is a no-op; 8.6e4 paths run on the real tracker and "
         "attribute_nak with the charge checked as exactly one loss count, one floored window decrement and one "
         "in-flight slot; in ShellSim runs the per-link deltas around every NAK datagram (lists, ranges, "
         "duplicates) must equal the specification's charges.",
    note=SHELL_NOTE + " When the carrier is no longer remembered the property allows any one holder; the comparison "
         "follows the code's choice (first holder in index order). Loop part: the receiver only reports numbers it got exactly once and retransmissions are kept away from reportable numbers, so that the carrier is unambiguous from outside; where the client re-offers a reported number the observer allows the charge to fall on at most one holder.")

CLAIMED["C18"] = dict(
    engine="tlc+control", design_ref="4.18",
    technique="TLA+ model of dispatch / handle_method over an abstract line alphabet with the statement's clauses as "
              "invariants on the complete graph; every TLC transition rendered into several concrete lines and executed "
              "on all entry points (dispatch, dispatch_async with and without hub, a control_socket Unix stream); "
              "recorded request sequences and arbitrary lines validated by TLC; TLA+ per-field load/store interleaving "
              "model of the atomics and TLC linearisation of a recorded multi-thread stress; on the socket stream a request that sits behind a backlog of 300 pushed events (more than the connection's queue holds) must still be answered (Trace_SockPush.tla)",
    text="TLC takes every abstract line (blank / garbage / not UTF-8 / non-request JSON / request x version x id kind x method x "
         "well-typed, ill-typed, missing and extreme parameters: 540-564 lines) from every reachable configuration and "
         "checks one-response-iff-id, the meaning of each error code, notifications applied, set_* visible in the next "
         "snapshot and status, timeout clamped to 1000..60000 and echoed, entry points equal outside the subscription "
         "methods; the 4.3e4 transitions are executed on real DynamicConfig objects through all four entry points with "
         "1.8e5+ concrete renderings, comparing (response present, id echo, result / error code, applied value), "
         "snapshot(), a follow-up get_status and response well-formedness; 20k-160k recorded events (abstract "
         "requests with any u64 timeout, byte noise, truncated and mutated requests, random JSON) are validated by "
         "TLC; a second model interleaves 2 setter threads and a 3-load snapshot reader per field (5e5 / 3.6e7 states), "
         "and TLC searches a per-field linearisation of every recorded stress run of the real atomics (60-480 runs, "
         "each followed by an unlogged 40k-store pressure phase whose reader judges every snapshot on the spot).",
    note="Two findings are listed in known_findings.json (the positional array form of the request type is taken as "
         "a request; a line that is not UTF-8 closes the socket connection / ends the stdin listener instead of being "
         "answered -32700). Float-typed / >u64 timeouts and non-scalar ids are outside what the statement fixes (drift "
         "at most). Lines that are not UTF-8 exist only on the socket stream; the stdin listener thread is not driven "
         "(its loop body is dispatch). Subscription methods: answer kind only (C20 owns the hub). Trusted: serde_json's generic "
         "parser as the grammar oracle for arbitrary lines, TLC, the JSON plumbing.")

PENDING = {}

def main():
    props = [json.loads(l) for l in open(os.path.join(VERIF, "properties.jsonl"))]
    hooks = subprocess.run(["git", "-C", "/repo", "log", "--format=%h %s", "--grep=^verif-hooks"],
                           stdout=subprocess.PIPE, text=True).stdout.strip().splitlines()
    checks, na = [], []
    for p in props:
        pid = p["id"]
        if pid in CLAIMED:
            c = CLAIMED[pid]
            checks.append({
                "property_id": pid,
                "quick_cmd": f"bin/check {pid} --tier quick",
                "thorough_cmd": f"bin/check {pid} --tier thorough",
                "evidence_file": f"/verif/evidence/{pid}.json",
                "replay_cmd_template": "bin/check replay {path}",
                "engine": c["engine"],
                "level_claimed": {"category": c.get("category", "model_checking"), "text": c["text"],
                                  "design_ref": "DESIGN.md section " + c["design_ref"]},
                "level_note": c["note"],
                "technique": c["technique"],
            })
        else:
            na.append({"property_id": pid, "reason": PENDING.get(
                pid, "specification and binding for this property are not built yet in this tree (planned, see "
                     "DESIGN.md section 4); not claimed until its check exists")})
    m = {
        "version": 1,
        "setup_cmd": "cd /verif/harness && cargo build --offline",
        "hooks": {
            "guard": "cargo feature verif-hooks (srtla-core and srtla_send)",
            "enable": "the harness crate /verif/harness depends on /repo by path with features "
                      "[\"test-internals\", \"verif-hooks\"]; every check runs `cargo build --offline` there first",
            "baseline_off_cmd": "cd /repo && cargo test --workspace --no-fail-fast --offline",
            "source_commits": [h.split()[0] for h in hooks],
            "add_only": True,
        },
        "engines": [
            {"name": "tlc", "path": "/verif/specs", "kind_free_text": "TLA+ specifications checked with TLC 1.8.0 "
             "(bounded exhaustive model checking, behaviour export, trace validation)",
             "serves_properties": sorted(CLAIMED)},
            {"name": "vh", "path": "/verif/harness", "kind_free_text": "Rust harness (path dependency on /repo) that "
             "replays TLC behaviours into the real code and records behaviours of the real code for TLC",
             "serves_properties": sorted(CLAIMED)},
        ],
        "checks": checks,
        "not_applicable": na,
        "notes": "Technique family: model-based verification with explicit TLA+ specifications (DESIGN.md). "
                 "bin/check <ID> exits 0 / 1 (VIOLATION line) / 2 (tool error or vacuous run).",
    }
    with open(os.path.join(VERIF, "MANIFEST.json"), "w") as f:
        json.dump(m, f, indent=1)
    print(f"MANIFEST.json: {len(checks)} checks, {len(na)} not claimed")

if __name__ == "__main__":
    main()
