#!/usr/bin/env python3
"""Regenerates /verif/MANIFEST.json from the table below (single source of
truth for which properties are claimed, at which level, by which technique)."""
import json, os, subprocess

VERIF = os.path.dirname(os.path.dirname(os.path.abspath(__file__)))

CLAIMED = {
    "C02": dict(
        engine="tlc+inflight",
        design_ref="4.2",
        technique="TLA+ refinement check (InFlightImpl => InFlight) with TLC on the complete state graph; every "
                  "TLC transition replayed on the real SrtlaConnection/shell functions; recorded random histories "
                  "of the real code validated by TLC against the set model",
        text="TLC explores the complete reachable graph of the code-shaped accounting model (packet log, high-water "
             "mark, fast/slow cumulative-ACK path) and checks it refines the property's per-link set model; each "
             "transition of that graph is then executed on real connections through take_batch, "
             "process_connection_events and attribute_nak, and 20k+ event random histories at real constants are "
             "accepted by the set model only if in_flight_packets = |sent and not retired| on every link after "
             "every event.",
        note="Exhaustive for 2 links x 5 (quick) / 7 (thorough) sequence numbers; beyond that by recorded random "
             "histories (1..4 links, any non-wrapping span). Trusted: the s -> base+32*s concretisation, TLC, the "
             "JSON trace plumbing.",
    ),
}

CLAIMED["C06"] = dict(
    engine="tlc+window",
    design_ref="4.6",
    technique="TLA+ model of the window rules at the real constants, TLC one-step (inductive) exploration from every "
              "state of the range; each exported transition executed on a real SrtlaConnection; recorded timed "
              "histories validated by TLC",
    text="Every C06 clause is a single-step statement about the window, so TLC takes every action of Window.tla from "
         "every state of the real range (quick: boundary windows x all age boundaries; thorough: all 59001 windows x "
         "every age class, 5e8 transitions) and checks range, direction, reset value and the fast-recovery entry/exit "
         "rules; 2e5..1.2e6 of those transitions are executed on a real connection (handle_nak, "
         "handle_srtla_ack_specific in both modes with in-flight up to i32::MAX, handle_srtla_ack_global, "
         "perform_window_recovery with both velocity classes, the resets, REG3 through process_uplink_packet) and "
         "20k-240k event random timed histories are validated against the same module.",
    note="RTT velocity is abstracted to the flag velocity > 2.0; the housekeeping rule 'classic skips recovery' is a "
         "model action here and is bound to the real housekeeping pass in the shell-level checks. Trusted: TLC, the "
         "state construction through test-internals fields.",
)

PENDING = {}

def main():
    props = [json.loads(l) for l in open(os.path.join(VERIF, "properties.jsonl"))]
    hooks = subprocess.run(["git", "-C", "/repo", "log", "--format=%h %s", "--grep=^verif-hooks"],
                           stdout=subprocess.PIPE, text=True).stdout.strip().splitlines()
    checks, na = [], []
    for p in props:
        pid = p["id"]
        if pid in CLAIMED:
            c = CLAIMED[pid]
            checks.append({
                "property_id": pid,
                "quick_cmd": f"bin/check {pid} --tier quick",
                "thorough_cmd": f"bin/check {pid} --tier thorough",
                "evidence_file": f"/verif/evidence/{pid}.json",
                "replay_cmd_template": "bin/check replay {path}",
                "engine": c["engine"],
                "level_claimed": {"category": c.get("category", "model_checking"), "text": c["text"],
                                  "design_ref": "DESIGN.md section " + c["design_ref"]},
                "level_note": c["note"],
                "technique": c["technique"],
            })
        else:
            na.append({"property_id": pid, "reason": PENDING.get(
                pid, "specification and binding for this property are not built yet in this tree (planned, see "
                     "DESIGN.md section 4); not claimed until its check exists")})
    m = {
        "version": 1,
        "setup_cmd": "cd /verif/harness && cargo build --offline",
        "hooks": {
            "guard": "cargo feature verif-hooks (srtla-core and srtla_send)",
            "enable": "the harness crate /verif/harness depends on /repo by path with features "
                      "[\"test-internals\", \"verif-hooks\"]; every check runs `cargo build --offline` there first",
            "baseline_off_cmd": "cd /repo && cargo test --workspace --no-fail-fast --offline",
            "source_commits": [h.split()[0] for h in hooks],
            "add_only": True,
        },
        "engines": [
            {"name": "tlc", "path": "/verif/specs", "kind_free_text": "TLA+ specifications checked with TLC 1.8.0 "
             "(bounded exhaustive model checking, behaviour export, trace validation)",
             "serves_properties": sorted(CLAIMED)},
            {"name": "vh", "path": "/verif/harness", "kind_free_text": "Rust harness (path dependency on /repo) that "
             "replays TLC behaviours into the real code and records behaviours of the real code for TLC",
             "serves_properties": sorted(CLAIMED)},
        ],
        "checks": checks,
        "not_applicable": na,
        "notes": "Technique family: model-based verification with explicit TLA+ specifications (DESIGN.md). "
                 "bin/check <ID> exits 0 / 1 (VIOLATION line) / 2 (tool error or vacuous run).",
    }
    with open(os.path.join(VERIF, "MANIFEST.json"), "w") as f:
        json.dump(m, f, indent=1)
    print(f"MANIFEST.json: {len(checks)} checks, {len(na)} not claimed")

if __name__ == "__main__":
    main()
