//! Shared helpers: TLC output decoding, deterministic hashing, tokio runtime,
//! connection builders, JSON comparison.

use std::net::{IpAddr, Ipv4Addr};

use serde_json::Value;
use srtla_core::connection::{LinkPhase, SrtlaConnection};

/// Virtual clock base (ms). Large enough that "now - anything" never
/// saturates, small enough to stay in TLC's 32-bit integers.
pub const T0: u64 = 1_000_000;

/// Decode one line of TLC output of the form `<<"TAG", "json...">>` into the
/// JSON value. Returns `None` for any other line.
pub fn parse_tlc_line(line: &str, tag: &str) -> Option<Value> {
    let prefix = format!("<<\"{tag}\", \"");
    let line = line.trim_end();
    let body = line.strip_prefix(&prefix)?.strip_suffix("\">>")?;
    let mut out = String::with_capacity(body.len());
    let mut chars = body.chars();
    while let Some(c) = chars.next() {
        if c == '\\' {
            match chars.next() {
                Some('"') => out.push('"'),
                Some('\\') => out.push('\\'),
                Some('n') => out.push('\n'),
                Some('t') => out.push('\t'),
                Some(o) => {
                    out.push('\\');
                    out.push(o);
                }
                None => out.push('\\'),
            }
        } else {
            out.push(c);
        }
    }
    serde_json::from_str(&out).ok()
}

/// splitmix64: deterministic per-case choices that do not depend on order.
pub fn mix(mut x: u64) -> u64 {
    x = x.wrapping_add(0x9e3779b97f4a7c15);
    let mut z = x;
    z = (z ^ (z >> 30)).wrapping_mul(0xbf58476d1ce4e5b9);
    z = (z ^ (z >> 27)).wrapping_mul(0x94d049bb133111eb);
    z ^ (z >> 31)
}

pub fn fnv(bytes: &[u8]) -> u64 {
    let mut h: u64 = 0xcbf29ce484222325;
    for b in bytes {
        h ^= *b as u64;
        h = h.wrapping_mul(0x100000001b3);
    }
    h
}

/// 24-bit digest (fits TLC ints comfortably, collision odds irrelevant for
/// the handful of distinct payloads per run because payloads are also unique
/// by construction).
pub fn dig(bytes: &[u8]) -> u64 {
    fnv(bytes) & 0xff_ffff
}

pub fn rt() -> tokio::runtime::Runtime {
    tokio::runtime::Builder::new_current_thread()
        .enable_all()
        .build()
        .expect("tokio runtime")
}

/// A connected, Live link the way the shell has it after REG3 + warm-up.
pub fn live_conn(i: usize, now: u64) -> SrtlaConnection {
    let ip = IpAddr::V4(Ipv4Addr::new(127, 0, 0, 10 + i as u8));
    let mut c = SrtlaConnection::new_registering(
        0x1000 + i as u64,
        format!("127.0.0.1:9 via {ip}"),
        ip,
        now,
    );
    c.connected = true;
    c.phase = LinkPhase::Live;
    c.last_received = Some(now);
    c.reconnection.connection_established_ms = now;
    c.reconnection.startup_grace_deadline_ms = now;
    c
}

/// An SRT data packet with sequence number `seq` and `len` total bytes.
pub fn srt_data(seq: u32, len: usize, retransmit: bool, fill: u8) -> Vec<u8> {
    let len = len.max(16);
    let mut p = vec![fill; len];
    p[0..4].copy_from_slice(&(seq & 0x7fff_ffff).to_be_bytes());
    p[4] = if retransmit { 0x04 } else { 0x00 };
    p[5] = 0;
    p
}

/// `expected` is satisfied by `got` when every key / element expected is
/// present and equal (objects may carry extra keys in `got`).
pub fn json_sub(expected: &Value, got: &Value) -> bool {
    match (expected, got) {
        (Value::Object(e), Value::Object(g)) => e
            .iter()
            .all(|(k, v)| g.get(k).is_some_and(|gv| json_sub(v, gv))),
        (Value::Array(e), Value::Array(g)) => {
            e.len() == g.len() && e.iter().zip(g.iter()).all(|(a, b)| json_sub(a, b))
        }
        (Value::Number(a), Value::Number(b)) => a.as_i64() == b.as_i64() && a.as_f64() == b.as_f64(),
        _ => expected == got,
    }
}

pub fn geti(v: &Value, k: &str) -> i64 {
    v.get(k).and_then(Value::as_i64).unwrap_or_else(|| panic!("missing int field {k} in {v}"))
}

pub fn gets<'a>(v: &'a Value, k: &str) -> &'a str {
    v.get(k).and_then(Value::as_str).unwrap_or_else(|| panic!("missing str field {k} in {v}"))
}

pub fn getb(v: &Value, k: &str) -> bool {
    v.get(k).and_then(Value::as_bool).unwrap_or_else(|| panic!("missing bool field {k} in {v}"))
}
