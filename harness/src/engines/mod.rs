pub mod inflight;
pub mod window;
pub mod selection;
pub mod stallguard;
pub mod weakfilter;
pub mod registration;
pub mod linkcc;
pub mod shellsim;
