pub mod inflight;
pub mod window;
