pub mod inflight;
