//! C16 engine: the real `LinkCcController::tick_all` over real connections
//! (RTT through the real tracker, cumulative byte / NAK counters incl. resets
//! after reconnect, observed bit-rates zero / steady / 100x bursts, irregular
//! tick spacing, links appearing and disappearing to exercise the GC), and
//! one-step edges of the code-shaped model on a real `LinkCongestionState`.

use rand::Rng;
use rand::rngs::StdRng;
use serde_json::{Value, json};
use srtla_core::connection::{RttTracker, SrtlaConnection};
use srtla_core::selection::link_cc::{CcState, LinkCcController, LinkCongestionState};

use crate::engine::Engine;
use crate::util::{T0, getb, geti, gets, live_conn};

pub struct LinkCcEngine {
    ctl: LinkCcController,
    conns: Vec<Option<SrtlaConnection>>, // slot -> link (None: not in the set)
    known: Vec<bool>,                    // the controller holds state for the slot
    now: u64,
    // generator profile per slot
    rate: Vec<f64>,
    lossy: Vec<u32>,
    rtt_base: Vec<u64>,
    deg_prev: Vec<bool>,
    c_backoff: u64,
    c_drain: u64,
    c_floor_after_seed: u64,
    c_deg_rise: u64,
    c_deg_fall: u64,
    c_gc: u64,
    c_counter_reset: u64,
    c_burst: u64,
}

fn st_name(s: CcState) -> &'static str {
    match s {
        CcState::Bootstrap => "Bootstrap",
        CcState::Climbing => "Climbing",
        CcState::Holding => "Holding",
        CcState::BackingOff => "BackingOff",
        CcState::Drain => "Drain",
    }
}

impl LinkCcEngine {
    pub fn new() -> Self {
        Self {
            ctl: LinkCcController::new(), conns: vec![], known: vec![], now: T0,
            rate: vec![], lossy: vec![], rtt_base: vec![], deg_prev: vec![false; 4],
            c_backoff: 0, c_drain: 0, c_floor_after_seed: 0, c_deg_rise: 0, c_deg_fall: 0, c_gc: 0,
            c_counter_reset: 0, c_burst: 0,
        }
    }
}

impl Engine for LinkCcEngine {
    fn reset(&mut self, _cfg: &Value, _case_key: u64) {
        self.ctl = LinkCcController::new();
        self.now = T0;
        self.conns = (0..4).map(|_| None).collect();
        self.known = vec![false; 4];
        self.deg_prev = vec![false; 4];
        self.rate = vec![0.0; 4];
        self.lossy = vec![0; 4];
        self.rtt_base = vec![0; 4];
    }

    fn apply(&mut self, ev: &Value) -> Value {
        // ---- one-step edge of the code-shaped model on a bare LinkCongestionState
        if let Some(pre) = ev.get("pre") {
            let mut s = LinkCongestionState::default();
            let t0 = T0;
            // RTT inflation class through the real record_rtt: baseline 20 ms, then a sample >= 2 s later
            let rttc = gets(pre, "rtt");
            if rttc != "none" {
                s.record_rtt(20.0, t0);
                let r2 = match rttc { "low" => 20.0, "hold" => 35.0, _ => 45.0 };
                s.record_rtt(r2, t0 + 2_000);
                if !getb(ev, "hai") {
                    // a jittery sample: variance above 10 % of the average turns HAI off, class unchanged
                    let bump = match rttc { "low" => 20.0, "hold" => 15.0, _ => 20.0 };
                    s.record_rtt(r2 + bump, t0 + 2_100);
                }
            }
            s.state = match gets(pre, "st") {
                "Bootstrap" => CcState::Bootstrap,
                "Climbing" => CcState::Climbing,
                "Holding" => CcState::Holding,
                "BackingOff" => CcState::BackingOff,
                _ => CcState::Drain,
            };
            s.target_bps = geti(pre, "T") as u64 * 1000;
            let loss = geti(ev, "loss") as u32; // permille of the last second
            let now = t0 + 2_500;
            s.record_loss(1000, loss, now);
            let obs = geti(ev, "obs") as u64 * 1000;
            s.tick(obs, now);
            let snap = s.snapshot();
            return json!({"st": st_name(snap.state), "T": snap.target_bps / 1000, "hasRtt": snap.rtt_ewma_ms > 0.0});
        }
        let name = gets(ev, "ev");
        if name == "Init" {
            return json!({});
        }
        // ---- one controller pass over the current set
        self.now += geti(ev, "dt") as u64;
        let now = self.now;
        let mut lines: Vec<Value> = Vec::new();
        for (slot, l) in ev["links"].as_array().unwrap().iter().enumerate() {
            if !getb(l, "present") {
                if self.conns[slot].is_some() {
                    self.conns[slot] = None;
                }
                continue;
            }
            if self.conns[slot].is_none() {
                let mut c = live_conn(slot, now);
                c.conn_id = 0x4000 + slot as u64;
                c.rtt = RttTracker::default();
                self.conns[slot] = Some(c);
            }
            let c = self.conns[slot].as_mut().unwrap();
            if getb(l, "reset") {
                // reconnect: counters start over
                c.bitrate.bytes_sent_total = 0;
                c.congestion.nak_count = 0;
                self.c_counter_reset += 1;
            }
            let rtt = geti(l, "rtt") as u64;
            if rtt > 0 {
                c.rtt.update_estimate(rtt, now);
            }
            c.bitrate.bytes_sent_total += geti(l, "dbytes") as u64;
            c.congestion.nak_count = c.congestion.nak_count.saturating_add(geti(l, "dnak") as i32);
            c.bitrate.current_bitrate_bps = geti(l, "obs") as f64;
        }
        let present: Vec<SrtlaConnection> = Vec::new();
        let _ = present;
        // tick_all takes a slice of connections: build it from the present slots (moved out and back)
        let mut slice: Vec<SrtlaConnection> = Vec::new();
        let mut idx: Vec<usize> = Vec::new();
        for slot in 0..4 {
            if let Some(c) = self.conns[slot].take() {
                slice.push(c);
                idx.push(slot);
            }
        }
        let snaps = self.ctl.tick_all(&slice, now);
        for (c, slot) in slice.into_iter().zip(idx.iter()) {
            let snap = snaps.get(&c.conn_id).copied();
            if !self.known[*slot] {
                lines.push(json!({"ev": "New", "l": *slot as i64 + 1}));
                self.known[*slot] = true;
                self.deg_prev[*slot] = false;
            }
            if let Some(s) = snap {
                match s.state {
                    CcState::BackingOff => self.c_backoff += 1,
                    CcState::Drain => self.c_drain += 1,
                    _ => {}
                }
                if s.state != CcState::Bootstrap && s.target_bps == 100_000 {
                    self.c_floor_after_seed += 1;
                }
                if s.loss_degraded != self.deg_prev[*slot] {
                    if s.loss_degraded { self.c_deg_rise += 1 } else { self.c_deg_fall += 1 }
                    self.deg_prev[*slot] = s.loss_degraded;
                }
                lines.push(json!({
                    "ev": "Tick", "l": *slot as i64 + 1, "now": (now - T0) as i64,
                    "obs": (c.bitrate.current_bitrate_bps.max(0.0) as u64 / 1000).min(2_000_000),
                    "st": st_name(s.state), "T": s.target_bps / 1000, "hasRtt": s.rtt_ewma_ms > 0.0,
                    "ewma": (s.loss_ewma * 1e6) as i64, "deg": s.loss_degraded,
                    "finite": s.loss_ewma.is_finite() && s.rtt_ewma_ms.is_finite(),
                }));
            }
            self.conns[*slot] = Some(c);
        }
        // slots that left the set are garbage-collected by the pass
        for slot in 0..4 {
            if self.conns[slot].is_none() && self.known[slot] {
                self.known[slot] = false;
                self.c_gc += 1;
            }
        }
        json!({"_lines": lines})
    }

    fn gen_event(&mut self, rng: &mut StdRng) -> Option<Value> {
        let dt = match rng.random_range(0..8) {
            0 => rng.random_range(100..400),
            1 => rng.random_range(2000..5000),
            2 => 2500,
            _ => rng.random_range(900..1100),
        };
        let mut links = Vec::new();
        // now and then every link is gone for one pass (an IP-list reload that swaps the whole set, all uplinks torn
        // down together): the controller is ticked with an empty set, and ids come back later
        let nobody = rng.random_range(0..40) == 0;
        for slot in 0..4 {
            let present_now = self.conns[slot].is_some();
            let present = !nobody
                && if present_now { rng.random_range(0..60) != 0 } else { rng.random_range(0..6) == 0 || slot == 0 };
            if !present_now && present {
                // a new link profile
                self.rate[slot] = match rng.random_range(0..5) {
                    0 => 0.0,
                    1 => rng.random_range(20_000.0..90_000.0),
                    2 => rng.random_range(100_000.0..900_000.0),
                    _ => rng.random_range(1_000_000.0..20_000_000.0),
                };
                self.lossy[slot] = match rng.random_range(0..4) { 0 => 0, 1 => 20, 2 => 300, _ => 800 };
                self.rtt_base[slot] = rng.random_range(10..400);
            }
            if rng.random_range(0..25) == 0 {
                self.lossy[slot] = match rng.random_range(0..4) { 0 => 0, 1 => 20, 2 => 300, _ => 900 };
            }
            if rng.random_range(0..30) == 0 {
                self.rate[slot] = match rng.random_range(0..4) {
                    0 => 0.0,
                    1 => rng.random_range(20_000.0..90_000.0),
                    _ => rng.random_range(200_000.0..20_000_000.0),
                };
            }
            let burst = rng.random_range(0..40) == 0;
            if burst {
                self.c_burst += 1;
            }
            let obs = if burst { self.rate[slot] * 100.0 } else { self.rate[slot] * rng.random_range(0.9..1.1) };
            let dbytes = (self.rate[slot] / 8.0 * dt as f64 / 1000.0) as u64;
            let pkts = dbytes / 1316;
            let dnak = (pkts * self.lossy[slot] as u64 / 1000).min(100_000)
                + if self.lossy[slot] > 0 && pkts == 0 && rng.random_range(0..3) == 0 { 1 } else { 0 };
            // RTT: none for a while on some links, inflating phases (x1.6, x2.5), else steady
            let rtt = if self.rtt_base[slot] == 0 || rng.random_range(0..10) == 0 { 0 } else {
                let f = match rng.random_range(0..12) { 0 => 1.6, 1 | 2 => 2.5, 3 => 5.0, _ => 1.0 };
                ((self.rtt_base[slot] as f64) * f) as u64
            };
            links.push(json!({"present": present, "reset": rng.random_range(0..50) == 0, "rtt": rtt,
                              "dbytes": dbytes, "dnak": dnak, "obs": obs as u64}));
        }
        Some(json!({"ev": "TickAll", "dt": dt, "links": links}))
    }

    fn matches(&self, exp: &Value, got: &Value) -> bool {
        exp["st"] == got["st"] && exp["hasRtt"] == got["hasRtt"]
            && (geti(exp, "T") - geti(got, "T")).abs() <= 2 + geti(exp, "T") / 1000
    }

    /// C16 states relations, not the controller's exact arithmetic: a target that differs from the
    /// code-shaped model but keeps every relation of LinkCcRel is MODEL-DRIFT.
    fn judge(&self, ev: &Value, exp: &Value, got: &Value) -> u8 {
        if self.matches(exp, got) {
            return 0;
        }
        let Some(pre) = ev.get("pre") else { return 2 };
        let (pst, pt) = (gets(pre, "st"), geti(pre, "T"));
        let (st, t) = (gets(got, "st"), geti(got, "T"));
        let obs = geti(ev, "obs");
        let has_rtt = got["hasRtt"] == json!(true);
        let seeded = pst != "Bootstrap";
        let in_range = (100..=200_000).contains(&t);
        let floor_ok = has_rtt || t == 100;
        let lowered_ok = t >= pt
            || (st == "BackingOff" && t * 1000 >= pt * 850 - 2000 && t >= obs.min(pt) - 1)
            || (st == "Drain" && pst != "Drain" && t * 1000 >= pt * 750 - 2000);
        let backoff_ok = !(st == "BackingOff" && seeded) || t <= pt;
        let growth_ok = !(seeded && t > pt) || (t * 1000 <= pt * 1060 + 2000 && t <= pt.max(2 * obs) + 2);
        if in_range && floor_ok && lowered_ok && backoff_ok && growth_ok && exp["hasRtt"] == got["hasRtt"] { 1 } else { 2 }
    }

    fn counters(&self) -> Value {
        json!({
            "backing_off_ticks": self.c_backoff, "drain_ticks": self.c_drain,
            "at_floor_after_seeding": self.c_floor_after_seed, "links_garbage_collected": self.c_gc,
            "counter_resets": self.c_counter_reset, "bursts_100x": self.c_burst,
            "loss_latch_rise": self.c_deg_rise, "loss_latch_fall": self.c_deg_fall,
        })
    }
}
