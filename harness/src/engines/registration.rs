//! C07 engine: the real `SrtlaRegistrationManager` and the registration arm
//! of the real `process_uplink_packet`.
//!
//! replay: one-step edges exported by TLC -- the pre-state is stamped onto a
//! fresh manager (test-internals setters; probing state reached through the
//! real start_probing / handle_probe_response / check_probing_complete).
//! record: seeded ms-resolution histories (packet orders, late / duplicate /
//! wrong-link / short REG2, clock steps straddling the 1 s / 2 s / 4 s
//! deadlines by +-1 ms).

use rand::Rng;
use rand::rngs::StdRng;
use serde_json::{Value, json};
use srtla_core::connection::SrtlaConnection;
use srtla_core::registration::SrtlaRegistrationManager;
use srtla_protocol::{SRTLA_ID_LEN, get_packet_type};
use srtla_send::sender::verif_hooks::process_uplink_packet;
use tokio::net::UdpSocket;

use crate::engine::Engine;
use crate::util::{T0, getb, geti, gets, live_conn, rt};

pub struct RegistrationEngine {
    rt: tokio::runtime::Runtime,
    listener: UdpSocket,
    reg: SrtlaRegistrationManager,
    conns: Vec<SrtlaConnection>,
    now: u64,
    n: usize,
    c_reg1: u64,
    c_bcast: u64,
    c_accept: u64,
    c_reject_wrong_link: u64,
    c_reject_short: u64,
    c_abandon: u64,
    c_probe_done: u64,
    c_regerr: u64,
}

fn pat(tok: &str) -> [u8; SRTLA_ID_LEN] {
    let b = match tok {
        "A" => 0xa1,
        "B" => 0xb2,
        "C" => 0xc3,
        _ => 0xee,
    };
    let mut id = [b; SRTLA_ID_LEN];
    id[0] = b ^ 0x5a;
    id[SRTLA_ID_LEN - 1] = b ^ 0x0f;
    id
}

fn tok_of(id: &[u8], probe: &[u8; SRTLA_ID_LEN]) -> &'static str {
    for t in ["A", "B", "C"] {
        if id == pat(t) {
            return t;
        }
    }
    if id == probe { "probe" } else { "?" }
}

impl RegistrationEngine {
    pub fn new() -> Self {
        let rt = rt();
        let listener = rt.block_on(async { UdpSocket::bind("127.0.0.1:0").await.unwrap() });
        Self {
            rt, listener, reg: SrtlaRegistrationManager::new(), conns: Vec::new(), now: T0, n: 2,
            c_reg1: 0, c_bcast: 0, c_accept: 0, c_reject_wrong_link: 0, c_reject_short: 0, c_abandon: 0,
            c_probe_done: 0, c_regerr: 0,
        }
    }

    fn fresh_conns(&self, n: usize, now: u64) -> Vec<SrtlaConnection> {
        (0..n)
            .map(|i| {
                let mut c = live_conn(i, now);
                c.connected = false;
                c.phase = srtla_core::connection::LinkPhase::Registering;
                c.last_received = None;
                c
            })
            .collect()
    }

    fn decode(&self, l: usize, pkt: &[u8]) -> Value {
        let probe = self.reg.verif_probe_id();
        let t = match get_packet_type(pkt) {
            Some(0x9200) => "REG1",
            Some(0x9201) => "REG2",
            _ => "?",
        };
        let idtok = if pkt.len() == 2 + SRTLA_ID_LEN { tok_of(&pkt[2..], &probe) } else { "short" };
        let t = if t == "REG2" && idtok == "probe" { "PROBE" } else { t };
        json!({"t": t, "l": l as i64 + 1, "id": idtok})
    }

    fn obs(&self, emit: Vec<Value>) -> Value {
        let v = self.reg.verif_view();
        let now = self.now;
        let rel = |stamp: u64| -> i64 { if stamp == 0 { -1 } else { stamp.saturating_sub(now) as i64 } };
        let mut presp = vec![-1i64; self.n];
        for (idx, _sent, rtt) in &v.probe_results {
            if *idx < self.n {
                presp[*idx] = rtt.map(|r| r as i64).unwrap_or(-1);
            }
        }
        let probe = self.reg.verif_probe_id();
        let mut emit = emit;
        emit.sort_by_key(|e| e["l"].as_i64());
        json!({
            "id": tok_of(&self.reg.srtla_id, &probe),
            "pending": v.pending_reg2_idx.map(|i| i as i64 + 1).unwrap_or(0),
            "pto": rel(v.pending_timeout_at_ms),
            "active": v.active_connections,
            "hasConn": v.has_connected,
            "bcast": v.broadcast_reg2_pending,
            "target": v.reg1_target_idx.map(|i| i as i64 + 1).unwrap_or(0),
            "ns": v.reg1_next_send_at_ms.saturating_sub(now) as i64,
            "probing": match v.probing_state { "not_started" => "NotStarted", "waiting" | "probing" => "Waiting", _ => "Complete" },
            "presp": presp,
            "connected": self.conns.iter().map(|c| c.connected).collect::<Vec<_>>(),
            "emit": emit,
        })
    }

    fn set_state(&mut self, pre: &Value) {
        let now = self.now;
        let conn_flags: Vec<bool> = pre["connected"].as_array().unwrap().iter().map(|b| b.as_bool().unwrap()).collect();
        self.n = conn_flags.len();
        self.conns = self.fresh_conns(self.n, now);
        self.reg = SrtlaRegistrationManager::new();
        let probing = gets(pre, "probing");
        let pel = geti(pre, "pel") as u64;
        if probing != "NotStarted" {
            let t_sent = now - pel;
            let probes = self.reg.start_probing(&mut self.conns, t_sent);
            assert_eq!(probes.len(), self.n);
            for (l, r) in pre["presp"].as_array().unwrap().iter().enumerate() {
                let r = r.as_i64().unwrap();
                if r >= 0 {
                    self.reg.handle_probe_response(l, t_sent + r as u64);
                }
            }
            if probing == "Complete" {
                srtla_core::verif::set_clock(Some(t_sent + 10_000));
                assert!(self.reg.check_probing_complete());
                srtla_core::verif::set_clock(Some(now));
            }
        }
        self.reg.srtla_id = pat(gets(pre, "id"));
        let idx = |v: i64| if v == 0 { None } else { Some(v as usize - 1) };
        self.reg.set_pending_reg2_idx(idx(geti(pre, "pending")));
        let pto = geti(pre, "pto");
        self.reg.set_pending_timeout_at_ms(if pto < 0 { 0 } else { now + pto as u64 });
        self.reg.has_connected = getb(pre, "hasConn");
        self.reg.set_broadcast_reg2_pending(getb(pre, "bcast"));
        self.reg.set_reg1_target_idx(idx(geti(pre, "target")));
        let ns = geti(pre, "ns") as u64;
        self.reg.set_reg1_next_send_at_ms(if ns == 0 { 0 } else { now + ns });
        // active_connections is the count as of the last housekeeping (may be stale)
        let active = geti(pre, "active") as usize;
        let mut tmp = self.fresh_conns(active.max(1), now);
        for (i, c) in tmp.iter_mut().enumerate() {
            c.connected = i < active;
        }
        self.reg.update_active_connections(&tmp);
        for (c, f) in self.conns.iter_mut().zip(conn_flags.iter()) {
            c.connected = *f;
            if *f {
                c.phase = srtla_core::connection::LinkPhase::Live;
                c.last_received = Some(now);
            }
        }
    }

    fn uplink(&mut self, l: usize, data: &[u8]) -> Vec<Value> {
        srtla_core::verif::set_clock(Some(self.now));
        let (tx, _rx) = tokio::sync::mpsc::unbounded_channel();
        let Self { rt, listener, reg, conns, .. } = self;
        let inc = rt.block_on(async {
            process_uplink_packet(&mut conns[l], l, reg, listener, &tx, None, data).await.unwrap()
        });
        match inc.reg1_send {
            Some(p) => vec![self.decode(l, &p)],
            None => vec![],
        }
    }

    fn do_action(&mut self, name: &str, ev: &Value) -> Vec<Value> {
        srtla_core::verif::set_clock(Some(self.now));
        let l = ev.get("l").and_then(Value::as_i64).unwrap_or(0);
        let li = (l.max(1) - 1) as usize;
        match name {
            "StartProbing" => {
                let now = self.now;
                let probes = self.reg.start_probing(&mut self.conns, now);
                probes.iter().map(|(i, p)| self.decode(*i, p)).collect()
            }
            "RecvNgp" => {
                let e = self.uplink(li, &[0x92, 0x11]);
                self.c_reg1 += e.len() as u64;
                e
            }
            "RecvReg2" => {
                let full = getb(ev, "full");
                let mut p = vec![0x92u8, 0x01];
                let id = pat(gets(ev, "tok"));
                if full {
                    p.extend_from_slice(&id);
                    if ev.get("extra").and_then(Value::as_u64).unwrap_or(0) > 0 {
                        p.extend_from_slice(&[0x77; 9]);
                    }
                } else {
                    let cut = ev.get("cut").and_then(Value::as_u64).unwrap_or(100) as usize;
                    p.extend_from_slice(&id[..cut.min(SRTLA_ID_LEN - 1)]);
                }
                let before = self.reg.verif_view().pending_reg2_idx;
                let e = self.uplink(li, &p);
                let after = self.reg.verif_view();
                if before.is_some() && after.pending_reg2_idx.is_none() {
                    self.c_accept += 1;
                } else if before.is_some() && before != Some(li) && full {
                    self.c_reject_wrong_link += 1;
                } else if before == Some(li) && !full {
                    self.c_reject_short += 1;
                }
                e
            }
            "RecvReg3" => self.uplink(li, &[0x92, 0x02]),
            "RecvRegErr" => {
                self.c_regerr += 1;
                self.uplink(li, &[0x92, 0x10])
            }
            "TimedOutResend" => {
                // the three-way match of housekeeping.rs:83-110 (the pass itself is bound by the shell checks)
                let now = self.now;
                match self.reg.pending_reg2_idx() {
                    Some(i) if i == li => {
                        let p = self.reg.build_reg1_for(li, now);
                        vec![self.decode(li, &p)]
                    }
                    Some(_) => vec![],
                    None => {
                        let p = self.reg.build_reg2(li);
                        vec![self.decode(li, &p)]
                    }
                }
            }
            "Housekeeping" => {
                let now = self.now;
                if self.reg.clear_pending_if_timed_out(now).is_some() {
                    self.c_abandon += 1;
                }
                if self.reg.is_probing() && self.reg.check_probing_complete() {
                    self.c_probe_done += 1;
                }
                self.reg.update_active_connections(&self.conns);
                let sends = self.reg.reg_driver_pending_sends(self.n, now);
                let mut out = Vec::new();
                if let Some((i, p)) = sends.reg1 {
                    self.c_reg1 += 1;
                    out.push(self.decode(i, &p));
                }
                if let Some(p) = sends.broadcast_reg2 {
                    self.c_bcast += 1;
                    for i in 0..self.n {
                        out.push(self.decode(i, &p));
                    }
                }
                out
            }
            "LinkDown" => {
                self.conns[li].connected = false;
                vec![]
            }
            "Advance" => {
                self.now += geti(ev, "d") as u64;
                vec![]
            }
            other => panic!("unknown action {other}"),
        }
    }
}

impl Engine for RegistrationEngine {
    fn reset(&mut self, cfg: &Value, _case_key: u64) {
        self.now = T0 + 100_000;
        self.n = cfg.get("links").and_then(Value::as_u64).unwrap_or(2) as usize;
        self.conns = self.fresh_conns(self.n, self.now);
        self.reg = SrtlaRegistrationManager::new();
        self.reg.srtla_id = pat("A");
    }

    fn apply(&mut self, ev: &Value) -> Value {
        let name = gets(ev, "ev").to_string();
        if let Some(pre) = ev.get("pre") {
            self.now = T0 + 100_000;
            self.set_state(pre);
            let emit = self.do_action(&name, ev);
            return self.obs(emit);
        }
        if name == "Init" {
            return self.obs(vec![]);
        }
        let emit = self.do_action(&name, ev);
        self.obs(emit)
    }

    fn gen_cfg(&mut self, rng: &mut StdRng) -> Value {
        let _ = rng;
        let n: u64 = std::env::var("VH_LINKS").ok().and_then(|s| s.parse().ok()).unwrap_or(2);
        json!({"links": n})
    }

    fn gen_event(&mut self, rng: &mut StdRng) -> Option<Value> {
        if self.reg.verif_view().probing_state == "not_started" {
            return Some(json!({"ev": "StartProbing"}));
        }
        let l = rng.random_range(1..=self.n);
        let r = rng.random_range(0..100);
        Some(if r < 22 {
            let d = match rng.random_range(0..9) {
                0 => 1,
                1 => 999,
                2 => 1000,
                3 => 1001,
                4 => 1999,
                5 => 2001,
                6 => 3999,
                7 => 4000,
                _ => rng.random_range(1..1500),
            };
            json!({"ev": "Advance", "d": d})
        } else if r < 40 {
            json!({"ev": "Housekeeping"})
        } else if r < 58 {
            json!({"ev": "RecvNgp", "l": l})
        } else if r < 76 {
            let full = rng.random_range(0..4) != 0;
            let tok = ["A", "B", "C"][rng.random_range(0..3)];
            json!({"ev": "RecvReg2", "l": l, "full": full, "tok": tok,
                   "cut": rng.random_range(0..256), "extra": if full { rng.random_range(0..2) } else { 0 }})
        } else if r < 84 {
            json!({"ev": "RecvReg3", "l": l})
        } else if r < 90 {
            json!({"ev": "RecvRegErr", "l": l})
        } else if r < 95 {
            if !self.conns[l - 1].connected {
                json!({"ev": "TimedOutResend", "l": l})
            } else {
                json!({"ev": "LinkDown", "l": l})
            }
        } else {
            json!({"ev": "LinkDown", "l": l})
        })
    }

    fn matches(&self, exp: &Value, got: &Value) -> bool {
        crate::util::json_sub(exp, got)
    }

    fn counters(&self) -> Value {
        json!({
            "reg1_emitted": self.c_reg1, "broadcast_rounds": self.c_bcast, "reg2_accepted": self.c_accept,
            "reg2_wrong_link": self.c_reject_wrong_link, "reg2_short": self.c_reject_short,
            "abandoned_after_timeout": self.c_abandon, "probing_completed": self.c_probe_done,
            "reg_err": self.c_regerr,
        })
    }
}
