//! B3: the real, unmodified event loop (`run_sender_with_config`) end to end.
//!
//! The loop runs as a task on a current-thread tokio runtime whose clock is
//! paused; `now_ms()` is routed to that virtual clock, so timers, time-outs and
//! stamps all move together and only when the harness sleeps.  Outside it there
//! is only what a deployment has: an SRT client socket that sends datagrams to
//! the local port and receives the return path, and an SRTLA receiver socket
//! that hears the uplinks (told apart by source address 127.0.0.(10+i)) and
//! answers the handshake, keepalives and data the way srtla_rec does.  After
//! every step the harness yields (never parks) until the loop has nothing left
//! to do, then reads both sockets: every frame is observed at a known virtual
//! time.  record only; Trace_Loop.tla decides.

use std::collections::VecDeque;
use std::net::{SocketAddr, UdpSocket as StdUdp};
use std::sync::Arc;

use rand::Rng;
use rand::rngs::StdRng;
use serde_json::{Value, json};
use srtla_core::mode::SchedulingMode;
use srtla_core::priority::CriticalWindow;
use srtla_protocol::*;
use srtla_send::net::{SourceIpBinder, UplinkBinder};

use crate::engine::Engine;
use crate::util::{T0, dig, geti, gets, mix};

unsafe extern "C" {
    fn raise(sig: i32) -> i32;
}
const SIGHUP: i32 = 1;

thread_local! {
    static START: std::cell::Cell<Option<tokio::time::Instant>> = const { std::cell::Cell::new(None) };
}

/// the loop's clock: T0 + virtual milliseconds since the run began
fn vnow() -> u64 {
    match START.with(|s| s.get()) {
        Some(s) => T0 + tokio::time::Instant::now().duration_since(s).as_millis() as u64,
        None => T0,
    }
}

/// The production binder plus a tap: a second handle on every uplink socket the loop creates, so that the
/// harness can make the kernel refuse sends on it (shutdown of the write side) -- a send failure on the real
/// socket, inside the real loop, through the loop's own injection point for egress binding.
struct TapBinder {
    taps: Arc<std::sync::Mutex<std::collections::HashMap<std::net::IpAddr, socket2::Socket>>>,
    /// addresses whose socket cannot be opened at the moment (the interface is gone): the bind is refused
    refuse: Arc<std::sync::Mutex<std::collections::HashSet<std::net::IpAddr>>>,
    /// every attempt to open a socket for an uplink: (address, virtual time, succeeded)
    attempts: Arc<std::sync::Mutex<Vec<(std::net::IpAddr, u64, bool)>>>,
}

impl UplinkBinder for TapBinder {
    fn bind(&self, sock: &socket2::Socket, ip: std::net::IpAddr) -> anyhow::Result<()> {
        if self.refuse.lock().unwrap().contains(&ip) {
            self.attempts.lock().unwrap().push((ip, vnow(), false));
            anyhow::bail!("harness: {ip} cannot be bound at the moment");
        }
        self.attempts.lock().unwrap().push((ip, vnow(), true));
        SourceIpBinder.bind(sock, ip)?;
        if let Ok(dup) = sock.try_clone() {
            self.taps.lock().unwrap().insert(ip, dup);
        }
        Ok(())
    }
}

#[derive(Clone, Copy, PartialEq, Debug)]
enum Path {
    Up,
    Hole,        // the receiver hears nothing
    RepliesLost, // the receiver hears, its answers are lost
}

struct Reader {
    sid: String,
    topic: String,
    buf: Arc<std::sync::Mutex<Vec<(u64, String)>>>,
    task: tokio::task::JoinHandle<()>,
    open: bool,
}

struct Reply {
    at: u64,
    link: usize,
    to: SocketAddr,
    bytes: Vec<u8>,
}

pub struct LoopSim {
    rt: tokio::runtime::Runtime,
    task: Option<tokio::task::JoinHandle<anyhow::Result<()>>>,
    receiver: StdUdp,
    rport: u16,
    client: StdUdp,
    srt_port: u16,
    config: srtla_send::DynamicConfig,
    taps: Arc<std::sync::Mutex<std::collections::HashMap<std::net::IpAddr, socket2::Socket>>>,
    refuse: Arc<std::sync::Mutex<std::collections::HashSet<std::net::IpAddr>>>,
    attempts: Arc<std::sync::Mutex<Vec<(std::net::IpAddr, u64, bool)>>>,
    /// subscribers that never read (their queues fill up at once): the loop's 1 Hz stats publish must not wait
    stalled_subs: Vec<tokio::sync::mpsc::Receiver<String>>,
    side: Option<tokio::task::JoinHandle<()>>,
    /// control clients that do read: each has its own task that stamps every pushed line with the virtual time at
    /// which it was handed over (the runtime runs that task in the very instant of the publish)
    readers: Vec<Reader>,
    hub: Option<srtla_send::subscriptions::SubscriptionHub>,
    /// the nak schedule: what the receiver got lately (sequence number, link, copies)
    recent_rx: VecDeque<(u32, usize, u32)>,
    rx_copies: std::collections::HashMap<u32, u32>,
    nak_ctr: u64,
    ack_ctr: u64,
    bind_phase: u8,
    run_no: u64,
    /// outage schedules: data numbers that have not arrived (number, when first seen missing), late arrivals, highest
    holes: VecDeque<(u32, u64)>,
    filled: std::collections::HashSet<u32>,
    rx_hi: u32,
    /// swallow schedules: the uplink whose first REG1 was lost, and whether the trace has been told
    swallow: Option<usize>,
    swallow_told: bool,
    /// blackout schedules: 0 = before, 1..n-1 = links being taken down, 100 = dark, 101.. = being repaired, 200 = over
    blackout_phase: usize,
    weak_run: [u32; 8],
    guard_phase: u8,
    /// our own SIGHUP listener, registered before the loop's: a SIGHUP can never take the default action
    own_hup: tokio::signal::unix::Signal,
    /// the uplinks currently listed in the IP file (indices into 127.0.0.10..13)
    listed: Vec<usize>,
    work: String,
    n: usize,
    profile: String,
    // fake receiver
    path: Vec<Path>,
    rtt: Vec<u64>,
    group: Option<[u8; SRTLA_ID_LEN]>,
    registered: Vec<Option<SocketAddr>>,
    pending: VecDeque<Reply>,
    ack_buf: Vec<Vec<u32>>,
    rx_seqs: std::collections::BTreeSet<u32>,
    rx_count: u64,
    last_reply_at: Vec<i64>,
    cur_addr: Vec<Option<SocketAddr>>,
    // client stream
    next_seq: u32,
    pkt_ctr: u32,
    client_idx: u64,
    // generator
    steps_done: u64,
    steps_total: u64,
    victim_down_at: Option<u64>,
    victim_repaired: bool,
    timeout_ms: u64,
    idle_left: u32,
    /// VH_DENSE=1: outage runs carry a dense stream (~750 datagrams/s) for 1.8 s after the path goes down
    dense: bool,
    next_amnesia: u64,
    /// a flapping link: (link, the address it failed on, delay) -> once it is registered again from a new
    /// socket, fail it again `delay` ms later (inside the 5 s retry interval)
    refail: Option<(usize, Option<SocketAddr>, u64)>,
    refail_at: Option<u64>,
    classic_since: Option<u64>,
    last_ack_rx: u64,
    last_ka: Vec<u64>,
    /// digests of recent client-origin frames and the link they left on: a second copy on another link is a probe
    /// duplicate, which only a stall-gated link receives -- evidence that the guard engaged for real
    seen_digs: std::collections::HashMap<u64, usize>,
    c: std::collections::HashMap<&'static str, u64>,
}

fn cls_of(b: &[u8]) -> &'static str {
    match get_packet_type(b) {
        None => "short",
        Some(SRTLA_TYPE_KEEPALIVE) => "ka",
        Some(SRTLA_TYPE_ACK) => "srtla_ack",
        Some(SRTLA_TYPE_REG1) => "reg1",
        Some(SRTLA_TYPE_REG2) => "reg2",
        Some(SRTLA_TYPE_REG3) => "reg3",
        Some(SRTLA_TYPE_REG_ERR) => "reg_err",
        Some(SRTLA_TYPE_REG_NGP) => "reg_ngp",
        Some(SRT_TYPE_ACK) => "srt_ack",
        Some(SRT_TYPE_NAK) => "srt_nak",
        Some(t) if t & 0x8000 == 0 => "data",
        Some(_) => "ctrl",
    }
}

impl LoopSim {
    pub fn new() -> Self {
        let rt = tokio::runtime::Builder::new_current_thread().enable_all().start_paused(true).build().expect("runtime");
        let own_hup = rt.block_on(async {
            tokio::signal::unix::signal(tokio::signal::unix::SignalKind::hangup()).expect("SIGHUP listener")
        });
        let receiver = StdUdp::bind("127.0.0.1:0").expect("receiver socket");
        receiver.set_nonblocking(true).unwrap();
        let _ = socket2::SockRef::from(&receiver).set_recv_buffer_size(8 << 20);
        let rport = receiver.local_addr().unwrap().port();
        let client = StdUdp::bind("127.0.0.1:0").expect("client socket");
        client.set_nonblocking(true).unwrap();
        let _ = socket2::SockRef::from(&client).set_recv_buffer_size(8 << 20);
        Self {
            rt, task: None, receiver, rport, client, srt_port: 0, config: srtla_send::DynamicConfig::new(),
            taps: Default::default(),
            refuse: Default::default(),
            attempts: Default::default(),
            stalled_subs: Vec::new(),
            side: None,
            readers: Vec::new(),
            hub: None,
            recent_rx: VecDeque::new(),
            rx_copies: Default::default(),
            nak_ctr: 0,
            ack_ctr: 0,
            bind_phase: 0,
            run_no: 0,
            holes: VecDeque::new(),
            filled: Default::default(),
            rx_hi: 0,
            swallow: None,
            swallow_told: false,
            blackout_phase: 0,
            weak_run: [0; 8],
            guard_phase: 0,
            own_hup,
            listed: Vec::new(),
            work: std::env::temp_dir().to_string_lossy().to_string(), n: 2, profile: "steady".into(),
            path: vec![], rtt: vec![], group: None, registered: vec![], pending: VecDeque::new(), ack_buf: vec![],
            rx_seqs: Default::default(), rx_count: 0, last_reply_at: vec![], cur_addr: vec![],
            next_seq: 5000, pkt_ctr: 0, client_idx: 0, steps_done: 0, steps_total: 3000, victim_down_at: None,
            victim_repaired: false, timeout_ms: 5000, idle_left: 0, dense: false, next_amnesia: 0, refail: None, refail_at: None, classic_since: None, last_ack_rx: 0, last_ka: vec![],
            seen_digs: Default::default(), c: Default::default(),
        }
    }

    fn bump(&mut self, k: &'static str) {
        *self.c.entry(k).or_insert(0) += 1;
    }

    fn ips_path(&self) -> String {
        format!("{}/vh_loopsim_{}.ips", self.work, std::process::id())
    }

    fn stop(&mut self) {
        if let Some(t) = self.side.take() {
            t.abort();
            let _ = self.rt.block_on(t);
        }
        if let Some(t) = self.task.take() {
            t.abort();
            let _ = self.rt.block_on(t);
        }
        for r in self.readers.drain(..) {
            r.task.abort();
            let _ = self.rt.block_on(r.task);
        }
        self.hub = None;
        let mut buf = [0u8; 2048];
        while self.receiver.recv_from(&mut buf).is_ok() {}
        while self.client.recv_from(&mut buf).is_ok() {}
        srtla_core::verif::set_clock_fn(None);
        START.with(|s| s.set(None));
    }

    fn now(&self) -> u64 {
        self.rt.block_on(async { vnow() })
    }

    /// let the loop (and its reader / forwarding tasks) run until idle without letting the paused clock move:
    /// yielding keeps the runtime from parking, and it polls the I/O driver every few dozen turns
    fn settle(&self) {
        self.rt.block_on(async {
            for _ in 0..600 {
                tokio::task::yield_now().await;
            }
        });
    }


    /// a control client that reads: subscribes on the loop's hub and hands every line to its own task
    fn subscribe_reader(&mut self, topic: &str) -> Value {
        let hub = self.hub.clone().expect("hub");
        let (tx, mut rx) = tokio::sync::mpsc::channel::<String>(256);
        let t = topic.to_string();
        let sid = self.rt.block_on(async move { hub.subscribe(&t, tx).await });
        let buf: Arc<std::sync::Mutex<Vec<(u64, String)>>> = Default::default();
        let b2 = buf.clone();
        let task = self.rt.spawn(async move {
            while let Some(line) = rx.recv().await {
                b2.lock().unwrap().push((vnow(), line));
            }
        });
        self.readers.push(Reader { sid: sid.clone(), topic: topic.to_string(), buf, task, open: true });
        self.bump("subscriptions_opened");
        json!({"slot": self.readers.len(), "sid": sid, "topic": topic})
    }

    /// what a link's entry of a stats snapshot says, as integers
    fn link_stats(&self, v: &Value) -> Value {
        let l = v["ip"].as_str().and_then(|s| s.rsplit('.').next()).and_then(|x| x.parse::<i64>().ok()).map(|x| x - 9).unwrap_or(0);
        let f = |k: &str| v[k].as_f64();
        let fin = ["rtt_min_ms", "rtt_velocity", "quality_multiplier", "cc_rtt_ewma_ms", "cc_rtt_var_ms", "cc_rtt_min_ms", "cc_loss_ewma"]
            .iter().all(|k| f(k).is_some_and(|x| x.is_finite()));
        let i = |k: &str| v[k].as_i64().unwrap_or(-1);
        let b = |k: &str| v[k].as_bool().unwrap_or(false);
        let st = match v["cc_state"].as_str().unwrap_or("") {
            "bootstrap" => "Bootstrap", "climbing" => "Climbing", "holding" => "Holding", "backing_off" => "BackingOff",
            "drain" => "Drain", _ => "Other",
        };
        json!({"l": l, "connected": b("connected"), "timed_out": b("timed_out"), "window": i("window"), "in_flight": i("in_flight"),
               "rtt": i("rtt_ms"), "nak": i("nak_count"), "bps": i("bitrate_bytes_per_sec"),
               "qm": (f("quality_multiplier").unwrap_or(-1.0) * 1000.0).round() as i64,
               "weak": b("weak"), "reason": v["weak_reason"].as_str().unwrap_or("?"), "share": i("weak_share_permille"),
               "thr": i("weak_threshold_permille"),
               "st": st, "T": i("cc_target_bps"), "hasRtt": f("cc_rtt_ewma_ms").unwrap_or(0.0) > 0.0,
               "ewma": (f("cc_loss_ewma").unwrap_or(0.0) * 1e6) as i64, "deg": b("cc_loss_degraded"),
               "gated": b("stall_gated"), "gev": i("stall_gate_events"), "pulls": i("silence_pulls"),
               "cap": i("in_flight_cap_packets"), "capa": b("in_flight_cap_active"), "finite": fin})
    }

    /// everything the reading control clients were pushed since the last step
    fn drain_readers(&mut self) -> Vec<Value> {
        let mut out = Vec::new();
        let mut got: Vec<(usize, u64, String)> = Vec::new();
        for (k, r) in self.readers.iter().enumerate() {
            for (t, line) in r.buf.lock().unwrap().drain(..) {
                got.push((k, t, line));
            }
        }
        got.sort_by_key(|(k, t, _)| (*t, *k));
        for (k, t, line) in got {
            let v: Value = serde_json::from_str(&line).unwrap_or(Value::Null);
            let data = &v["params"]["data"];
            let method = v["method"].as_str().unwrap_or("?").to_string();
            let body = serde_json::to_string(data).unwrap_or_default();
            let mut o = json!({"slot": k + 1, "t": (t - T0) as i64, "method": method, "psid": v["params"]["subscription_id"].as_str().unwrap_or("?"),
                               "dg": dig(body.as_bytes()), "open": self.readers[k].open});
            if method == "stats.update" {
                self.bump("stats_events_read");
                if k == 0 {
                    // the first reader's copy is logged in full, the others' by digest
                    let links: Vec<Value> = data["links"].as_array().map(|a| a.iter().map(|x| self.link_stats(x)).collect()).unwrap_or_default();
                    for x in &links {
                        let l = x["l"].as_i64().unwrap_or(0).clamp(0, 7) as usize;
                        let share_weak = x["weak"] == json!(true) && (x["reason"] == json!("low_share") || x["reason"] == json!("no_traffic"));
                        if share_weak {
                            self.weak_run[l] += 1;
                            if self.weak_run[l] == 15 { self.bump("stats_weak_runs_of_15"); }
                        } else {
                            if self.weak_run[l] >= 15 { self.bump("stats_probations_seen"); }
                            self.weak_run[l] = 0;
                        }
                        if x["reason"] == json!("high_rtt") || x["reason"] == json!("queue_building") { self.bump("stats_delay_verdicts"); }
                        if x["deg"] == json!(true) { self.bump("stats_loss_degraded_samples"); }
                        if x["weak"] == json!(true) { self.bump("stats_weak_verdicts"); }
                        if x["gated"] == json!(true) { self.bump("stats_gated_samples"); }
                        if x["st"] != json!("Bootstrap") { self.bump("stats_cc_seeded_samples"); }
                        if x["nak"].as_i64().unwrap_or(0) > 0 { self.bump("stats_nak_counted_samples"); }
                    }
                    o["st"] = json!({"mode": data["mode"].as_str().unwrap_or("?"), "active": data["active_links"].as_i64().unwrap_or(-1),
                                     "total": data["total_links"].as_i64().unwrap_or(-1), "tw": data["total_window"].as_i64().unwrap_or(-1),
                                     "tif": data["total_in_flight"].as_i64().unwrap_or(-1), "links": links});
                }
            } else if method == "priority.window.update" {
                self.bump("side_events_read");
                o["k"] = json!(data["k"].as_i64().unwrap_or(-1));
            }
            out.push(o);
        }
        out
    }

    fn link_of(&self, a: &SocketAddr) -> usize {
        match a.ip() {
            std::net::IpAddr::V4(v4) => (v4.octets()[3] as usize).wrapping_sub(10),
            _ => usize::MAX,
        }
    }

    fn frame_obs(&self, link: usize, src: &SocketAddr, b: &[u8]) -> Value {
        let cls = cls_of(b);
        let mut o = json!({"l": link as i64 + 1, "cls": cls, "len": b.len(), "dig": dig(b), "port": src.port()});
        match cls {
            "data" => o["seq"] = json!(get_srt_sequence_number(b).map(|s| s as i64).unwrap_or(-1)),
            "ka" => {
                o["ts"] = json!(extract_keepalive_timestamp(b).map(|t| t as i64 - T0 as i64).unwrap_or(-1));
                let info = extract_keepalive_conn_info(b);
                o["ext"] = json!(info.is_some());
                o["kw"] = json!(info.as_ref().map(|i| i.window as i64).unwrap_or(-1));
                o["ki"] = json!(info.as_ref().map(|i| i.in_flight as i64).unwrap_or(-1));
                o["std10"] = json!(b.len() >= 10 && b[0] == 0x90 && b[1] == 0x00);
            }
            "reg1" | "reg2" => {
                o["idlen"] = json!(b.len() as i64 - 2);
                o["grp"] = json!(self.group.is_some_and(|g| b.len() == 258 && g[..] == b[2..]));
            }
            _ => {}
        }
        o
    }

    /// srtla_rec as far as the sender can tell
    fn receiver_hears(&mut self, link: usize, src: SocketAddr, b: &[u8], now: u64) {
        if link >= self.n || self.path[link] == Path::Hole {
            return;
        }
        let at = now + self.rtt[link];
        let mut replies: Vec<Vec<u8>> = Vec::new();
        match cls_of(b) {
            "reg1" if b.len() == 258 && self.profile == "swallow" && self.swallow.is_none() => {
                // the first REG1 of the run is lost, and so is everything else the receiver would answer on that
                // uplink from now on: the attempt has to be abandoned and started again elsewhere
                self.swallow = Some(link);
                self.path[link] = Path::RepliesLost;
                self.bump("first_reg1_swallowed");
            }
            "reg1" if b.len() == 258 => {
                let mut g = [0u8; SRTLA_ID_LEN];
                g.copy_from_slice(&b[2..]);
                for (i, x) in g.iter_mut().enumerate().skip(128) {
                    *x = (mix(self.rx_count ^ i as u64 ^ 0x77) & 0xff) as u8;
                }
                self.group = Some(g);
                self.registered = vec![None; self.n];
                replies.push(create_reg2_packet(&g).to_vec());
            }
            "reg2" if b.len() == 258 => {
                if self.group.is_some_and(|g| g[..] == b[2..]) {
                    if self.victim_repaired && link + 1 == self.n && self.registered[link] != Some(src) {
                        self.bump("victim_rejoined_after_repair");
                    }
                    self.registered[link] = Some(src);
                    replies.push(SRTLA_TYPE_REG3.to_be_bytes().to_vec());
                } else {
                    replies.push(SRTLA_TYPE_REG_NGP.to_be_bytes().to_vec());
                }
            }
            "ka" => {
                if self.registered[link] == Some(src) {
                    replies.push(b.to_vec());
                } else if self.group.is_none() {
                    replies.push(SRTLA_TYPE_REG_NGP.to_be_bytes().to_vec());
                }
            }
            "data" if self.registered[link] == Some(src) => {
                if let Some(s) = get_srt_sequence_number(b) {
                    self.rx_count += 1;
                    if self.profile == "busy" && self.n >= 2 && link + 1 == self.n && now > T0 + 6_000 && now < T0 + 36_000 {
                        // a lossy uplink: for half a minute the receiver reports every packet it carries as lost
                        // (its window collapses, its share of the stream falls far below fair share, its loss
                        // average stays high), then it is clean again
                        let mut q = vec![0u8; 20];
                        q[0..2].copy_from_slice(&SRT_TYPE_NAK.to_be_bytes());
                        q[16..20].copy_from_slice(&s.to_be_bytes());
                        self.pending.push_back(Reply { at, link, to: src, bytes: q });
                        self.bump("lossy_link_reports");
                        return;
                    }
                    if self.profile == "outage" {
                        // numbers skipped so far are holes (first seen missing now); a late arrival fills its hole
                        if self.rx_hi != 0 && s > self.rx_hi + 1 && s - self.rx_hi < 5_000 {
                            for q in self.rx_hi + 1..s {
                                self.holes.push_back((q, now));
                            }
                        } else if s < self.rx_hi {
                            self.filled.insert(s);
                        }
                        if s > self.rx_hi {
                            self.rx_hi = s;
                        }
                        if self.filled.len() > 10_000 {
                            self.filled.clear();
                        }
                    }
                    self.rx_seqs.insert(s);
                    self.ack_buf[link].push(s);
                    if self.ack_buf[link].len() >= 10 {
                        let l: Vec<u32> = self.ack_buf[link].drain(..).collect();
                        self.ack_ctr += 1;
                        // (acct schedules: every fourth list comes back on another uplink than the one that carried the
                        // packets -- srtla_rec answers on the link of the LAST packet of a list, which is another one
                        // for packets that arrived earlier on a different link)
                        let other = if self.profile == "acct" && self.ack_ctr % 4 == 0 {
                            (0..self.n).map(|k| (link + 1 + k) % self.n).find(|o| *o != link && self.registered[*o].is_some() && self.path[*o] == Path::Up)
                        } else {
                            None
                        };
                        match other.and_then(|o| self.registered[o].map(|to| (o, to))) {
                            Some((o, to)) => {
                                self.pending.push_back(Reply { at: now + self.rtt[o], link: o, to, bytes: create_ack_packet(&l).to_vec() });
                                self.bump("ack_lists_via_other_link");
                            }
                            None => replies.push(create_ack_packet(&l).to_vec()),
                        }
                    }
                    if self.profile == "nak" {
                        // (copies are counted over the whole run: a retransmission may come much later)
                        *self.rx_copies.entry(s).or_insert(0) += 1;
                        if !self.recent_rx.iter().any(|e| e.0 == s) {
                            self.recent_rx.push_back((s, link, 1));
                        }
                        while self.recent_rx.len() > 12 {
                            self.recent_rx.pop_front();
                        }
                        if self.rx_count % 7 == 3 {
                            // a loss report: for numbers this receiver got exactly once a moment ago (so that exactly one
                            // uplink holds them, unless an ACK has retired them meanwhile), or never got at all
                            self.nak_ctr += 1;
                            let once: Vec<(u32, usize)> =
                                self.recent_rx.iter().filter(|e| self.rx_copies.get(&e.0) == Some(&1)).map(|e| (e.0, e.1)).collect();
                            let pick = |k: usize| once.get(once.len().saturating_sub(1 + k)).copied();
                            let mut list: Vec<u32> = Vec::new();
                            let mut via = link;
                            match self.nak_ctr % 7 {
                                0 => list.extend(pick(0).map(|x| x.0)),
                                1 => list.extend(pick(3).map(|x| x.0)),
                                2 => {
                                    // a range whose members were each received once
                                    if let (Some(a), Some(b)) = (pick(2), pick(0)) {
                                        if a.0 < b.0 && b.0 - a.0 <= 4 && (a.0..=b.0).all(|q| once.iter().any(|e| e.0 == q)) {
                                            list.push(a.0 | 0x8000_0000);
                                            list.push(b.0);
                                            self.bump("nak_ranges");
                                        } else {
                                            list.push(b.0);
                                        }
                                    }
                                }
                                3 => {
                                    // the same number twice in one report
                                    if let Some(a) = pick(1) {
                                        list.push(a.0);
                                        list.push(a.0);
                                        self.bump("nak_repeats");
                                    }
                                }
                                4 => {
                                    list.push(s + 50_000); // never sent
                                    self.bump("nak_unknown");
                                }
                                5 => {
                                    // the report comes back on another uplink than the one that carried the packet
                                    if let Some(a) = pick(0) {
                                        list.push(a.0);
                                        if let Some(o) = (0..self.n).find(|o| *o != a.1 && self.registered[*o].is_some() && self.path[*o] == Path::Up) {
                                            via = o;
                                            self.bump("nak_via_other_link");
                                        }
                                    }
                                }
                                _ => {
                                    // one number, reported again in the next report
                                    if let Some(a) = pick(0) {
                                        list.push(a.0);
                                        if let Some(b) = pick(4) {
                                            list.push(b.0);
                                        }
                                    }
                                }
                            }
                            if !list.is_empty() {
                                let mut q = vec![0u8; 16 + 4 * list.len()];
                                q[0..2].copy_from_slice(&SRT_TYPE_NAK.to_be_bytes());
                                for (k, x) in list.iter().enumerate() {
                                    q[16 + 4 * k..20 + 4 * k].copy_from_slice(&x.to_be_bytes());
                                }
                                if via == link {
                                    replies.push(q);
                                } else if let Some(to) = self.registered[via] {
                                    let at2 = now + self.rtt[via];
                                    self.pending.push_back(Reply { at: at2, link: via, to, bytes: q });
                                }
                                self.bump("nak_reports");
                            }
                        }
                    }
                    if self.rx_count % 16 == 0 {
                        // SRT-level traffic for the client: a cumulative ACK, now and then a NAK or other control
                        let mut top = *self.rx_seqs.iter().next_back().unwrap();
                        if self.profile == "outage" {
                            // as SRT does it: the cumulative ACK does not move past a packet that has not arrived -- until
                            // that packet is too late to matter (2.5 s), when it is given up.  What was sent into a
                            // black hole therefore stays outstanding on the uplink that carried it for a while.
                            while let Some((s0, t0)) = self.holes.front().copied() {
                                if now >= t0 + 2_500 || self.filled.remove(&s0) {
                                    self.holes.pop_front();
                                } else {
                                    top = top.min(s0.saturating_sub(1));
                                    break;
                                }
                            }
                        }
                        let mut p = vec![(self.rx_count & 0xff) as u8; 44];
                        p[0..2].copy_from_slice(&SRT_TYPE_ACK.to_be_bytes());
                        p[16..20].copy_from_slice(&top.to_be_bytes());
                        replies.push(p);
                        if self.rx_count % 64 == 0 && self.profile != "acct" && self.profile != "nak" {
                            let mut q = vec![(self.rx_count >> 3 & 0xff) as u8; 24];
                            q[0..2].copy_from_slice(&SRT_TYPE_NAK.to_be_bytes());
                            q[16..20].copy_from_slice(&top.saturating_sub(3).to_be_bytes());
                            q.truncate(20);
                            replies.push(q);
                        }
                        if self.rx_count % 48 == 0 {
                            let mut q = vec![(self.rx_count >> 2 & 0xff) as u8; 32];
                            q[0..2].copy_from_slice(&0x8006u16.to_be_bytes());
                            replies.push(q);
                        }
                        let keep: Vec<u32> = self.rx_seqs.iter().rev().take(200).copied().collect();
                        self.rx_seqs = keep.into_iter().collect();
                    }
                }
            }
            _ => {}
        }
        if self.path[link] == Path::Up {
            for r in replies {
                self.pending.push_back(Reply { at, link, to: src, bytes: r });
            }
        }
    }

    /// deliver the answers that are due, let the loop digest everything, read both sockets
    fn finish(&mut self, mut line: Value) -> Value {
        let now = self.now();
        let mut rx = Vec::new();
        let mut keep = VecDeque::new();
        let mut last_link: Option<usize> = None;
        while let Some(r) = self.pending.pop_front() {
            if r.at <= now {
                // datagrams for one socket are read in order; those for different sockets go through different reader
                // tasks, so the loop is left to digest what it has before the next uplink's answers are sent: the order
                // in which the sender processes the answers of one step is the order they are logged in
                if last_link.is_some_and(|l| l != r.link) {
                    self.settle();
                }
                last_link = Some(r.link);
                if self.path[r.link] == Path::Up && self.cur_addr[r.link] == Some(r.to)
                    && self.receiver.send_to(&r.bytes, r.to).is_ok()
                {
                    let cls = cls_of(&r.bytes);
                    let m = |x: u32| -> i64 { if x >= 0x8000_0000 { -1 } else { x as i64 } };
                    let nums: Vec<i64> = match cls {
                        "srtla_ack" => parse_srtla_ack(&r.bytes).iter().map(|x| m(*x)).collect(),
                        "srt_ack" => parse_srt_ack(&r.bytes).map(|x| vec![m(x)]).unwrap_or_default(),
                        "srt_nak" => parse_srt_nak(&r.bytes).iter().map(|x| m(*x)).collect(),
                        _ => Vec::new(),
                    };
                    rx.push(json!({"l": r.link as i64 + 1, "cls": cls, "len": r.bytes.len(), "dig": dig(&r.bytes),
                                   "port": r.to.port(), "nums": nums}));
                    self.last_reply_at[r.link] = (now - T0) as i64;
                    if matches!(cls, "srtla_ack" | "srt_ack" | "reg3") {
                        self.last_ack_rx = now;
                    }
                    self.bump(match cls {
                        "reg2" => "rx_reg2", "reg3" => "rx_reg3", "ka" => "rx_keepalive_echo", "srtla_ack" => "rx_srtla_ack",
                        "srt_ack" => "rx_srt_ack", "srt_nak" => "rx_srt_nak", "reg_ngp" => "rx_reg_ngp", _ => "rx_other",
                    });
                }
            } else {
                keep.push_back(r);
            }
        }
        self.pending = keep;
        self.settle();
        let mut wire = Vec::new();
        let mut heard = Vec::new();
        let mut buf = [0u8; 2048];
        while let Ok((k, a)) = self.receiver.recv_from(&mut buf) {
            let l = self.link_of(&a);
            if l < self.n && cls_of(&buf[..k]) == "data" {
                let d = dig(&buf[..k]) as u64;
                match self.seen_digs.get(&d) {
                    Some(&other) if other != l => self.bump("probe_duplicates_on_gated_links"),
                    _ => {
                        if self.seen_digs.len() > 20_000 {
                            self.seen_digs.clear();
                        }
                        self.seen_digs.insert(d, l);
                    }
                }
            }
            if l < self.n && cls_of(&buf[..k]) == "ka" {
                let prev = self.last_ka[l];
                if prev != 0 && self.classic_since.is_some_and(|t| t < prev) && self.last_ack_rx < prev {
                    self.bump("classic_quiet_keepalive_pairs");
                }
                self.last_ka[l] = now;
            }
            if l < self.n {
                if self.cur_addr[l].is_some_and(|x| x != a) {
                    self.bump("sockets_recreated");
                }
                self.cur_addr[l] = Some(a);
            }
            wire.push(self.frame_obs(l, &a, &buf[..k]));
            self.bump(match cls_of(&buf[..k]) {
                "ka" => "wire_keepalive", "reg1" => "wire_reg1", "reg2" => "wire_reg2", "data" => "wire_data", _ => "wire_other",
            });
            heard.push((l, a, buf[..k].to_vec()));
        }
        for (l, a, b) in heard {
            self.receiver_hears(l, a, &b, now);
        }
        let mut cl = Vec::new();
        while let Ok((k, _)) = self.client.recv_from(&mut buf) {
            cl.push(json!({"len": k, "dig": dig(&buf[..k]), "cls": cls_of(&buf[..k])}));
            self.bump("client_deliveries");
        }
        line["pub"] = json!(self.drain_readers());
        let att: Vec<Value> = self.attempts.lock().unwrap().drain(..).map(|(ip, t, ok)| {
            let l = match ip { std::net::IpAddr::V4(v4) => v4.octets()[3] as i64 - 9, _ => 0 };
            json!({"l": l, "t": (t.max(T0) - T0) as i64, "ok": ok})
        }).collect();
        for a in &att {
            if a["ok"] == json!(false) { self.bump("socket_open_attempts_refused"); }
        }
        line["binds"] = json!(att);
        line["t"] = json!((now - T0) as i64);
        line["wire"] = json!(wire);
        line["rx"] = json!(rx);
        line["client"] = json!(cl);
        line["up"] = json!(self.path.iter().map(|p| *p == Path::Up).collect::<Vec<_>>());
        line["reg"] = json!(self.registered.iter().map(|r| r.map(|a| a.port() as i64).unwrap_or(0)).collect::<Vec<_>>());
        line["lastrx"] = json!(self.last_reply_at.clone());
        line["alive"] = json!(self.task.as_ref().is_some_and(|t| !t.is_finished()));
        line
    }
}

impl Drop for LoopSim {
    fn drop(&mut self) {
        self.stop();
        let _ = std::fs::remove_file(self.ips_path());
    }
}

impl Engine for LoopSim {
    fn configure(&mut self, args: &[String]) {
        if let Some(i) = args.iter().position(|a| a == "--work") {
            if let Some(d) = args.get(i + 1) {
                self.work = d.clone();
            }
        }
    }

    fn reset(&mut self, cfg: &Value, _case_key: u64) {
        self.stop();
        self.n = cfg.get("links").and_then(Value::as_u64).unwrap_or(2) as usize;
        self.profile = cfg.get("profile").and_then(Value::as_str).unwrap_or("steady").to_string();
        self.listed = (0..self.n).collect();
        if self.profile == "reload" {
            // the receiver side knows all four addresses; the file starts with the first `links` of them
            self.n = 4;
        }
        self.steps_total = cfg.get("steps").and_then(Value::as_u64).unwrap_or(3000);
        self.timeout_ms = cfg.get("timeout").and_then(Value::as_u64).unwrap_or(5000);
        self.path = vec![Path::Up; self.n];
        if self.profile == "blackout" && self.n >= 2 {
            // the last uplink never comes up
            self.path[self.n - 1] = Path::Hole;
        }
        self.rtt = (0..self.n).map(|i| cfg["rtt"].get(i).and_then(Value::as_u64).unwrap_or(20)).collect();
        self.group = None;
        self.registered = vec![None; self.n];
        self.pending.clear();
        self.ack_buf = vec![vec![]; self.n];
        self.rx_seqs.clear();
        self.rx_count = 0;
        self.last_reply_at = vec![-1; self.n];
        self.cur_addr = vec![None; self.n];
        self.next_seq = 5000 + (cfg.get("seed").and_then(Value::as_u64).unwrap_or(0) % 1000) as u32 * 100_000;
        self.pkt_ctr = 0;
        self.client_idx = 0;
        self.steps_done = 0;
        self.victim_down_at = None;
        self.victim_repaired = false;
        self.idle_left = 0;
        self.dense = std::env::var("VH_DENSE").is_ok();
        self.refail = None;
        self.refail_at = None;
        self.next_amnesia = T0 + 8_000;
        self.last_ack_rx = 0;
        self.last_ka = vec![0; self.n];
        self.seen_digs.clear();
        self.recent_rx.clear();
        self.rx_copies.clear();
        self.nak_ctr = 0;
        self.ack_ctr = 0;
        self.bind_phase = 0;
        self.run_no += 1;
        self.holes.clear();
        self.filled.clear();
        self.rx_hi = 0;
        self.swallow = None;
        self.swallow_told = false;
        self.blackout_phase = 0;
        self.weak_run = [0; 8];
        self.guard_phase = 0;
        self.config = srtla_send::DynamicConfig::new();
        if cfg.get("classic").and_then(Value::as_bool).unwrap_or(false) {
            self.config.set_mode(SchedulingMode::Classic);
        }
        self.config.set_conn_timeout_ms(self.timeout_ms);
        self.classic_since = if self.config.mode().is_classic() { Some(T0) } else { None };
    }

    fn apply(&mut self, ev: &Value) -> Value {
        let name = gets(ev, "ev").to_string();
        let mut line = json!({});
        match name.as_str() {
            "Init" => {
                // start the real loop
                let text: String = self.listed.iter().map(|i| format!("127.0.0.{}\n", 10 + i)).collect();
                std::fs::write(self.ips_path(), text).expect("write ips file");
                self.rt.block_on(async { START.with(|s| s.set(Some(tokio::time::Instant::now()))) });
                srtla_core::verif::set_clock_fn(Some(vnow));
                // the local SRT port is picked by binding port 0 and releasing it; another process may grab it in
                // between (parallel checks), in which case the loop returns at once with a bind error: try again
                let mut subs: Vec<Value> = Vec::new();
                for attempt in 0..8 {
                    self.srt_port = StdUdp::bind("[::]:0").and_then(|s| s.local_addr()).map(|a| a.port()).expect("free port");
                    let (path, rport, port, config) = (self.ips_path(), self.rport, self.srt_port, self.config.clone());
                    self.taps.lock().unwrap().clear();
                    self.refuse.lock().unwrap().clear();
                    self.attempts.lock().unwrap().clear();
                    let binder: Arc<dyn UplinkBinder> =
                        Arc::new(TapBinder { taps: self.taps.clone(), refuse: self.refuse.clone(), attempts: self.attempts.clone() });
                    let hub = srtla_send::subscriptions::SubscriptionHub::new();
                    for r in self.readers.drain(..) {
                        r.task.abort();
                    }
                    self.hub = Some(hub.clone());
                    subs.clear();
                    // a control client that reads every stats line the loop publishes
                    subs.push(self.subscribe_reader("stats"));
                    if self.profile == "stalledsub" {
                        subs.push(self.subscribe_reader("priority.window"));
                    }
                    self.stalled_subs.clear();
                    if self.profile == "stalledsub" {
                        // two connected control clients that never read: queues of 1 and 2 lines, on `stats` (published
                        // by the loop every second) -- they are full after the first passes and stay open
                        for cap in [1usize, 2] {
                            let (tx, rx) = tokio::sync::mpsc::channel::<String>(cap);
                            let h = hub.clone();
                            self.rt.block_on(async move { h.subscribe("stats", tx).await });
                            self.stalled_subs.push(rx);
                        }
                        for cap in [1usize, 3] {
                            let (tx, rx) = tokio::sync::mpsc::channel::<String>(cap);
                            let h = hub.clone();
                            self.rt.block_on(async move { h.subscribe("priority.window", tx).await });
                            self.stalled_subs.push(rx);
                        }
                        // the sidecar's role: edge events on another topic, published from another task
                        let h = hub.clone();
                        self.side = Some(self.rt.spawn(async move {
                            let mut k = 0u64;
                            // not before the session is up: the observer's obligations start there
                            tokio::time::sleep(std::time::Duration::from_millis(6100)).await;
                            loop {
                                k += 1;
                                h.publish("priority.window", json!({"open": k % 2 == 0, "k": k})).await;
                                tokio::time::sleep(std::time::Duration::from_millis(270)).await;
                            }
                        }));
                        self.bump("stalled_subscribers");
                    }
                    let task = self.rt.spawn(async move {
                        srtla_send::sender::run_sender_with_config(
                            port, "127.0.0.1", rport, &path, config, srtla_send::stats::SharedStats::new(),
                            CriticalWindow::new(), hub, binder,
                        )
                        .await
                    });
                    self.settle();
                    if !task.is_finished() {
                        self.task = Some(task);
                        break;
                    }
                    let res = self.rt.block_on(task);
                    if attempt == 7 {
                        panic!("harness: the event loop does not start: {res:?}");
                    }
                    // whatever the failed start put on the wire belongs to no run
                    let mut buf = [0u8; 2048];
                    while self.receiver.recv_from(&mut buf).is_ok() {}
                }
                line["n"] = json!(self.n);
                line["listed"] = json!(self.listed.iter().map(|i| *i as i64 + 1).collect::<Vec<_>>());
                line["mode"] = json!(if self.config.mode().is_classic() { "classic" } else { "enhanced" });
                line["timeout"] = json!(self.timeout_ms);
                line["profile"] = json!(self.profile.clone());
                line["subs"] = json!(subs);
                line["d"] = json!(0);
            }
            "Sub" => {
                let o = self.subscribe_reader(gets(ev, "topic"));
                line["slot"] = o["slot"].clone();
                line["sid"] = o["sid"].clone();
                line["topic"] = o["topic"].clone();
                line["d"] = json!(0);
            }
            "Unsub" => {
                let k = geti(ev, "slot") as usize - 1;
                let hub = self.hub.clone().expect("hub");
                let sid = self.readers[k].sid.clone();
                let was = self.rt.block_on(async move { hub.unsubscribe(&sid).await });
                self.readers[k].open = false;
                line["slot"] = json!(k + 1);
                line["was"] = json!(was);
                line["d"] = json!(0);
                self.bump("subscriptions_closed");
            }
            "Advance" => {
                let d = geti(ev, "d") as u64;
                self.rt.block_on(async { tokio::time::sleep(std::time::Duration::from_millis(d)).await });
            }
            "Client" => {
                let kind = gets(ev, "kind");
                let len = geti(ev, "len") as usize;
                self.pkt_ctr += 1;
                self.client_idx += 1;
                let mut pkt = vec![(self.pkt_ctr & 0xff) as u8; len.max(16)];
                match kind {
                    "ctrl" => {
                        pkt[0] = 0x80;
                        pkt[1] = [0x00, 0x01, 0x02, 0x03, 0x05][(self.pkt_ctr % 5) as usize];
                    }
                    _ => {
                        let seq = geti(ev, "seq") as u32;
                        pkt[0..4].copy_from_slice(&(seq & 0x7fff_ffff).to_be_bytes());
                        pkt[4] = if kind == "rexmit" { 0x04 } else { 0 };
                    }
                }
                // unique payload: the counter in the body
                pkt[8..12].copy_from_slice(&self.pkt_ctr.to_be_bytes());
                pkt[12..16].copy_from_slice(&(mix(self.pkt_ctr as u64) as u32).to_be_bytes());
                let ok = self.client.send_to(&pkt, ("127.0.0.1", self.srt_port)).is_ok();
                line["k"] = json!(self.client_idx);
                line["dig"] = json!(dig(&pkt));
                line["plen"] = json!(pkt.len());
                line["sent"] = json!(ok);
                line["d"] = json!(0);
                self.bump("client_packets");
            }
            "SetPath" => {
                let l = geti(ev, "l") as usize - 1;
                self.path[l] = match gets(ev, "p") {
                    "hole" => Path::Hole,
                    "replies_lost" => Path::RepliesLost,
                    _ => Path::Up,
                };
                line["d"] = json!(0);
                self.bump("path_changes");
            }
            "Reload" => {
                // rewrite the IP file and send the process a SIGHUP; the loop applies the list at its next housekeeping pass
                let list: Vec<usize> = ev["list"].as_array().unwrap().iter().map(|x| x.as_u64().unwrap() as usize - 1).collect();
                let garbage = ev.get("garbage").and_then(Value::as_bool).unwrap_or(false);
                let mut text = String::new();
                for (k, i) in list.iter().enumerate() {
                    if garbage && k % 2 == 0 {
                        text.push_str("  \nnot-an-address\n");
                    }
                    text.push_str(&format!(" 127.0.0.{} \n", 10 + i));
                }
                if list.is_empty() && garbage {
                    text.push_str("\n\nnonsense 1.2.3\n");
                }
                std::fs::write(self.ips_path(), text).expect("write ips file");
                let own = &mut self.own_hup;
                let seen = self.rt.block_on(async {
                    unsafe {
                        raise(SIGHUP);
                    }
                    let mut seen = false;
                    for _ in 0..20_000 {
                        tokio::select! {
                            biased;
                            _ = own.recv() => { seen = true; }
                            _ = std::future::ready(()) => {}
                        }
                        if seen {
                            break;
                        }
                        tokio::task::yield_now().await;
                    }
                    seen
                });
                if !seen {
                    panic!("harness: SIGHUP was not delivered");
                }
                let refused = list.is_empty();
                if !refused {
                    // (duplicates in the file count once)
                    let mut l2: Vec<usize> = Vec::new();
                    for i in &list {
                        if !l2.contains(i) {
                            l2.push(*i);
                        }
                    }
                    self.listed = l2;
                }
                line["refused"] = json!(refused);
                line["listed"] = json!(self.listed.iter().map(|i| *i as i64 + 1).collect::<Vec<_>>());
                line["d"] = json!(0);
                self.bump(if refused { "reloads_refusable" } else { "reloads" });
            }
            "SendFail" => {
                // from now on the kernel refuses every send on link l's current socket (EPIPE)
                let l = geti(ev, "l") as usize - 1;
                let ip = std::net::IpAddr::V4(std::net::Ipv4Addr::new(127, 0, 0, 10 + l as u8));
                let ok = self.taps.lock().unwrap().get(&ip).map(|s| s.shutdown(std::net::Shutdown::Write).is_ok());
                line["done"] = json!(ok == Some(true));
                line["d"] = json!(0);
                self.bump("send_failures_injected");
            }
            "BindFail" => {
                // from now on (or no longer) a socket for link l's address cannot be opened
                let l = geti(ev, "l") as usize - 1;
                let ip = std::net::IpAddr::V4(std::net::Ipv4Addr::new(127, 0, 0, 10 + l as u8));
                let on = ev.get("on").and_then(Value::as_bool).unwrap_or(true);
                if on { self.refuse.lock().unwrap().insert(ip); } else { self.refuse.lock().unwrap().remove(&ip); }
                line["d"] = json!(0);
                self.bump("bind_refusals_switched");
            }
            "Amnesia" => {
                // the receiver restarts: it knows no group and no link any more
                self.group = None;
                self.registered = vec![None; self.n];
                self.pending.clear();
                for b in self.ack_buf.iter_mut() {
                    b.clear();
                }
                line["d"] = json!(0);
                self.bump("receiver_restarts");
            }
            "SetCfg" => {
                if let Some(m) = ev.get("classic").and_then(Value::as_bool) {
                    self.config.set_mode(if m { SchedulingMode::Classic } else { SchedulingMode::Enhanced });
                    self.classic_since = if m { Some(self.now()) } else { None };
                }
                if let Some(g) = ev.get("guard").and_then(Value::as_bool) {
                    self.config.set_stall_deselect(g);
                }
                line["d"] = json!(0);
                self.bump("config_changes");
            }
            other => panic!("unknown event {other}"),
        }
        self.steps_done += 1;
        self.finish(line)
    }

    fn gen_cfg(&mut self, rng: &mut StdRng) -> Value {
        let profile = std::env::var("VH_PROFILE").unwrap_or_else(|_| "steady".into());
        // (an outage needs a link to lose and one to survive)
        let lo = if profile == "outage" || profile == "blackout" || profile == "swallow" { 2 } else { 1 };
        let n = std::env::var("VH_LINKS").ok().and_then(|s| s.parse().ok()).unwrap_or_else(|| rng.random_range(lo..=4));
        let steps = std::env::var("VH_STEPS").ok().and_then(|s| s.parse().ok()).unwrap_or(3000u64);
        let rtt: Vec<u64> = (0..n).map(|_| [3u64, 8, 20, 45, 90][rng.random_range(0..5)]).collect();
        // (dense outage runs are there for the stall guard: the victim must not be torn down before the latch has been
        // seen engaged in a few stats lines)
        let timeout = if profile == "outage" && std::env::var("VH_DENSE").is_ok() {
            let _ = rng.random_range(0..3);
            8000
        } else if profile == "outage" {
            [2000u64, 5000, 8000][rng.random_range(0..3)]
        } else {
            5000
        };
        json!({"links": n, "profile": profile, "steps": steps, "rtt": rtt, "timeout": timeout,
               "classic": rng.random_range(0..3) == 0, "seed": rng.random_range(0..1000)})
    }

    fn gen_event(&mut self, rng: &mut StdRng) -> Option<Value> {
        let outage = self.profile == "outage";
        let now = self.now();
        // the outage schedule: once the session is up, the last link is black-holed for a long while, then
        // repaired; nothing else goes wrong
        if outage && self.n >= 2 {
            let victim = self.n - 1;
            let up = self.registered.iter().filter(|r| r.is_some()).count() == self.n;
            if self.victim_down_at.is_none() && up && self.steps_done * 10 >= self.steps_total {
                self.victim_down_at = Some(now);
                let p = if rng.random_range(0..3) == 0 { "replies_lost" } else { "hole" };
                // every other outage also takes the interface away: the victim's socket cannot be re-opened either
                self.bind_phase = if self.run_no % 2 == 0 { 1 } else { 0 };
                return Some(json!({"ev": "SetPath", "l": victim + 1, "p": p}));
            }
            if self.bind_phase == 1 {
                self.bind_phase = 2;
                return Some(json!({"ev": "BindFail", "l": victim + 1, "on": true}));
            }
            if self.bind_phase == 2 && self.victim_down_at.is_some_and(|t0| now > t0 + self.timeout_ms + 12_500) {
                self.bind_phase = 3;
                return Some(json!({"ev": "BindFail", "l": victim + 1, "on": false}));
            }
            if let Some(t0) = self.victim_down_at {
                // dense runs: once the victim's backlog has gone stale (the stall guard has it latched) the guard is
                // switched off for a few seconds, then on again
                if self.dense && !self.victim_repaired {
                    if self.guard_phase == 0 && now > t0 + 4_400 {
                        self.guard_phase = 1;
                        self.bump("guard_switched_off_mid_outage");
                        return Some(json!({"ev": "SetCfg", "guard": false}));
                    }
                    if self.guard_phase == 1 && now > t0 + 7_400 {
                        self.guard_phase = 2;
                        return Some(json!({"ev": "SetCfg", "guard": true}));
                    }
                }
                // the outage lasts in virtual time (long enough for the configured timeout to expire and a few retries to
                // be made), whatever number of steps the dense phase consumed; the step bound is only a backstop
                if !self.victim_repaired
                    && (now > t0 + self.timeout_ms + 14_000 || self.steps_done * 100 >= self.steps_total * 85)
                {
                    self.victim_repaired = true;
                    return Some(json!({"ev": "SetPath", "l": victim + 1, "p": "up"}));
                }
            }
        }
        if self.profile == "swallow" {
            if let (Some(l), false) = (self.swallow, self.swallow_told) {
                self.swallow_told = true;
                return Some(json!({"ev": "SetPath", "l": l + 1, "p": "replies_lost"}));
            }
            // mostly time: the abandoned attempt, the other links' grace and retry take a dozen seconds
            if self.registered.iter().all(|r| r.is_none()) && rng.random_range(0..3) != 0 {
                return Some(json!({"ev": "Advance", "d": rng.random_range(20..300)}));
            }
        }
        if self.profile == "blackout" && self.n >= 2 {
            // an established session over all uplinks but the last (which never registered); then every path goes
            // dark for longer than the timeout while the client keeps sending; then all of them are repaired
            let live = self.n - 1;
            let up = self.registered.iter().take(live).all(|r| r.is_some());
            if self.blackout_phase == 0 && up && self.steps_done * 10 >= self.steps_total * 2 {
                self.blackout_phase = 1;
            }
            if (1..=live).contains(&self.blackout_phase) {
                let l = self.blackout_phase;
                self.blackout_phase = if l == live { 100 } else { l + 1 };
                if l == live {
                    self.victim_down_at = Some(now);
                    self.bump("total_blackouts");
                }
                return Some(json!({"ev": "SetPath", "l": l, "p": "hole"}));
            }
            if self.blackout_phase == 100 && self.victim_down_at.is_some_and(|t0| now > t0 + self.timeout_ms + 9_000) {
                self.blackout_phase = 101;
            }
            if (101..=100 + self.n).contains(&self.blackout_phase) {
                let l = self.blackout_phase - 100;
                self.blackout_phase = if l == self.n { 200 } else { self.blackout_phase + 1 };
                return Some(json!({"ev": "SetPath", "l": l, "p": "up"}));
            }
            if self.blackout_phase == 100 && rng.random_range(0..2) == 0 {
                // mostly time while it is dark
                let d = rng.random_range(20..400);
                return Some(json!({"ev": "Advance", "d": d}));
            }
        }
        if self.profile == "reload" {
            let up = self.listed.iter().all(|i| self.registered[*i].is_some());
            if up && now >= self.next_amnesia {
                self.next_amnesia = now + 6_000 + rng.random_range(0..6_000);
                // a new list: a non-empty subset of the four addresses in some order (sometimes with a duplicate or
                // garbage lines), or -- one time in six -- nothing usable at all
                let mut list: Vec<u64> = Vec::new();
                if rng.random_range(0..6) != 0 {
                    for i in 1..=4u64 {
                        if rng.random_range(0..2) == 0 {
                            list.push(i);
                        }
                    }
                    if list.is_empty() {
                        list.push(rng.random_range(1..=4));
                    }
                    if rng.random_range(0..2) == 0 {
                        list.reverse();
                    }
                    if rng.random_range(0..2) == 0 {
                        // a repeated line, not next to its first occurrence when the list is long enough
                        let d = list[rng.random_range(0..list.len())];
                        list.push(d);
                    }
                }
                return Some(json!({"ev": "Reload", "list": list, "garbage": rng.random_range(0..2) == 0}));
            }
            if rng.random_range(0..3) == 0 {
                let d = rng.random_range(20..300);
                let d = match self.pending.iter().map(|r| r.at).min() {
                    Some(at) if at > now => d.min(at - now),
                    _ => d,
                };
                return Some(json!({"ev": "Advance", "d": d.max(1)}));
            }
        }
        if self.profile == "sendfail" {
            let up = self.registered.iter().filter(|r| r.is_some()).count() == self.n;
            if let Some((l, old, delay)) = self.refail {
                if self.refail_at.is_none() && self.registered[l].is_some() && self.registered[l] != old {
                    self.refail_at = Some(now + delay);
                }
                if self.refail_at.is_some_and(|t| now >= t) {
                    self.refail = None;
                    self.refail_at = None;
                    self.bump("flap_failures_injected");
                    return Some(json!({"ev": "SendFail", "l": l + 1}));
                }
            }
            if up && self.refail.is_none() && rng.random_range(0..300) == 0 {
                let l = rng.random_range(1..=self.n);
                if rng.random_range(0..2) == 0 {
                    self.refail = Some((l - 1, self.registered[l - 1], rng.random_range(300..3000)));
                }
                return Some(json!({"ev": "SendFail", "l": l}));
            }
            if rng.random_range(0..3) == 0 {
                let d = rng.random_range(20..300);
                let d = match self.pending.iter().map(|r| r.at).min() {
                    Some(at) if at > now => d.min(at - now),
                    _ => d,
                };
                return Some(json!({"ev": "Advance", "d": d.max(1)}));
            }
        }
        if self.profile == "amnesia" {
            let up = self.registered.iter().filter(|r| r.is_some()).count() == self.n;
            if up && now >= self.next_amnesia {
                self.next_amnesia = now + 20_000 + rng.random_range(0..15_000);
                return Some(json!({"ev": "Amnesia"}));
            }
            // mostly time: a restart takes the configured timeout plus a handshake to heal
            if rng.random_range(0..3) != 0 {
                let d = rng.random_range(20..400);
                let d = match self.pending.iter().map(|r| r.at).min() {
                    Some(at) if at > now => d.min(at - now),
                    _ => d,
                };
                return Some(json!({"ev": "Advance", "d": d.max(1)}));
            }
        }
        if self.profile == "stalledsub" && now > T0 + 7_000 && rng.random_range(0..40) == 0 {
            // control clients come and go (the first two stay for the whole run)
            let open: Vec<usize> = (2..self.readers.len()).filter(|k| self.readers[*k].open).collect();
            if open.len() < 3 && (open.is_empty() || rng.random_range(0..2) == 0) && self.readers.len() < 40 {
                return Some(json!({"ev": "Sub", "topic": if rng.random_range(0..3) == 0 { "priority.window" } else { "stats" }}));
            } else if !open.is_empty() {
                return Some(json!({"ev": "Unsub", "slot": open[rng.random_range(0..open.len())] + 1}));
            }
        }
        if self.idle_left > 0 {
            self.idle_left -= 1;
            let d = rng.random_range(150..700);
            let d = match self.pending.iter().map(|r| r.at).min() {
                Some(at) if at > now => d.min(at - now),
                _ => d,
            };
            return Some(json!({"ev": "Advance", "d": d.max(1)}));
        }
        if self.profile == "busy" {
            // a steady stream well above the classifier's throughput floor, for a long while
            if rng.random_range(0..2) == 0 {
                let d = rng.random_range(5..36);
                let d = match self.pending.iter().map(|r| r.at).min() {
                    Some(at) if at > now => d.min(at - now),
                    _ => d,
                };
                return Some(json!({"ev": "Advance", "d": d.max(1)}));
            }
            let s = self.next_seq;
            self.next_seq += 1;
            return Some(json!({"ev": "Client", "kind": "data", "seq": s, "len": 1332}));
        }
        let r = rng.random_range(0..1000);
        if !outage && rng.random_range(0..250) == 0 {
            // the client pauses for a few seconds (no data, so soon no ACKs either)
            self.idle_left = rng.random_range(8..16);
            self.bump("idle_periods");
            if rng.random_range(0..2) == 0 {
                return Some(json!({"ev": "SetCfg", "classic": rng.random_range(0..3) != 0}));
            }
        }
        if r < 4 && !outage {
            return Some(match rng.random_range(0..2) {
                0 => json!({"ev": "SetCfg", "classic": rng.random_range(0..2) == 0}),
                _ => json!({"ev": "SetCfg", "guard": rng.random_range(0..3) != 0}),
            });
        }
        // right after the victim's path went down the stream is dense for a few seconds, so that the victim holds a
        // real backlog when its delivery proof goes stale (stall guard / silence pull engage, probe copies appear)
        let dense = outage && self.dense && self.victim_down_at.is_some_and(|t0| now < t0 + 1800) && !self.victim_repaired;
        let adv = if dense { 250 } else if outage { 600 } else { 420 };
        if r < adv {
            let d = if dense {
                rng.random_range(2..7)
            } else if outage {
                match rng.random_range(0..6) {
                    0 => rng.random_range(1..6),
                    1 | 2 => rng.random_range(20..120),
                    _ => rng.random_range(120..600),
                }
            } else {
                match rng.random_range(0..40) {
                    0 => rng.random_range(200..1200),
                    1 | 2 => rng.random_range(15..60),
                    3 | 4 => rng.random_range(6..16),
                    _ => rng.random_range(1..6),
                }
            };
            // never jump past an answer that is on its way: the network delivers it when it is due
            let d = match self.pending.iter().map(|r| r.at).min() {
                Some(at) if at > now => d.min(at - now),
                _ => d,
            };
            return Some(json!({"ev": "Advance", "d": d.max(1)}));
        }
        // the client stream
        let kindr = rng.random_range(0..100);
        let (kind, seq) = if kindr < 8 {
            ("ctrl", 0)
        } else if kindr < 14 && self.next_seq > 5010 {
            // (under the nak schedule only numbers the receiver will not report any more: what a retransmission
            // racing a loss report does to the attribution is not observable from outside)
            let back = if self.profile == "nak" { rng.random_range(20..40) } else { rng.random_range(0..10) };
            ("rexmit", self.next_seq.saturating_sub(1 + back).max(5000))
        } else {
            let s = self.next_seq;
            self.next_seq += 1;
            ("data", s)
        };
        let len = match rng.random_range(0..12) {
            0 => rng.random_range(16..40),
            1 => 1500,
            2 => rng.random_range(40..400),
            _ => 1332,
        };
        Some(json!({"ev": "Client", "kind": kind, "seq": seq, "len": len}))
    }

    fn counters(&self) -> Value {
        json!(self.c)
    }
}
