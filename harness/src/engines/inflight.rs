//! C02 engine: per-link in-flight accounting through the real
//! `queue_data_packet` + `take_batch`, `process_connection_events`
//! (cumulative SRT ACKs, SRTLA ACK lists), `attribute_nak` and the three
//! reset flavours.

use rand::Rng;
use rand::rngs::StdRng;
use serde_json::{Value, json};
use smallvec::SmallVec;
use srtla_core::connection::{SrtlaConnection, SrtlaIncoming};
use srtla_send::sender::verif_hooks::{SequenceTracker, attribute_nak, process_connection_events};
use tokio::net::UdpSocket;

use crate::engine::Engine;
use crate::util::{T0, geti, gets, live_conn, mix, rt, srt_data};

pub struct InFlightEngine {
    rt: tokio::runtime::Runtime,
    listener: UdpSocket,
    conns: Vec<SrtlaConnection>,
    tracker: SequenceTracker,
    use_tracker: bool,
    nak_mode: bool,
    base: u32,
    scale: u32,
    now: u64,
    key: u64,
    nstep: u64,
    classic: bool,
    // generator state
    next_seq: u32,
    sent: Vec<u32>,
    last_ack: u32,
    // counters
    c_fast: u64,
    c_slow: u64,
    c_skip: u64,
    c_resend_below_hwm: u64,
    c_other_holder: u64,
    c_nak_charged: u64,
    c_reset: u64,
}

impl InFlightEngine {
    pub fn new() -> Self {
        let rt = rt();
        let listener = rt.block_on(async { UdpSocket::bind("127.0.0.1:0").await.unwrap() });
        Self {
            rt,
            listener,
            conns: Vec::new(),
            tracker: SequenceTracker::new(),
            use_tracker: false,
            nak_mode: false,
            base: 0,
            scale: 1,
            now: T0,
            key: 0,
            nstep: 0,
            classic: false,
            next_seq: 0,
            sent: Vec::new(),
            last_ack: 0,
            c_fast: 0,
            c_slow: 0,
            c_skip: 0,
            c_resend_below_hwm: 0,
            c_other_holder: 0,
            c_nak_charged: 0,
            c_reset: 0,
        }
    }

    fn real(&self, s: i64) -> u32 {
        if self.nak_mode {
            // ring of 2 slots in the model <-> 16384 in the code: collide iff same parity
            return self.base + (s as u32 % 2) + (s as u32 / 2) * 16384;
        }
        self.base + self.scale * (s as u32)
    }

    fn obs(&self) -> Value {
        let infl: Vec<i64> = self.conns.iter().map(|c| c.in_flight_packets as i64).collect();
        let consistent = self
            .conns
            .iter()
            .all(|c| c.in_flight_packets >= 0 && c.in_flight_packets as usize == c.packet_log.len());
        if consistent {
            json!({"infl": infl})
        } else {
            json!({"infl": infl, "inconsistent": true})
        }
    }

    fn events(&mut self, idx: usize, inc: SrtlaIncoming) {
        srtla_core::verif::set_clock(Some(self.now));
        let classic = self.classic;
        let Self { rt, listener, conns, tracker, .. } = self;
        rt.block_on(async {
            process_connection_events(idx, conns, None, listener, tracker, classic, inc)
                .await
                .unwrap();
        });
    }
}

impl Engine for InFlightEngine {
    fn reset(&mut self, cfg: &Value, case_key: u64) {
        let n = cfg.get("links").and_then(Value::as_u64).unwrap_or(2) as usize;
        self.key = case_key;
        self.nstep = 0;
        self.now = T0;
        self.classic = case_key & 1 == 1;
        self.conns = (0..n).map(|i| live_conn(i, self.now)).collect();
        // windows next to the floor and off the 100-grid as well as the default: the NAK decrement is `100, floored
        // at 1000` from anywhere
        for (i, c) in self.conns.iter_mut().enumerate() {
            c.window = [20_000, 20_000, 1000, 1001, 1029, 1099, 1100, 1101, 1150, 3000][(mix(case_key ^ (i as u64) << 20) % 10) as usize];
        }
        self.tracker = SequenceTracker::new();
        self.nak_mode = false;
        if cfg.get("nak").and_then(Value::as_bool).unwrap_or(false) {
            self.nak_mode = true;
            self.use_tracker = true;
            self.scale = 1;
            self.base = 16384 * (mix(case_key) % 1000) as u32;
        } else if cfg.get("real").and_then(Value::as_bool).unwrap_or(false) {
            // recorded runs: real numbers, tracker populated like the shell does
            self.scale = 1;
            self.base = 0;
            self.use_tracker = true;
            let span_base = cfg.get("base").and_then(Value::as_u64).unwrap_or(0) as u32;
            self.next_seq = span_base;
            self.last_ack = span_base;
            self.sent.clear();
        } else {
            // replayed model runs: s -> base + 32*s so that "gap <= 2" in the
            // model is exactly "gap <= 64" in the code
            self.scale = 32;
            self.use_tracker = false;
            let bases: [u32; 4] = [0, 1000, 1 << 30, (1u32 << 31) - 1 - 32 * 64];
            self.base = bases[(mix(case_key) % 4) as usize];
        }
    }

    fn apply(&mut self, ev: &Value) -> Value {
        self.nstep += 1;
        if self.nak_mode {
            // model clock: MaxAge = 2 units <-> 5000 ms
            self.now = T0 + ev.get("t").and_then(Value::as_u64).unwrap_or(0) * 2500;
        } else {
            self.now += 1 + mix(self.key ^ self.nstep) % 7;
        }
        srtla_core::verif::set_clock(Some(self.now));
        match gets(ev, "ev") {
            "Init" | "Advance" => {}
            "RouteSend" | "ProbeSend" => {
                let l = geti(ev, "l") as usize - 1;
                let seq = self.real(geti(ev, "s"));
                let pkt = srt_data(seq, 32, false, 0xcd);
                let now = self.now;
                let conn_id = self.conns[l].conn_id;
                self.conns[l].queue_data_packet(&pkt, Some(seq), now);
                if gets(ev, "ev") == "RouteSend" {
                    self.tracker.insert(seq, conn_id, now);
                }
                let batch = self.conns[l].take_batch(now);
                assert_eq!(batch.len(), 1);
            }
            "Send" => {
                let l = geti(ev, "l") as usize - 1;
                let seq = self.real(geti(ev, "s"));
                if self.conns[l].highest_acked_seq != i32::MIN
                    && (seq as i32) <= self.conns[l].highest_acked_seq
                {
                    self.c_resend_below_hwm += 1;
                }
                let pkt = srt_data(seq, 32, false, 0xab);
                let now = self.now;
                let unique = ev.get("probe").and_then(Value::as_bool) != Some(true);
                let conn_id = self.conns[l].conn_id;
                self.conns[l].queue_data_packet(&pkt, Some(seq), now);
                if self.use_tracker && unique {
                    self.tracker.insert(seq, conn_id, now);
                }
                let batch = self.conns[l].take_batch(now);
                assert_eq!(batch.len(), 1);
            }
            "CumAck" => {
                // single number (model) or list (recorded)
                let mut inc = SrtlaIncoming { read_any: true, ..Default::default() };
                let list: Vec<u32> = match ev.get("list") {
                    Some(Value::Array(a)) => a.iter().map(|v| v.as_u64().unwrap() as u32).collect(),
                    _ => vec![self.real(geti(ev, "s"))],
                };
                for a in &list {
                    for c in &self.conns {
                        let h = c.highest_acked_seq;
                        let a = *a as i32;
                        if a <= h {
                            self.c_skip += 1;
                        } else if h != i32::MIN && (a as i64 - h as i64) <= 64 {
                            self.c_fast += 1;
                        } else {
                            self.c_slow += 1;
                        }
                    }
                    inc.ack_numbers.push(*a);
                }
                let arr = ev.get("l").and_then(Value::as_u64).unwrap_or(1).max(1) as usize - 1;
                self.events(arr.min(self.conns.len() - 1), inc);
            }
            "SrtlaAck" => {
                let arr = geti(ev, "l") as usize - 1;
                let mut inc = SrtlaIncoming { read_any: true, ..Default::default() };
                let list: Vec<u32> = match ev.get("list") {
                    Some(Value::Array(a)) => a.iter().map(|v| v.as_u64().unwrap() as u32).collect(),
                    _ => vec![self.real(geti(ev, "s"))],
                };
                for s in &list {
                    if !self.conns[arr].packet_log.contains_key(&(*s as i32))
                        && self.conns.iter().any(|c| c.packet_log.contains_key(&(*s as i32)))
                    {
                        self.c_other_holder += 1;
                    }
                    inc.srtla_ack_numbers.push(*s);
                }
                self.events(arr, inc);
            }
            "Nak" => {
                let seq = match ev.get("seq") {
                    Some(v) => v.as_u64().unwrap() as u32,
                    None => self.real(geti(ev, "s")),
                };
                let now = self.now;
                let before: Vec<(i32, i32, i32)> = self.conns.iter()
                    .map(|c| (c.congestion.nak_count, c.window, c.in_flight_packets)).collect();
                let ch = attribute_nak(&mut self.conns, &self.tracker, seq, now);
                if ch.is_some() {
                    self.c_nak_charged += 1;
                }
                let mut o = self.obs();
                o["ch"] = json!(ch.map(|i| i as i64 + 1).unwrap_or(0));
                // the charge is exactly one loss count, one window decrement (floored), one in-flight slot,
                // on the charged link only
                for (i, c) in self.conns.iter().enumerate() {
                    let (n0, w0, f0) = before[i];
                    let exp = if Some(i) == ch { (n0 + 1, (w0 - 100).max(1000), f0 - 1) } else { (n0, w0, f0) };
                    if (c.congestion.nak_count, c.window, c.in_flight_packets) != exp {
                        o["inconsistent"] = json!(true);
                    }
                }
                return o;
            }
            "Reset" => {
                let l = geti(ev, "l") as usize - 1;
                self.c_reset += 1;
                let kind = ev
                    .get("kind")
                    .and_then(Value::as_u64)
                    .unwrap_or_else(|| mix(self.key ^ (self.nstep << 8)) % 3);
                let now = self.now;
                match kind {
                    0 => self.conns[l].mark_for_recovery(),
                    1 => self.conns[l].reset_for_reconnect(now),
                    _ => self.conns[l].clear_pre_registration_state(now),
                }
                if self.use_tracker {
                    // nothing: the tracker keeps its records across resets, as in the shell
                }
            }
            other => panic!("unknown event {other}"),
        }
        self.obs()
    }

    fn gen_cfg(&mut self, rng: &mut StdRng) -> Value {
        let links = rng.random_range(1..=4u32);
        let base: u32 = match rng.random_range(0..4) {
            0 => 0,
            1 => rng.random_range(0..100_000),
            2 => rng.random_range(0..(1u32 << 31) - 400_000),
            _ => (1u32 << 31) - 400_000,
        };
        json!({"links": links, "real": true, "base": base})
    }

    fn gen_event(&mut self, rng: &mut StdRng) -> Option<Value> {
        let n = self.conns.len();
        let l = rng.random_range(1..=n);
        let pick_sent = |rng: &mut StdRng, sent: &Vec<u32>| -> Option<u32> {
            if sent.is_empty() {
                None
            } else {
                // bias towards recent numbers
                let k = sent.len();
                let lo = k.saturating_sub(1 + rng.random_range(0..200usize).min(k - 1));
                Some(sent[rng.random_range(lo..k)])
            }
        };
        let r = rng.random_range(0..100);
        let ev = if r < 45 || self.sent.is_empty() {
            let s = self.next_seq;
            self.next_seq += 1;
            self.sent.push(s);
            json!({"ev": "Send", "l": l, "s": s})
        } else if r < 52 {
            // retransmission of an earlier (possibly acked) number, any link
            let s = pick_sent(rng, &self.sent).unwrap();
            json!({"ev": "Send", "l": l, "s": s})
        } else if r < 56 {
            // duplicate probe copy of the newest number on another link
            let s = *self.sent.last().unwrap();
            json!({"ev": "Send", "l": l, "s": s, "probe": true})
        } else if r < 72 {
            let top = self.next_seq.saturating_sub(1);
            let mut list: SmallVec<u32, 4> = SmallVec::new();
            let cnt = if rng.random_range(0..5) == 0 { rng.random_range(2..4) } else { 1 };
            for _ in 0..cnt {
                let a = match rng.random_range(0..10) {
                    0 => self.last_ack,                                            // duplicate
                    1 => self.last_ack.saturating_sub(rng.random_range(1..100)),   // stale
                    2 => top + rng.random_range(1..300),                           // ahead of anything sent
                    3 => self.last_ack + rng.random_range(60..70),                 // around the 64 boundary
                    4 => top.saturating_sub(rng.random_range(0..2000)).max(self.last_ack.saturating_sub(5)),
                    _ => top.saturating_sub(rng.random_range(0..40)),              // in order, small lag
                };
                if a > self.last_ack {
                    self.last_ack = a;
                }
                list.push(a);
            }
            json!({"ev": "CumAck", "l": l, "list": list.to_vec()})
        } else if r < 88 {
            let cnt = rng.random_range(1..=10);
            let mut list = Vec::new();
            for _ in 0..cnt {
                let s = match rng.random_range(0..8) {
                    0 => self.next_seq + rng.random_range(0..50), // unknown
                    _ => pick_sent(rng, &self.sent).unwrap(),
                };
                list.push(s);
            }
            json!({"ev": "SrtlaAck", "l": l, "list": list})
        } else if r < 97 {
            let s = match rng.random_range(0..8) {
                0 => self.next_seq + rng.random_range(0..50),
                _ => pick_sent(rng, &self.sent).unwrap(),
            };
            json!({"ev": "Nak", "seq": s})
        } else {
            json!({"ev": "Reset", "l": l, "kind": rng.random_range(0..3)})
        };
        Some(ev)
    }

    /// the model's observation must be contained in the real one, and the real object must be internally
    /// consistent (in-flight count = size of the log; a NAK charge is exactly one loss, -100 floored, one slot)
    fn matches(&self, expected: &Value, got: &Value) -> bool {
        crate::util::json_sub(expected, got) && got.get("inconsistent") != Some(&json!(true))
    }

    fn counters(&self) -> Value {
        json!({
            "ack_fast_path": self.c_fast,
            "ack_slow_path": self.c_slow,
            "ack_skipped": self.c_skip,
            "resend_at_or_below_hwm": self.c_resend_below_hwm,
            "srtla_ack_other_holder": self.c_other_holder,
            "nak_charged": self.c_nak_charged,
            "resets": self.c_reset,
        })
    }
}
