//! C20 engine: the real `SubscriptionHub` under a MANUAL single-thread
//! executor.
//!
//! Every hub operation is a real future (`hub.subscribe` / `unsubscribe` /
//! `publish` / `len`) polled by hand with a no-op waker, in the order the
//! schedule says. The scheduling points of the hook feature
//! (`verif_sched::point("subscribe:after_id" | "publish:after_fanout")`) stop
//! a task between AllocId/Insert and between Fanout/Prune: a thread-local gate
//! holds every point until the step that is meant to pass it. Subscribers are
//! real bounded `tokio::sync::mpsc` channels; the subscriber side is
//! `try_recv` / dropping the receiver.
//!
//! replay: paths exported by TLC from MC_Hub (only the last step of a path
//! carries the expected observation; every prefix is a path of its own).
//! record: seeded random schedules at a larger scale (4 tasks, 3 channels,
//! capacities 1..3) written as ndjson for Trace_Hub.
//!
//! Verdicts are at the level of the property: a difference from the model is a
//! violation only if the property monitor below finds a clause of C20 broken
//! on what the real code did (publish pending on a subscriber; id reused;
//! message with a foreign id / wrong topic / out of order / duplicated /
//! enqueued after its unsubscribe completed; live entry removed; closed entry
//! not pruned; entry present after its unsubscribe). Anything else is
//! MODEL-DRIFT.

use std::cell::RefCell;
use std::future::Future;
use std::pin::Pin;
use std::task::{Context, Poll, Waker};

use rand::Rng;
use rand::rngs::StdRng;
use serde_json::{Value, json};
use srtla_send::subscriptions::{SubscriptionHub, verif_sched};
use tokio::sync::mpsc;

use crate::engine::Engine;
use crate::util::gets;

// ------------------------------------------------------------------ gate --
struct GateSt {
    release: bool,
    held: Option<&'static str>,
    passed: Option<&'static str>,
}

thread_local! {
    static GS: RefCell<GateSt> = const { RefCell::new(GateSt { release: false, held: None, passed: None }) };
}

fn install_gate() {
    verif_sched::install(Some(Box::new(|tag: &'static str| {
        GS.with(|g| {
            let mut g = g.borrow_mut();
            if g.release {
                g.release = false;
                g.passed = Some(tag);
                false
            } else {
                g.held = Some(tag);
                true
            }
        })
    })));
}

enum Out {
    Sub(String),
    Unsub(bool),
    Pub,
    Len(usize),
}

type Fut = Pin<Box<dyn Future<Output = Out>>>;

/// One poll of a hub future. `release`: let it pass the scheduling point it is
/// parked at (at most one point per poll). Returns the poll result and the
/// tag of the point the future is now held at, if any.
fn poll_once(fut: &mut Fut, release: bool) -> (Poll<Out>, Option<&'static str>) {
    GS.with(|g| {
        let mut g = g.borrow_mut();
        g.release = release;
        g.held = None;
        g.passed = None;
    });
    let mut cx = Context::from_waker(Waker::noop());
    let r = fut.as_mut().poll(&mut cx);
    let held = GS.with(|g| {
        let mut g = g.borrow_mut();
        g.release = false;
        g.held.take()
    });
    (r, held)
}

// ----------------------------------------------------------------- state --
#[derive(Clone, Copy, PartialEq)]
enum Kind {
    Idle,
    Sub(usize),
    Pub,
    Stuck,
}

struct Task {
    fut: Option<Fut>,
    kind: Kind,
}

struct Sub {
    topic: String,
    ch: usize,
    id: Option<String>,         // the id string subscribe returned
    unsub_done: Option<u64>,    // step at which the first unsubscribe(id) returned
    last_n: i64,                // highest event number delivered so far
}

struct Chan {
    tx: mpsc::Sender<String>,
    rx: Option<mpsc::Receiver<String>>,
    cap: usize,
    received: usize,
    enq_step: Vec<u64>,         // step at which the k-th message of this channel was enqueued
}

struct Publ {
    topic: String,
}

#[derive(Default)]
struct Counters {
    fan_full_stats: u64,
    fan_full_prio: u64,
    fan_closed: u64,
    pruned: u64,
    unsub_in_gap: u64,
    insert_in_gap: u64,
    fanout_in_sub_gap: u64,
    msgs: u64,
    shared_channel: u64,
    unsub_removed: u64,
    unsub_absent: u64,
    two_digit_ids: u64,
    drains: u64,
    two_publishers: u64,
    dead_runs: u64,
}

struct St {
    hub: SubscriptionHub,
    tasks: Vec<Task>,
    chans: Vec<Chan>,
    subs: Vec<Sub>,
    pubs: Vec<Publ>,
    step: u64,
    viol: Vec<String>,
    dead_next: bool,     // ... from the next step on
    dead: bool,          // the run left the model's structure (e.g. a subscribe that never returns): no verdicts
    probe_blocked: bool, // the membership probe could not take the hub lock
    c: Counters,
    // generator
    g_len: u64,
    g_made: u64,
    g_done: bool,
    g_caps: Vec<u64>,
    g_maxsubs: usize,
}

pub struct HubEngine {
    s: RefCell<St>,
}

fn mk_chans(caps: &[usize]) -> Vec<Chan> {
    caps.iter()
        .map(|&cap| {
            let (tx, rx) = mpsc::channel::<String>(cap);
            Chan { tx, rx: Some(rx), cap, received: 0, enq_step: Vec::new() }
        })
        .collect()
}

impl St {
    fn fresh(ntasks: usize, caps: &[usize]) -> St {
        St {
            hub: SubscriptionHub::new(),
            tasks: (0..ntasks).map(|_| Task { fut: None, kind: Kind::Idle }).collect(),
            chans: mk_chans(caps),
            subs: Vec::new(),
            pubs: Vec::new(),
            step: 0,
            viol: Vec::new(),
            dead: false,
            dead_next: false,
            probe_blocked: false,
            c: Counters::default(),
            g_len: 0,
            g_made: 0,
            g_done: false,
            g_caps: Vec::new(),
            g_maxsubs: 8,
        }
    }

    fn task(&mut self, t: usize) -> &mut Task {
        while self.tasks.len() < t {
            self.tasks.push(Task { fut: None, kind: Kind::Idle });
        }
        &mut self.tasks[t - 1]
    }

    fn qlen(&self, c: usize) -> usize {
        let ch = &self.chans[c];
        if ch.rx.is_none() { 0 } else { ch.tx.max_capacity() - ch.tx.capacity() }
    }

    fn hub_len(&mut self) -> i64 {
        let hub = self.hub.clone();
        let mut f: Fut = Box::pin(async move { Out::Len(hub.len().await) });
        match poll_once(&mut f, false) {
            (Poll::Ready(Out::Len(n)), _) => n as i64,
            _ => -1, // the hub lock is held by a suspended task
        }
    }

    fn flag(&mut self, k: &str) {
        if !self.viol.iter().any(|v| v == k) {
            self.viol.push(k.to_string());
        }
    }

    /// Property monitor for one line taken off channel `c` (0-based).
    fn on_msg(&mut self, c: usize, line: &str) -> Value {
        let idx = self.chans[c].received;
        self.chans[c].received += 1;
        self.c.msgs += 1;
        let v: Value = match serde_json::from_str(line) {
            Ok(v) => v,
            Err(_) => {
                self.flag("malformed-line");
                return json!({"id": -1, "topic": "?", "n": -1});
            }
        };
        let method = v["method"].as_str().unwrap_or("");
        let sid = v["params"]["subscription_id"].as_str().unwrap_or("");
        let n = v["params"]["data"]["n"].as_i64().unwrap_or(-1);
        let topic = method.strip_suffix(".update").unwrap_or("?").to_string();
        // (the JSON-RPC envelope itself is C18's subject; here: is the line an event of a topic, tagged
        // with a subscription id, carrying a published payload?)
        if !method.ends_with(".update") || n < 1 || n as usize > self.pubs.len() {
            self.flag("malformed-line");
        }
        let tok = self.subs.iter().position(|s| s.id.as_deref() == Some(sid));
        let Some(tok) = tok else {
            self.flag("foreign-id");
            return json!({"id": -1, "topic": topic, "n": n});
        };
        let enq_at = self.chans[c].enq_step.get(idx).copied();
        let (s_topic, s_ch, s_unsub, s_last) = {
            let s = &self.subs[tok];
            (s.topic.clone(), s.ch, s.unsub_done, s.last_n)
        };
        if s_ch != c {
            self.flag("foreign-id"); // another connection's subscription
        }
        if topic != s_topic || (n >= 1 && (n as usize) <= self.pubs.len() && self.pubs[n as usize - 1].topic != s_topic) {
            self.flag("wrong-topic");
        }
        if n <= s_last {
            self.flag("duplicate-or-reordered");
        }
        if let (Some(u), Some(e)) = (s_unsub, enq_at) {
            if e > u {
                self.flag("delivered-after-unsubscribe");
            }
        }
        self.subs[tok].last_n = self.subs[tok].last_n.max(n);
        json!({"id": tok, "topic": topic, "n": n})
    }

    /// After every step: note at which step each newly queued message appeared.
    fn track_enqueues(&mut self) {
        for c in 0..self.chans.len() {
            if self.chans[c].rx.is_none() {
                continue;
            }
            let total = self.chans[c].received + self.qlen(c);
            while self.chans[c].enq_step.len() < total {
                let st = self.step;
                self.chans[c].enq_step.push(st);
            }
        }
    }

    fn observe(&mut self, r: Value) -> Value {
        self.track_enqueues();
        let q: Vec<usize> = (0..self.chans.len()).map(|c| self.qlen(c)).collect();
        let len = self.hub_len();
        let mut r = r;
        if len < 0 && r["k"] == "at" {
            // the task just parked at a scheduling point holds the hub lock: the point sits inside a critical
            // section, which production (where the point is a no-op) executes atomically. The step structure
            // of the model does not apply to this code; no verdict from here on (reported as drift).
            r["k"] = json!("at-inside-lock");
            self.dead_next = true;
        }
        json!({"r": r, "len": len, "q": q, "viol": self.viol})
    }

    /// Take everything off every channel and probe which ids are still
    /// registered (unsubscribe returns whether the id was present). Destructive:
    /// only as the last thing done to a run.
    fn drain_probe(&mut self) -> (Vec<Vec<Value>>, Vec<bool>) {
        self.track_enqueues();
        let mut bufs = Vec::new();
        for c in 0..self.chans.len() {
            let mut lines = Vec::new();
            if let Some(rx) = self.chans[c].rx.as_mut() {
                while let Ok(l) = rx.try_recv() {
                    lines.push(l);
                }
            }
            let msgs: Vec<Value> = lines.iter().map(|l| self.on_msg(c, l)).collect();
            bufs.push(msgs);
        }
        let mut present = Vec::new();
        for tok in 0..self.subs.len() {
            let Some(id) = self.subs[tok].id.clone() else {
                present.push(false);
                continue;
            };
            let hub = self.hub.clone();
            let mut f: Fut = Box::pin(async move { Out::Unsub(hub.unsubscribe(&id).await) });
            match poll_once(&mut f, false) {
                (Poll::Ready(Out::Unsub(b)), _) => present.push(b),
                _ => {
                    self.probe_blocked = true;
                    present.push(false);
                }
            }
        }
        (bufs, present)
    }

    fn chan_open(&self, c: usize) -> bool {
        self.chans[c].rx.is_some()
    }

    fn someone_in(&self, k: fn(&Kind) -> bool) -> bool {
        self.tasks.iter().any(|t| k(&t.kind))
    }

    fn step_event(&mut self, ev: &Value) -> Value {
        self.step += 1;
        let name = gets(ev, "ev");
        match name {
            "AllocId" => {
                let t = ev["t"].as_u64().unwrap() as usize;
                let topic = gets(ev, "topic").to_string();
                let ch = ev["ch"].as_u64().unwrap() as usize - 1;
                if self.task(t).kind != Kind::Idle {
                    return self.die();
                }
                if self.subs.iter().any(|s| s.ch == ch) {
                    self.c.shared_channel += 1;
                }
                if self.subs.len() >= 10 {
                    self.c.two_digit_ids += 1;
                }
                let tok = self.subs.len();
                self.subs.push(Sub { topic: topic.clone(), ch, id: None, unsub_done: None, last_n: 0 });
                let hub = self.hub.clone();
                let tx = self.chans[ch].tx.clone();
                let mut f: Fut = Box::pin(async move { Out::Sub(hub.subscribe(&topic, tx).await) });
                let res = poll_once(&mut f, false);
                self.finish_sub(t, tok, f, res)
            }
            "Insert" => {
                let t = ev["t"].as_u64().unwrap() as usize;
                let Kind::Sub(tok) = self.task(t).kind else { return self.die() };
                if self.someone_in(|k| *k == Kind::Pub) {
                    self.c.insert_in_gap += 1;
                }
                let mut f = self.task(t).fut.take().expect("future");
                let res = poll_once(&mut f, true);
                self.finish_sub(t, tok, f, res)
            }
            "Unsub" => {
                let t = ev["t"].as_u64().unwrap() as usize;
                let tok = ev["id"].as_u64().unwrap() as usize;
                let Some(id) = self.subs.get(tok).and_then(|s| s.id.clone()) else { return self.die() };
                if self.task(t).kind != Kind::Idle {
                    return self.die();
                }
                if self.someone_in(|k| *k == Kind::Pub) {
                    self.c.unsub_in_gap += 1;
                }
                let hub = self.hub.clone();
                let mut f: Fut = Box::pin(async move { Out::Unsub(hub.unsubscribe(&id).await) });
                match poll_once(&mut f, false) {
                    (Poll::Ready(Out::Unsub(b)), _) => {
                        if self.subs[tok].unsub_done.is_none() {
                            self.subs[tok].unsub_done = Some(self.step);
                        }
                        if b { self.c.unsub_removed += 1 } else { self.c.unsub_absent += 1 }
                        json!({"k": "removed", "removed": b})
                    }
                    (Poll::Pending, held) => {
                        let tk = self.task(t);
                        tk.fut = Some(f);
                        tk.kind = Kind::Stuck;
                        match held {
                            Some(tag) => json!({"k": "at", "at": tag}),
                            None => {
                                self.dead_next = true;
                                json!({"k": "blocked"})
                            }
                        }
                    }
                    _ => unreachable!(),
                }
            }
            "Fanout" => {
                let t = ev["t"].as_u64().unwrap() as usize;
                let topic = gets(ev, "topic").to_string();
                if self.task(t).kind != Kind::Idle {
                    return self.die();
                }
                self.pubs.push(Publ { topic: topic.clone() });
                let n = self.pubs.len();
                // vacuity counters: what does this fan-out meet?
                for s in &self.subs {
                    if s.id.is_some() && s.unsub_done.is_none() && s.topic == topic {
                        if !self.chan_open(s.ch) {
                            self.c.fan_closed += 1;
                        } else if self.qlen(s.ch) >= self.chans[s.ch].cap {
                            if topic == "stats" { self.c.fan_full_stats += 1 } else { self.c.fan_full_prio += 1 }
                        }
                    }
                }
                if self.someone_in(|k| matches!(k, Kind::Sub(_))) {
                    self.c.fanout_in_sub_gap += 1;
                }
                if self.someone_in(|k| *k == Kind::Pub) {
                    self.c.two_publishers += 1;
                }
                let hub = self.hub.clone();
                let mut f: Fut = Box::pin(async move {
                    hub.publish(&topic, json!({"n": n})).await;
                    Out::Pub
                });
                let res = poll_once(&mut f, false);
                self.finish_pub(t, f, res)
            }
            "Prune" => {
                let t = ev["t"].as_u64().unwrap() as usize;
                if self.task(t).kind != Kind::Pub {
                    return self.die();
                }
                let before = self.hub_len();
                let mut f = self.task(t).fut.take().expect("future");
                let res = poll_once(&mut f, true);
                let r = self.finish_pub(t, f, res);
                let after = self.hub_len();
                if after >= 0 && after < before {
                    self.c.pruned += 1;
                }
                r
            }
            "Recv" => {
                let c = ev["c"].as_u64().unwrap() as usize - 1;
                let got = match self.chans[c].rx.as_mut() {
                    Some(rx) => rx.try_recv().ok(),
                    None => None,
                };
                match got {
                    Some(line) => {
                        let m = self.on_msg(c, &line);
                        json!({"k": "msg", "msg": m})
                    }
                    None => json!({"k": "empty"}),
                }
            }
            "Close" => {
                let c = ev["c"].as_u64().unwrap() as usize - 1;
                self.track_enqueues();
                self.chans[c].rx = None; // the connection task ends: receiver dropped
                json!({"k": "closed"})
            }
            other => panic!("harness: unknown event {other}"),
        }
    }

    fn die(&mut self) -> Value {
        if !self.dead {
            self.dead = true;
            self.c.dead_runs += 1;
        }
        json!({"k": "dead"})
    }

    fn finish_sub(&mut self, t: usize, tok: usize, f: Fut, res: (Poll<Out>, Option<&'static str>)) -> Value {
        match res {
            (Poll::Ready(Out::Sub(id)), _) => {
                // token of an id = the first subscribe that returned this string
                let first = self.subs.iter().position(|s| s.id.as_deref() == Some(id.as_str()));
                self.subs[tok].id = Some(id);
                let tk = self.task(t);
                tk.fut = None;
                tk.kind = Kind::Idle;
                json!({"k": "id", "id": first.unwrap_or(tok)})
            }
            (Poll::Pending, held) => {
                let tk = self.task(t);
                tk.fut = Some(f);
                match held {
                    Some(tag) => {
                        tk.kind = Kind::Sub(tok);
                        json!({"k": "at", "at": tag})
                    }
                    None => {
                        tk.kind = Kind::Stuck;
                        self.dead_next = true;
                        json!({"k": "blocked"})
                    }
                }
            }
            _ => unreachable!(),
        }
    }

    fn finish_pub(&mut self, t: usize, f: Fut, res: (Poll<Out>, Option<&'static str>)) -> Value {
        let stuck_before = self.tasks.iter().any(|t| t.kind == Kind::Stuck);
        match res {
            (Poll::Ready(Out::Pub), _) => {
                let tk = self.task(t);
                tk.fut = None;
                tk.kind = Kind::Idle;
                json!({"k": "done"})
            }
            (Poll::Pending, held) => {
                let tk = self.task(t);
                tk.fut = Some(f);
                match held {
                    Some(tag) => {
                        tk.kind = Kind::Pub;
                        json!({"k": "at", "at": tag})
                    }
                    None => {
                        // pending although no scheduling point holds it. Every other suspended task sits at
                        // a scheduling point, i.e. outside the critical sections (unless one is already
                        // stuck): this publish is waiting on a subscriber
                        tk.kind = Kind::Stuck;
                        if !stuck_before {
                            self.flag("publish-blocked");
                        }
                        json!({"k": "blocked"})
                    }
                }
            }
            _ => unreachable!(),
        }
    }

    /// Property-level classification of a run that differs from the model:
    /// Some(clause) if a clause of C20 is broken on what the real code did.
    fn classify(&mut self, ev: &Value, exp: &Value, got: &Value) -> Option<String> {
        if let Some(v) = got["viol"].as_array().and_then(|a| a.first()) {
            return Some(v.as_str().unwrap_or("?").to_string());
        }
        let name = ev["ev"].as_str().unwrap_or("");
        if got["r"]["k"] == "blocked" && (name == "Fanout" || name == "Prune") {
            return Some("publish-blocked".into());
        }
        if name == "Insert" && got["r"]["k"] == "id" && exp["r"]["k"] == "id" && got["r"]["id"] != exp["r"]["id"] {
            return Some("id-not-unique".into());
        }
        // membership: the model's entry set against the real one
        let (pres, exp_p): (Vec<bool>, Vec<bool>) = if name == "Drain" {
            if self.probe_blocked {
                return None;
            }
            (
                got["p"].as_array().map(|a| a.iter().map(|b| b == &json!(true)).collect()).unwrap_or_default(),
                exp["p"].as_array().map(|a| a.iter().map(|b| b == &json!(true)).collect()).unwrap_or_default(),
            )
        } else {
            let mut exp_p: Vec<bool> =
                exp["p"].as_array().map(|a| a.iter().map(|b| b == &json!(true)).collect()).unwrap_or_default();
            // the step itself was an unsubscribe: its return value is the membership of that id before it
            if name == "Unsub" && got["r"]["k"] == "removed" && exp["r"]["k"] == "removed" {
                let tok = ev["id"].as_u64().unwrap() as usize;
                let (e, g) = (exp["r"]["removed"] == true, got["r"]["removed"] == true);
                if e != g {
                    if let Some(k) = self.membership_verdict(tok, e, g, true) {
                        return Some(k);
                    }
                }
            }
            let (_, p) = self.drain_probe();
            if let Some(v) = self.viol.first() {
                return Some(v.clone());
            }
            if self.probe_blocked {
                return None;
            }
            exp_p.resize(p.len(), false);
            (p, exp_p)
        };
        for tok in 0..pres.len().min(exp_p.len()) {
            if pres[tok] != exp_p[tok] {
                if let Some(k) = self.membership_verdict(tok, exp_p[tok], pres[tok], false) {
                    return Some(k);
                }
            }
        }
        None
    }

    /// `model`: the model has the entry; `real`: the hub has it. `at_unsub`: observed through the return
    /// value of the unsubscribe step itself (so that unsubscribe does not count as "done before").
    fn membership_verdict(&self, tok: usize, model: bool, real: bool, at_unsub: bool) -> Option<String> {
        let s = &self.subs[tok];
        if s.id.is_none() {
            return None; // its subscribe never returned: nothing the property says about it yet
        }
        if model && !real {
            // gone although never unsubscribed: allowed only for a closed subscriber (pruned early)
            let unsub_before = if at_unsub { s.unsub_done.is_some_and(|u| u < self.step) } else { s.unsub_done.is_some() };
            if self.chan_open(s.ch) && !unsub_before {
                return Some("live-entry-removed".into());
            }
            None
        } else if !model && real {
            let unsub_before = if at_unsub { s.unsub_done.is_some_and(|u| u < self.step) } else { s.unsub_done.is_some() };
            if unsub_before {
                Some("present-after-unsubscribe".into())
            } else {
                // the model dropped it because a completed publish found its channel closed
                Some("closed-not-pruned".into())
            }
        } else {
            None
        }
    }
}

impl HubEngine {
    pub fn new() -> Self {
        install_gate();
        Self { s: RefCell::new(St::fresh(2, &[1, 2])) }
    }
}

fn same_obs(name: &str, exp: &Value, got: &Value) -> bool {
    if name == "Drain" {
        exp["bufs"] == got["bufs"] && exp["p"] == got["p"] && exp["len"] == got["len"]
    } else {
        exp["r"] == got["r"] && exp["len"] == got["len"] && exp["q"] == got["q"]
    }
}

impl Engine for HubEngine {
    fn reset(&mut self, cfg: &Value, _case_key: u64) {
        let caps: Vec<usize> = cfg["cap"]
            .as_array()
            .map(|a| a.iter().map(|x| x.as_u64().unwrap_or(1) as usize).collect())
            .unwrap_or_else(|| vec![1, 2]);
        let ntasks = cfg["tasks"].as_u64().unwrap_or(2) as usize;
        let mut s = self.s.borrow_mut();
        let c = std::mem::take(&mut s.c);
        let g_caps = std::mem::take(&mut s.g_caps);
        let g_len = cfg["len"].as_u64().unwrap_or(0);
        let g_maxsubs = cfg["maxsubs"].as_u64().unwrap_or(8) as usize;
        // futures of the previous run are dropped before the hub they point into
        s.tasks.clear();
        *s = St::fresh(ntasks, &caps);
        s.c = c;
        s.g_caps = g_caps;
        s.g_len = g_len;
        s.g_maxsubs = g_maxsubs;
    }

    fn apply(&mut self, ev: &Value) -> Value {
        let mut s = self.s.borrow_mut();
        if s.dead_next && !s.dead {
            s.dead = true;
            s.c.dead_runs += 1;
        }
        if s.dead {
            return json!({"dead": true});
        }
        match gets(ev, "ev") {
            "Init" => json!({}),
            "Drain" => {
                s.step += 1;
                s.c.drains += 1;
                let len = s.hub_len();
                let (bufs, p) = s.drain_probe();
                json!({"bufs": bufs, "p": p, "len": len, "viol": s.viol})
            }
            _ => {
                let r = s.step_event(ev);
                if s.dead {
                    return json!({"dead": true});
                }
                s.observe(r)
            }
        }
    }

    fn gen_cfg(&mut self, rng: &mut StdRng) -> Value {
        // one capacity vector per recorded file (Trace_Hub reads it from the first line)
        let mut s = self.s.borrow_mut();
        if s.g_caps.is_empty() {
            s.g_caps = match std::env::var("VH_CAPS") {
                Ok(v) => v.split(',').filter_map(|x| x.trim().parse().ok()).collect(),
                Err(_) => (0..3).map(|_| rng.random_range(1..=3)).collect(),
            };
        }
        // one run in eight is long and subscription-heavy (two-digit ids)
        let long = rng.random_range(0..8) == 0;
        let len = if long { rng.random_range(100..150) } else { rng.random_range(15..60) };
        json!({"cap": s.g_caps, "tasks": 4, "len": len, "maxsubs": if long { 14 } else { 8 }})
    }

    fn gen_event(&mut self, rng: &mut StdRng) -> Option<Value> {
        let mut s = self.s.borrow_mut();
        if s.g_done || s.dead || s.dead_next {
            return None;
        }
        s.g_made += 1;
        if s.g_made >= s.g_len.max(2) {
            s.g_done = true;
            return Some(json!({"ev": "Drain"}));
        }
        let topics = ["stats", "priority.window"];
        let nch = s.chans.len();
        let idle: Option<usize> = s.tasks.iter().position(|t| t.kind == Kind::Idle).map(|i| i + 1);
        let returned: Vec<usize> = (0..s.subs.len()).filter(|&k| s.subs[k].id.is_some()).collect();
        let live = returned.iter().filter(|&&k| s.subs[k].unsub_done.is_none() && s.chan_open(s.subs[k].ch)).count();
        // per-run bias: one topic is "hot" so that subscriptions and publishes meet
        let hot = (s.g_len % 2) as usize;
        let pick_topic = |rng: &mut StdRng| if rng.random_range(0..10) < 7 { topics[hot] } else { topics[1 - hot] };
        for _ in 0..50 {
            let roll = rng.random_range(0..100);
            if roll < 28 {
                // continue a suspended operation
                let susp: Vec<usize> = (0..s.tasks.len())
                    .filter(|&i| matches!(s.tasks[i].kind, Kind::Sub(_) | Kind::Pub))
                    .collect();
                if !susp.is_empty() {
                    let i = susp[rng.random_range(0..susp.len())];
                    return Some(match s.tasks[i].kind {
                        Kind::Sub(_) => json!({"ev": "Insert", "t": i + 1}),
                        _ => json!({"ev": "Prune", "t": i + 1}),
                    });
                }
            } else if roll < 28 + if live < 2 || s.g_maxsubs > 8 { 30 } else { 10 } {
                if let Some(t) = idle {
                    if s.subs.len() < s.g_maxsubs {
                        let tp = pick_topic(rng);
                        // mostly on a channel that is still open
                        let ch = rng.random_range(0..nch);
                        if s.chan_open(ch) || rng.random_range(0..5) == 0 {
                            return Some(json!({"ev": "AllocId", "t": t, "topic": tp, "ch": ch + 1, "id": s.subs.len()}));
                        }
                    }
                }
            } else if roll < 75 {
                if let Some(t) = idle {
                    let tp = pick_topic(rng);
                    return Some(json!({"ev": "Fanout", "t": t, "topic": tp, "n": s.pubs.len() + 1}));
                }
            } else if roll < 82 {
                if let (Some(t), false) = (idle, returned.is_empty()) {
                    let tok = returned[rng.random_range(0..returned.len())];
                    // mostly a subscription that is still there
                    if s.subs[tok].unsub_done.is_none() || rng.random_range(0..4) == 0 {
                        return Some(json!({"ev": "Unsub", "t": t, "id": tok}));
                    }
                }
            } else if roll < 97 {
                // slow subscribers: a queued line is taken only now and then
                let ne: Vec<usize> = (0..nch).filter(|&c| s.chan_open(c) && s.qlen(c) > 0).collect();
                if !ne.is_empty() && rng.random_range(0..2) == 0 {
                    let c = ne[rng.random_range(0..ne.len())];
                    return Some(json!({"ev": "Recv", "c": c + 1}));
                }
            } else {
                let open: Vec<usize> = (0..nch).filter(|&c| s.chan_open(c)).collect();
                if open.len() > 1 {
                    let c = open[rng.random_range(0..open.len())];
                    return Some(json!({"ev": "Close", "c": c + 1}));
                }
            }
        }
        s.g_done = true;
        Some(json!({"ev": "Drain"}))
    }

    fn matches(&self, exp: &Value, got: &Value) -> bool {
        let name = if exp.get("bufs").is_some() { "Drain" } else { "" };
        same_obs(name, exp, got)
    }

    fn finding_key(&self, ev: &Value, exp: &Value, got: &Value) -> Option<String> {
        if got["dead"] == true {
            return None;
        }
        let name = ev["ev"].as_str().unwrap_or("");
        let flagged = got["viol"].as_array().is_some_and(|a| !a.is_empty());
        if !flagged && (exp.is_null() || same_obs(name, exp, got)) {
            return None;
        }
        let mut s = self.s.borrow_mut();
        s.classify(ev, exp, got).map(|k| format!("C20/{k}"))
    }

    fn judge(&self, ev: &Value, exp: &Value, got: &Value) -> u8 {
        // property-level violations were taken by finding_key; what is left is a difference from the
        // code-shaped model that keeps every clause of the property
        let name = ev["ev"].as_str().unwrap_or("");
        if got["dead"] == true {
            // a step before this one already left the model's structure; that prefix is a behaviour of its
            // own and was judged there
            return 0;
        }
        if exp.is_null() || same_obs(name, exp, got) { 0 } else { 1 }
    }

    fn counters(&self) -> Value {
        let s = self.s.borrow();
        let c = &s.c;
        json!({
            "fanout_met_full_stats": c.fan_full_stats, "fanout_met_full_priority": c.fan_full_prio,
            "fanout_met_closed": c.fan_closed, "pruned": c.pruned, "unsub_between_fanout_and_prune": c.unsub_in_gap,
            "insert_between_fanout_and_prune": c.insert_in_gap, "fanout_between_allocid_and_insert": c.fanout_in_sub_gap,
            "two_publishers_in_flight": c.two_publishers, "messages_checked": c.msgs,
            "subscriptions_sharing_a_channel": c.shared_channel, "unsub_removed": c.unsub_removed,
            "unsub_absent": c.unsub_absent, "subscriptions_beyond_the_tenth": c.two_digit_ids, "drains": c.drains, "dead_runs": c.dead_runs,
        })
    }
}
