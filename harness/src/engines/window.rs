//! C06 engine: one link's congestion window through the real
//! `handle_nak`, `handle_srtla_ack_specific` (classic / enhanced),
//! `handle_srtla_ack_global`, `perform_window_recovery`, the two resets and a
//! REG3 delivered through the real `process_uplink_packet`.

use rand::Rng;
use rand::rngs::StdRng;
use serde_json::{Value, json};
use srtla_core::connection::{RttTracker, SrtlaConnection};
use srtla_core::registration::SrtlaRegistrationManager;
use srtla_send::sender::verif_hooks::process_uplink_packet;
use tokio::net::UdpSocket;

use crate::engine::Engine;
use crate::util::{T0, getb, geti, gets, live_conn, rt};

pub struct WindowEngine {
    rt: tokio::runtime::Runtime,
    listener: UdpSocket,
    conn: SrtlaConnection,
    now: u64,
    classic: bool,
    seq: u32,
    // generator
    burst_left: u32,
    ack_burst_left: u32,
    // counters
    c_floor: u64,
    c_cap: u64,
    c_fast_enter: u64,
    c_fast_exit: u64,
    c_recovery_applied: u64,
    c_vel_high: u64,
    c_huge_infl: u64,
    focus: String,
}

impl WindowEngine {
    pub fn new() -> Self {
        let rt = rt();
        let listener = rt.block_on(async { UdpSocket::bind("127.0.0.1:0").await.unwrap() });
        Self {
            rt,
            listener,
            conn: live_conn(0, T0),
            now: T0,
            classic: false,
            seq: 1,
            burst_left: 0,
            ack_burst_left: 0,
            c_floor: 0,
            c_cap: 0,
            c_fast_enter: 0,
            c_fast_exit: 0,
            c_recovery_applied: 0,
            c_vel_high: 0,
            c_huge_infl: 0,
            focus: "C06".into(),
        }
    }

    fn obs(&self) -> Value {
        json!({
            "w": self.conn.window,
            "fast": self.conn.congestion.fast_recovery_mode,
            "lastNak": self.conn.congestion.last_nak_time_ms,
            "lastInc": self.conn.congestion.last_window_increase_ms,
            "conn": self.conn.connected,
            "heard": self.conn.last_received.is_some(),
        })
    }

    fn set_velocity(&mut self, high: bool) {
        self.conn.rtt = RttTracker::default();
        if high {
            for (i, r) in [100u64, 160, 220, 280, 340, 400].iter().enumerate() {
                self.conn.rtt.update_estimate(*r, self.now.saturating_sub(10 - i as u64));
            }
            assert!(self.conn.get_rtt_velocity() > 2.0);
        } else {
            assert!(self.conn.get_rtt_velocity() <= 2.0);
        }
    }

    fn set_state(&mut self, s: &Value) {
        self.now = geti(s, "now") as u64;
        self.classic = getb(s, "classic");
        self.conn = live_conn(0, self.now);
        self.conn.window = geti(s, "w") as i32;
        self.conn.congestion.fast_recovery_mode = getb(s, "fast");
        self.conn.congestion.last_nak_time_ms = geti(s, "lastNak") as u64;
        self.conn.congestion.last_window_increase_ms = geti(s, "lastInc") as u64;
        self.conn.connected = getb(s, "conn");
        self.conn.last_received = if getb(s, "heard") { Some(self.now) } else { None };
    }

    fn do_event(&mut self, name: &str, ev: &Value) {
        srtla_core::verif::set_clock(Some(self.now));
        let before_fast = self.conn.congestion.fast_recovery_mode;
        let before_w = self.conn.window;
        match name {
            "Nak" => {
                self.seq += 1;
                let s = self.seq as i32;
                self.conn.register_packet(s, self.now);
                assert!(self.conn.handle_nak(s, self.now));
            }
            "EarnedAck" => {
                let n = geti(ev, "n");
                if n <= 200 {
                    // the real path: the log holds n+1 numbers, one is acked
                    self.conn.packet_log.clear();
                    for k in 0..=(n as i32) {
                        self.conn.packet_log.insert(1_000_000 + k, self.now);
                    }
                    self.conn.in_flight_packets = self.conn.packet_log.len() as i32;
                    // packets routed but not flushed yet must not count as in flight for the growth rule
                    let queued = (crate::util::mix(self.seq as u64 ^ self.now) % 6) as usize;
                    for k in 0..queued {
                        self.conn.batch_sender.queue_packet(&[0u8; 32], Some(2_000_000 + k as u32), self.now);
                    }
                    self.seq += 1;
                    assert!(self.conn.handle_srtla_ack_specific(1_000_000, self.classic, self.now));
                    self.conn.batch_sender.reset();
                    assert_eq!(self.conn.in_flight_packets as i64, n);
                    self.conn.packet_log.clear();
                    self.conn.in_flight_packets = 0;
                } else {
                    self.c_huge_infl += 1;
                    let label = self.conn.label.clone();
                    let now = self.now;
                    let c = &mut self.conn;
                    if self.classic {
                        c.congestion
                            .handle_srtla_ack_specific_classic(&mut c.window, n as i32, 7, &label);
                    } else {
                        c.congestion.handle_srtla_ack_enhanced(&mut c.window, n as i32, &label, now);
                    }
                }
            }
            "GlobalAck" => self.conn.handle_srtla_ack_global(),
            "RecoveryTick" => {
                if let Some(v) = ev.get("v").and_then(Value::as_bool) {
                    if ev.get("setv").is_some() {
                        self.set_velocity(v);
                    }
                }
                if self.conn.get_rtt_velocity() > 2.0 {
                    self.c_vel_high += 1;
                }
                let li = self.conn.congestion.last_window_increase_ms;
                self.conn.perform_window_recovery(self.now);
                if self.conn.congestion.last_window_increase_ms != li {
                    self.c_recovery_applied += 1;
                }
            }
            "SoftReset" => self.conn.mark_for_recovery(),
            "FullReset" => self.conn.reset_for_reconnect(self.now),
            "Reg3" => {
                let mut reg = SrtlaRegistrationManager::new();
                let (tx, _rx) = tokio::sync::mpsc::unbounded_channel();
                let Self { rt, listener, conn, .. } = self;
                rt.block_on(async {
                    process_uplink_packet(conn, 0, &mut reg, listener, &tx, None, &[0x92, 0x02])
                        .await
                        .unwrap();
                });
            }
            "SetMode" => self.classic = getb(ev, "c"),
            "Advance" => self.now += geti(ev, "d") as u64,
            "RttSample" => {
                let r = geti(ev, "rtt") as u64;
                self.conn.rtt.update_estimate(r, self.now);
            }
            other => panic!("unknown event {other}"),
        }
        let w = self.conn.window;
        if w == 1000 && before_w > 1000 {
            self.c_floor += 1;
        }
        if w == 60000 && before_w < 60000 {
            self.c_cap += 1;
        }
        if !before_fast && self.conn.congestion.fast_recovery_mode {
            self.c_fast_enter += 1;
        }
        if before_fast && !self.conn.congestion.fast_recovery_mode {
            self.c_fast_exit += 1;
        }
    }
}

impl Engine for WindowEngine {
    fn configure(&mut self, args: &[String]) {
        if let Some(i) = args.iter().position(|a| a == "--focus") {
            self.focus = args[i + 1].clone();
        }
    }

    fn reset(&mut self, _cfg: &Value, _case_key: u64) {
        self.now = T0;
        self.classic = false;
        // a fresh link exactly as connect_uplink creates it
        self.conn = SrtlaConnection::new_registering(
            0x77,
            "w".into(),
            "127.0.0.10".parse().unwrap(),
            self.now,
        );
        self.seq = 1;
        self.burst_left = 0;
        self.ack_burst_left = 0;
    }

    fn apply(&mut self, ev: &Value) -> Value {
        // one-step edge exported by TLC: {pre, act, post-implied}
        if let Some(pre) = ev.get("pre") {
            self.set_state(pre);
            let act = gets(ev, "act").to_string();
            let mut e = ev.clone();
            e["setv"] = json!(true);
            self.do_event(&act, &e);
            return self.obs();
        }
        let name = gets(ev, "ev").to_string();
        if name == "Init" {
            let mut o = self.obs();
            o["now"] = json!(self.now);
            o["classic"] = json!(self.classic);
            return o;
        }
        let v_before = self.conn.get_rtt_velocity() > 2.0;
        self.do_event(&name, ev);
        let mut o = self.obs();
        if name == "RecoveryTick" {
            o["v"] = json!(v_before);
        }
        o
    }

    fn gen_event(&mut self, rng: &mut StdRng) -> Option<Value> {
        if self.burst_left > 0 {
            self.burst_left -= 1;
            return Some(json!({"ev": "Nak"}));
        }
        if self.ack_burst_left > 0 {
            self.ack_burst_left -= 1;
            return Some(json!({"ev": "EarnedAck", "n": 61 + rng.random_range(0..1000)}));
        }
        let r = rng.random_range(0..100);
        if r == 99 && rng.random_range(0..2) == 0 {
            self.ack_burst_left = rng.random_range(1000..2200);
        }
        Some(if r < 22 {
            let d = match rng.random_range(0..10) {
                0 => 1,
                1 => rng.random_range(299..=301),
                2 => rng.random_range(499..=501),
                3 => rng.random_range(999..=1001),
                4 => rng.random_range(1999..=2001),
                5 => rng.random_range(2999..=7001),
                6 => rng.random_range(9999..=10001),
                _ => rng.random_range(1..1500),
            };
            json!({"ev": "Advance", "d": d})
        } else if r < 34 {
            if rng.random_range(0..6) == 0 {
                self.burst_left = rng.random_range(5..260);
            }
            json!({"ev": "Nak"})
        } else if r < 52 {
            let n: i64 = match rng.random_range(0..8) {
                0 => rng.random_range(0..3),
                1 => rng.random_range(200..=i32::MAX as i64),
                2 => i32::MAX as i64,
                3 => (self.conn.window / 1000) as i64 + rng.random_range(-1..=1i64),
                _ => rng.random_range(0..70),
            };
            json!({"ev": "EarnedAck", "n": n.max(0)})
        } else if r < 62 {
            json!({"ev": "GlobalAck"})
        } else if r < 84 {
            json!({"ev": "RecoveryTick"})
        } else if r < 90 {
            let base = rng.random_range(20..400) as i64;
            let up = rng.random_range(0..3) == 0;
            let rtt = if up { base + rng.random_range(100..600) } else { base };
            json!({"ev": "RttSample", "rtt": rtt})
        } else if r < 92 {
            json!({"ev": "SoftReset"})
        } else if r < 94 {
            json!({"ev": "FullReset"})
        } else if r < 97 {
            json!({"ev": "Reg3"})
        } else {
            json!({"ev": "SetMode", "c": rng.random_range(0..2) == 0})
        })
    }

    fn matches(&self, expected: &Value, got: &Value) -> bool {
        crate::util::json_sub(expected, got)
    }

    /// C06 states range, direction, reset value and the fast-recovery
    /// entry/exit rules -- not the size of an increment. A difference from the
    /// code-shaped model that keeps all of those is MODEL-DRIFT.
    fn judge(&self, ev: &Value, expected: &Value, got: &Value) -> u8 {
        if self.matches(expected, got) {
            return 0;
        }
        let Some(pre) = ev.get("pre") else { return 2 };
        let act = gets(ev, "act");
        if self.focus == "C10" {
            // C10 fixes the classic rules exactly: +29 / +1 / -100, bounds
            let classic_rule = getb(pre, "classic") && matches!(act, "EarnedAck" | "GlobalAck" | "Nak");
            return if classic_rule && expected["w"] != got["w"] { 2 } else { 1 };
        }
        let (w0, w1) = (geti(pre, "w"), geti(got, "w"));
        let (f0, f1) = (getb(pre, "fast"), getb(got, "fast"));
        let in_range = (1000..=60000).contains(&w1);
        let dir_ok = match act {
            "Nak" => w1 <= w0,
            "EarnedAck" | "GlobalAck" | "RecoveryTick" => w1 >= w0,
            "SoftReset" | "FullReset" => w1 == 20000,
            _ => true,
        };
        let enter_ok = !(!f0 && f1) || (act == "Nak" && w1 <= 2000);
        let exit_ok = !(f0 && !f1) || w1 >= 12000 || act == "FullReset" || act == "Reg3";
        let conn_ok = expected["conn"] == got["conn"] && expected["heard"] == got["heard"];
        if in_range && dir_ok && enter_ok && exit_ok && conn_ok { 1 } else { 2 }
    }

    fn counters(&self) -> Value {
        json!({
            "hit_floor": self.c_floor,
            "hit_cap": self.c_cap,
            "fast_enter": self.c_fast_enter,
            "fast_exit": self.c_fast_exit,
            "recovery_applied": self.c_recovery_applied,
            "recovery_velocity_high": self.c_vel_high,
            "huge_in_flight_acks": self.c_huge_infl,
        })
    }
}
