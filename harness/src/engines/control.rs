//! C18 engine: the real control protocol -- `control::dispatch` (stdin),
//! `control::dispatch_async` with a real `SubscriptionContext` / hub and
//! without one, and (`--socket`) a real `control_socket` Unix stream -- over a
//! real `DynamicConfig`, `SharedStats` and `CriticalWindow`.
//!
//! replay: every transition of Control.tla. An abstract line is rendered into
//! several concrete ones (member order, whitespace, \u escapes, multi-byte
//! names longer than any echo limit, nested junk, extreme numbers, seeded
//! noise / truncated JSON for garbage); every entry point gets the line on its
//! own configuration object; the observation is (response present?, id echo,
//! result / error code, applied value), `DynamicConfig::snapshot()` and a
//! follow-up `get_status`, plus `agree` (entry points and renderings answer
//! identically where they must) and `wf` (every response is one well-formed
//! JSON-RPC 2.0 response object on one line).
//! record: (a) seeded sequences of abstract requests (any u64 timeout) mixed
//! with arbitrary lines classified by an oracle that only uses the JSON
//! grammar; (b) `--focus atomics`: multi-thread stress of setters / snapshot
//! readers through the real entry points, logged per thread and per field.

use std::sync::{Arc, Barrier};

use rand::Rng;
use rand::rngs::StdRng;
use serde_json::{Map, Value, json};
use srtla_core::mode::SchedulingMode;
use srtla_core::priority::CriticalWindow;
use srtla_send::config::DynamicConfig;
use srtla_send::control::{SubscriptionContext, dispatch, dispatch_async};
use srtla_send::stats::SharedStats;
use srtla_send::subscriptions::SubscriptionHub;
use tokio::io::{AsyncBufReadExt, AsyncWriteExt, BufReader};
use tokio::net::UnixStream;
use tokio::net::unix::{OwnedReadHalf, OwnedWriteHalf};
use tokio::sync::mpsc;

use crate::engine::Engine;
use crate::util::{T0, gets, live_conn, mix, rt};

// ------------------------------------------------------------------ prng --
struct H(u64);
impl H {
    fn next(&mut self) -> u64 {
        self.0 = self.0.wrapping_add(0x9e37_79b9_7f4a_7c15);
        mix(self.0)
    }
    fn below(&mut self, n: u64) -> u64 {
        self.next() % n.max(1)
    }
    fn pick<'a, T>(&mut self, xs: &'a [T]) -> &'a T {
        &xs[self.below(xs.len() as u64) as usize]
    }
    fn ps<'a>(&mut self, xs: &[&'a str]) -> &'a str {
        xs[self.below(xs.len() as u64) as usize]
    }
    fn chance(&mut self, one_in: u64) -> bool {
        self.below(one_in) == 0
    }
}

fn floor_boundary(s: &str, mut n: usize) -> usize {
    n = n.min(s.len());
    while !s.is_char_boundary(n) {
        n -= 1;
    }
    n
}

/// A line for a report: long ones keep their head and tail.
fn short(l: &str) -> String {
    if l.len() <= 1500 {
        return l.to_string();
    }
    let cs: Vec<char> = l.chars().collect();
    format!("{} ...[{} bytes]... {}", cs[..600].iter().collect::<String>(), l.len(), cs[cs.len() - 300..].iter().collect::<String>())
}

fn hex(s: &str) -> String {
    s.as_bytes().iter().map(|b| format!("{b:02x}")).collect()
}

fn unhex(h: &str) -> String {
    let b: Vec<u8> = (0..h.len() / 2).map(|i| u8::from_str_radix(&h[2 * i..2 * i + 2], 16).unwrap_or(b'?')).collect();
    String::from_utf8_lossy(&b).into_owned()
}

// ------------------------------------------------------------- rendering --
const WIDE: [char; 6] = ['é', 'ü', '€', '中', '😀', '𝄞'];

/// JSON string literal for `s`; sometimes every non-alphanumeric character is
/// written as \uXXXX (surrogate pairs for astral characters).
fn jstr(s: &str, h: &mut H) -> String {
    if !h.chance(4) {
        return serde_json::to_string(s).unwrap();
    }
    let mut o = String::from("\"");
    for c in s.chars() {
        if c.is_ascii_alphanumeric() && !h.chance(6) {
            o.push(c);
        } else {
            let mut buf = [0u16; 2];
            for u in c.encode_utf16(&mut buf) {
                o.push_str(&format!("\\u{:04x}", u));
            }
        }
    }
    o.push('"');
    o
}

/// A name longer than any plausible echo limit whose multi-byte characters sit
/// at every residue of byte offsets.
fn long_name(h: &mut H) -> String {
    let mut s = "x".repeat(h.below(4) as usize);
    let ch = *h.pick(&WIDE);
    let target = 66 + h.below(260) as usize;
    while s.len() < target {
        s.push(ch);
        if h.chance(9) {
            s.push(*h.pick(&WIDE));
        }
    }
    s
}

fn straddles(s: &str) -> bool {
    [16usize, 32, 48, 64, 80, 96, 100, 120, 127, 128, 200, 255, 256].iter().any(|&k| s.len() > k && !s.is_char_boundary(k))
}

fn junk(h: &mut H, depth: u32) -> String {
    let k = if depth == 0 { h.below(7) } else { h.below(10) };
    match k {
        0 => "null".into(),
        1 => (*h.pick(&["true", "false"])).into(),
        2 => (*h.pick(&["0", "-0", "1", "-1", "18446744073709551615", "-9223372036854775808", "1.5e300", "1e-320",
                        "123456789012345678901234567890", "0.1", "2.0"])).into(),
        3 | 4 => {
            let s = match h.below(6) {
                0 => String::new(),
                1 => "jsonrpc".into(),
                2 => long_name(h),
                3 => "\u{0}\u{1f}\"\\/\u{7f}\u{2028}".into(),
                4 => "}{][,:".into(),
                _ => "zażółć gęślą jaźń".into(),
            };
            jstr(&s, h)
        }
        5 | 6 => format!("{}", h.below(100000)),
        7 | 8 => {
            let n = h.below(4);
            let items: Vec<String> = (0..n).map(|_| junk(h, depth - 1)).collect();
            format!("[{}]", items.join(","))
        }
        _ => {
            let n = h.below(4);
            let items: Vec<String> = (0..n)
                .map(|i| {
                    let key = match h.below(5) {
                        0 => "method".to_string(),
                        1 => "id".to_string(),
                        2 => "ключ".to_string(),
                        3 => String::new(),
                        _ => format!("k{i}"),
                    };
                    format!("{}:{}", jstr(&format!("{key}{i}"), h), junk(h, depth - 1))
                })
                .collect();
            format!("{{{}}}", items.join(","))
        }
    }
}

fn layout(mut members: Vec<(String, String)>, h: &mut H) -> String {
    // member order
    for i in (1..members.len()).rev() {
        let j = h.below(i as u64 + 1) as usize;
        members.swap(i, j);
    }
    let style = h.below(5);
    let ws = |h: &mut H| -> String {
        match style {
            0 | 4 => String::new(),
            1 => " ".into(),
            _ => (0..h.below(3)).map(|_| *h.pick(&[' ', '\t', '\r'])).collect(),
        }
    };
    let mut o = String::new();
    if style >= 3 {
        o.push_str(*h.pick(&[" ", "\t", "  ", "\u{a0}", ""]));
    }
    o.push('{');
    let n = members.len();
    for (i, (k, v)) in members.into_iter().enumerate() {
        o.push_str(&ws(h));
        o.push_str(&k);
        o.push_str(&ws(h));
        o.push(':');
        o.push_str(&ws(h));
        o.push_str(&v);
        o.push_str(&ws(h));
        if i + 1 < n {
            o.push(',');
        }
    }
    o.push('}');
    if style >= 3 {
        o.push_str(*h.pick(&["\r", " ", "\t \r", "", "\u{2003}"]));
    }
    o
}

struct Rendered {
    /// for the class "bytes": the line as the socket gets it (not UTF-8); `line` is its lossy decoding
    bytes: Option<Vec<u8>>,
    line: String,
    id: Option<Value>,
    tags: Vec<&'static str>,
}

fn render_id(kind: &str, h: &mut H) -> Option<String> {
    match kind {
        "absent" => None,
        "null" => Some("null".into()),
        "num" => Some(
            (*h.pick(&["1", "0", "-1", "42", "1.5", "18446744073709551615", "-9223372036854775808", "1e3", "7.0",
                       "123456789012345678901234567890", "-0.0", "4294967296"]))
            .into(),
        ),
        "str" => {
            let s = match h.below(8) {
                0 => String::new(),
                1 => "abc".into(),
                2 => "null".into(),
                3 => "1".into(),
                4 => long_name(h),
                5 => "\"\\\n\t\u{0}".into(),
                6 => "ü".into(),
                _ => format!("req-{}", h.below(1000)),
            };
            Some(jstr(&s, h))
        }
        // outside the enumerated alphabet: recorded arbitrary lines only
        "bool" => Some("true".into()),
        "array" => Some("[1,\"a\"]".into()),
        _ => Some("{\"a\":1}".into()),
    }
}

fn bad_params(m: &str, flavour: &str, h: &mut H) -> Option<String> {
    let key = match m {
        "set_mode" => "mode",
        "set_quality" | "set_stall_deselect" => "enabled",
        "set_conn_timeout" => "ms",
        "subscribe" => "topic",
        _ => "subscription_id",
    };
    let good = match m {
        "set_mode" => "\"classic\"",
        "set_quality" | "set_stall_deselect" => "false",
        "set_conn_timeout" => "5000",
        "subscribe" => "\"stats\"",
        _ => "\"sub-0\"",
    };
    let obj = |v: &str| format!("{{\"{key}\":{v}}}");
    Some(match flavour {
        "noparams" => return None,
        "missing" => match h.below(5) {
            0 => "{}".into(),
            1 => format!("{{\"other\":{good}}}"),
            2 => {
                let mut k: Vec<char> = key.chars().collect();
                k[0] = k[0].to_ascii_uppercase();
                format!("{{\"{}\":{good}}}", k.into_iter().collect::<String>())
            }
            3 => format!("{{\"params\":{}}}", obj(good)),
            _ => format!("{{\"{key} \":{good}}}"),
        },
        "null" => "null".into(),
        "array" => (*h.pick(&[format!("[{good}]"), "[]".to_string(), format!("[{}]", obj(good))])).clone(),
        "scalar" => (*h.pick(&[good.to_string(), "7".into(), "true".into(), "\"x\"".into()])).clone(),
        "illtyped" => obj(h.ps(&["5", "true", "null", "[\"classic\"]", "{\"mode\":\"classic\"}", "1.5"])),
        "strbool" => obj(h.ps(&["\"true\"", "\"false\"", "\"True\"", "\"1\""])),
        "num" => obj(h.ps(&["1", "0", "1.0"])),
        "nullval" => obj("null"),
        "boolval" => obj(h.ps(&["true", "false"])),
        "neg" => obj(h.ps(&["-1", "-1000", "-9223372036854775808", "-60000"])),
        "frac" => obj(h.ps(&["1.5", "1500.5", "0.001", "59999.99", "1e-3"])),
        "strnum" => obj(h.ps(&["\"5000\"", "\"1000\"", "\"0\"", "\"60000\""])),
        "floatint" => obj(h.ps(&["5000.0", "5e3", "1.0e4", "60000.0"])),
        "over64" => obj(h.ps(&["18446744073709551616", "1e30", "99999999999999999999999"])),
        _ => "{}".into(),
    })
}

/// Render the abstract line `r` (Control.tla) into one concrete line.
fn render(r: &Value, own_sub: &str, h: &mut H) -> Rendered {
    let cls = gets(r, "cls");
    let mut tags: Vec<&'static str> = Vec::new();
    match cls {
        "blank" => {
            let line = (*h.pick(&["", " ", "\t", "  \r", "\u{a0}", " \t \u{2003}"])).to_string();
            return Rendered { bytes: None, line, id: None, tags };
        }
        "bytes" => {
            // a line that is not UTF-8: only a byte stream (the socket) can carry it
            let mut b: Vec<u8> = match h.below(6) {
                0 => vec![0xff, 0xfe, b' ', b'x'],
                1 => b"{\"jsonrpc\":\"2.0\",\"id\":1,\"method\":\"get_\xc3status\"}".to_vec(),
                2 => b"\xc0\xaf".to_vec(),
                3 => b"{\"jsonrpc\":\"2.0\",\"id\":\"\xed\xa0\x80\",\"method\":\"get_status\"}".to_vec(),
                4 => b"\xf8\x88\x80\x80\x80 {}".to_vec(),
                _ => (0..1 + h.below(40)).map(|_| 0x80 + h.below(0x80) as u8).collect(),
            };
            b.retain(|c| *c != b'\n');
            if std::str::from_utf8(&b).is_ok() {
                b.insert(0, 0xff);
            }
            let mut line = String::from_utf8_lossy(&b).into_owned();
            if !grammar_invalid(&line) {
                line.push('\u{1}');
                b.push(1);
            }
            tags.push("non_utf8");
            return Rendered { bytes: Some(b), line, id: None, tags };
        }
        "garbage" => {
            let lim = r.get("lim").and_then(Value::as_bool).unwrap_or(false);
            return Rendered { bytes: None, line: garbage(h, &mut tags, lim), id: None, tags };
        }
        "nonreq" => {
            // the positional form is kept apart from the other renderings: it has its own finding key
            let pos = r.get("pos").and_then(Value::as_bool).unwrap_or(false);
            return Rendered { bytes: None, line: nonreq(h, &mut tags, pos), id: None, tags };
        }
        _ => {}
    }
    let m = gets(r, "m");
    let p = &r["p"];
    let pk = gets(p, "k");
    let mut members: Vec<(String, String)> = Vec::new();
    // version
    let ver = if gets(r, "ver") == "ok" {
        if h.chance(5) { "\"\\u0032.0\"".to_string() } else { "\"2.0\"".to_string() }
    } else {
        tags.push("bad_version");
        (*h.pick(&["\"1.0\"", "\"2\"", "\"2.00\"", "\"\"", "\" 2.0\"", "\"２.０\"", "\"2.0\\u0000\"", "\"2,0\""])).to_string()
    };
    members.push(("\"jsonrpc\"".into(), ver));
    // id
    let id_txt = render_id(gets(r, "id"), h);
    let id_val = id_txt.as_ref().map(|t| serde_json::from_str::<Value>(t).expect("harness: id text"));
    if let Some(t) = &id_txt {
        members.push(("\"id\"".into(), t.clone()));
    }
    // method
    let name = if m == "unknown" {
        let n = match h.below(12) {
            0 => "noop".to_string(),
            1 => String::new(),
            2 => "SET_MODE".into(),
            3 => "set_mode ".into(),
            4 => "get-status".into(),
            5 => "rpc.discover".into(),
            6 => "get_status\u{0}".into(),
            7 => "\"quoted\"\\".into(),
            _ => long_name(h),
        };
        if straddles(&n) {
            tags.push("long_multibyte_method");
        }
        n
    } else {
        m.to_string()
    };
    members.push(("\"method\"".into(), jstr(&name, h)));
    // params
    let params: Option<String> = match pk {
        "str" => {
            let s = gets(p, "s");
            let (key, val) = match m {
                "set_mode" => (
                    "mode",
                    if s == "other" {
                        let v = match h.below(8) {
                            0 => "turbo".to_string(),
                            1 => String::new(),
                            2 => "Classic".into(),
                            3 => "classic ".into(),
                            4 => "\u{0}classic".into(),
                            _ => long_name(h),
                        };
                        if straddles(&v) {
                            tags.push("long_multibyte_mode");
                        }
                        v
                    } else {
                        s.to_string()
                    },
                ),
                "subscribe" => (
                    "topic",
                    if s == "other" {
                        let ln = long_name(h);
                        (*h.pick(&["nope".to_string(), String::new(), "Stats".into(), "stats ".into(), ln])).clone()
                    } else {
                        s.to_string()
                    },
                ),
                _ => (
                    "subscription_id",
                    if s == "own" { own_sub.to_string() } else { (*h.pick(&["sub-424242", "", "x", "sub--1"])).to_string() },
                ),
            };
            let mut inner = vec![(format!("\"{key}\""), jstr(&val, h))];
            if h.chance(3) {
                inner.push(("\"extra\"".into(), junk(h, 2)));
            }
            Some(layout(inner, h).trim().to_string())
        }
        "bool" => {
            let b = p["b"].as_bool().unwrap();
            let mut inner = vec![("\"enabled\"".to_string(), b.to_string())];
            if h.chance(3) {
                inner.push(("\"mode\"".into(), junk(h, 2)));
            }
            Some(layout(inner, h).trim().to_string())
        }
        "u64" | "huge" => {
            let txt = if pk == "u64" { p["n"].as_u64().unwrap().to_string() } else { gets(p, "s").to_string() };
            if pk == "huge" {
                tags.push("huge_ms");
            }
            let mut inner = vec![("\"ms\"".to_string(), txt)];
            if h.chance(3) {
                inner.push(("\"enabled\"".into(), junk(h, 2)));
            }
            Some(layout(inner, h).trim().to_string())
        }
        "bad" => bad_params(m, gets(p, "s"), h),
        _ => match h.below(7) {
            0 => Some("{}".into()),
            1 => Some("null".into()),
            2 => Some("[]".into()),
            3 => Some(junk(h, 3)),
            4 => Some("\"x\"".into()),
            _ => None,
        },
    };
    if let Some(ps) = params {
        members.push(("\"params\"".into(), ps));
    }
    // a line far longer than any plausible buffer / length cap (4 KiB .. 256 KiB of padding)
    if h.chance(40) {
        tags.push("big_line");
        let n = *h.pick(&[5_000usize, 20_000, 70_000, 140_000, 270_000]);
        let pad = if h.chance(2) { "p".repeat(n) } else { "\u{20ac}".repeat(n / 3) };
        members.push(("\"padding\"".into(), format!("\"{pad}\"")));
    }
    // members the request type does not know
    if h.chance(3) {
        tags.push("extra_members");
        members.push((jstr(*h.pick(&["extra", "x-trace", "ключ", "Method", "ID", "jsonRpc"]), h), junk(h, 3)));
    }
    Rendered { bytes: None, line: layout(members, h), id: id_val.filter(|v| !v.is_null()), tags }
}

/// Not JSON by the grammar alone: the skipping parser checks syntax only (no number range, nesting depth
/// or surrogate pairing), so nothing an implementation limit rejects counts as garbage here.
fn grammar_invalid(line: &str) -> bool {
    let t = line.trim();
    !t.is_empty() && serde_json::from_str::<serde::de::IgnoredAny>(t).is_err()
}

fn simple_request(h: &mut H) -> String {
    let r = random_request(h, false);
    render(&r, "sub-0", h).line
}

fn garbage(h: &mut H, tags: &mut Vec<&'static str>, limits: bool) -> String {
    if limits {
        // grammatical JSON that serde_json cannot represent in the typed members (number range, nesting depth,
        // unpaired surrogate): unparsable for this implementation; another one may accept them (drift at most)
        tags.push("impl_limit");
        return match h.below(3) {
            0 => "{\"jsonrpc\":\"2.0\",\"id\":1e999,\"method\":\"get_status\"}".into(),
            1 => {
                tags.push("garbage_deep");
                format!("{{\"jsonrpc\":\"2.0\",\"id\":1,\"method\":\"get_status\",\"params\":{}{}}}", "[".repeat(300), "]".repeat(300))
            }
            _ => "{\"jsonrpc\":\"2.0\",\"id\":1,\"method\":\"\\ud800\"}".into(),
        };
    }
    let cand = match h.below(11) {
        0 => "not valid json".to_string(),
        1 => "{".into(),
        2 => {
            tags.push("garbage_truncated");
            let s = simple_request(h);
            let t = s.trim();
            let mut cut = 1 + h.below(t.len().max(2) as u64 - 1) as usize;
            while !t.is_char_boundary(cut) {
                cut -= 1;
            }
            t[..cut].to_string()
        }
        3 => {
            tags.push("garbage_noise");
            let n = 1 + h.below(60);
            let b: Vec<u8> = (0..n).map(|_| h.below(256) as u8).filter(|b| *b != b'\n').collect();
            String::from_utf8_lossy(&b).into_owned()
        }
        4 => (*h.pick(&["{'jsonrpc':'2.0','id':1,'method':'get_status'}", "# comment", "// comment", "; x", "-- x", "#",
                        "/* c */ {\"jsonrpc\":\"2.0\",\"id\":1,\"method\":\"get_status\"}", "help", "quit", "?", "stats",
                        "mode classic", "GET / HTTP/1.1", "\u{0}", "\\", "\"", "<xml/>", "%", "!", "@", "~"]))
        .to_string(),
        5 => "{\"jsonrpc\":\"2.0\",\"id\":1,\"method\":\"get_status\",}".into(),
        6 => "NaN".into(),
        7 => format!("{} x", simple_request(h).trim()),
        8 => format!("{}{}", simple_request(h).trim(), simple_request(h).trim()),
        9 => "\u{feff}{\"jsonrpc\":\"2.0\",\"id\":1,\"method\":\"get_status\"}".into(),
        _ => "{\"jsonrpc\":\"2.0\",\"id\":1,\"method\":\"get_\u{1}status\"}".into(),
    };
    if grammar_invalid(&cand) { cand } else { format!("{cand}\u{1}}}") }
}

/// Valid JSON that is not a request object.
fn nonreq(h: &mut H, tags: &mut Vec<&'static str>, posarray: bool) -> String {
    if posarray {
        // positional form of the request type: still not a request *object*
        tags.push("posarray");
        return (*h.pick(&[
            "[\"2.0\",\"get_status\"]",
            "[\"2.0\",\"set_mode\",{\"mode\":\"classic\"}]",
            "[\"2.0\",\"set_quality\",{\"enabled\":false},7]",
            "[\"2.0\",\"set_conn_timeout\",{\"ms\":1234},\"a\"]",
            "[\"2.0\",\"get_status\",null,1]",
        ]))
        .to_string();
    }
    (*h.pick(&[
        "[]",
        "[1,2]",
        "42",
        "\"str\"",
        "null",
        "true",
        "{}",
        "{\"jsonrpc\":\"2.0\"}",
        "{\"jsonrpc\":\"2.0\",\"id\":1}",
        "{\"method\":\"get_status\",\"id\":1}",
        "{\"jsonrpc\":\"2.0\",\"method\":5,\"id\":1}",
        "{\"jsonrpc\":2.0,\"method\":\"get_status\",\"id\":1}",
        "{\"jsonrpc\":\"2.0\",\"method\":null}",
        "{\"jsonrpc\":null,\"method\":\"get_status\",\"id\":3}",
        "[{\"jsonrpc\":\"2.0\",\"id\":1,\"method\":\"get_status\"}]",
        "{\"jsonrpc\":\"2.0\",\"method\":[\"set_mode\"],\"params\":{\"mode\":\"classic\"}}",
        "{\"JSONRPC\":\"2.0\",\"METHOD\":\"get_status\",\"id\":1}",
        "[\"2.0\"]",
        "[2.0,\"get_status\"]",
        "{\"result\":{},\"jsonrpc\":\"2.0\",\"id\":1}",
    ]))
    .to_string()
}

/// Oracle from the JSON grammar alone (serde_json's generic parser, nothing of
/// the code under test): what kind of line is this?
fn oracle(line: &str) -> (&'static str, Option<Value>, Option<String>) {
    let t = line.trim();
    if t.is_empty() {
        return ("blank", None, None);
    }
    if grammar_invalid(t) {
        return ("garbage", None, None);
    }
    match serde_json::from_str::<Value>(t) {
        // grammatical, but beyond what serde_json represents (1e999, 200 nested arrays, "\ud800"): whether
        // that is "unparsable" is the implementation's choice
        Err(_) => ("limits", None, None),
        Ok(Value::Object(o)) => {
            if o.get("jsonrpc").is_some_and(Value::is_string) && o.get("method").is_some_and(Value::is_string) {
                (
                    "obj",
                    o.get("id").filter(|v| !v.is_null()).cloned(),
                    o.get("method").and_then(Value::as_str).map(str::to_string),
                )
            } else {
                ("nonreq", None, None)
            }
        }
        Ok(Value::Array(_)) => ("array", None, None),
        Ok(_) => ("nonreq", None, None),
    }
}

// ------------------------------------------------- random abstract lines --
fn pstr(s: &str) -> Value {
    json!({"k": "str", "s": s, "b": false, "n": 0})
}
fn pbool(b: bool) -> Value {
    json!({"k": "bool", "s": "", "b": b, "n": 0})
}
fn pu64(n: u64) -> Value {
    if n <= i32::MAX as u64 {
        json!({"k": "u64", "s": "", "b": false, "n": n})
    } else {
        json!({"k": "huge", "s": n.to_string(), "b": false, "n": 0})
    }
}
fn pbad(f: &str) -> Value {
    json!({"k": "bad", "s": f, "b": false, "n": 0})
}
fn pany() -> Value {
    json!({"k": "any", "s": "", "b": false, "n": 0})
}

fn random_ms(h: &mut H) -> u64 {
    match h.below(8) {
        0 => *h.pick(&[0u64, 1, 999, 1000, 1001, 59_999, 60_000, 60_001]),
        1 => h.below(1000),
        2 => 60_000 + h.below(100_000),
        3 => *h.pick(&[u32::MAX as u64, u32::MAX as u64 + 1, i64::MAX as u64, i64::MAX as u64 + 1, u64::MAX, u64::MAX - 1, 1 << 53]),
        4 => h.next(),
        _ => 1000 + h.below(59_001),
    }
}

/// A random abstract request; `wide` adds ill-typed / missing parameters, bad
/// versions and the subscription methods.
fn random_request(h: &mut H, wide: bool) -> Value {
    let common = ["missing", "noparams", "null", "array", "scalar"];
    let (m, p): (&str, Value) = match h.below(if wide { 14 } else { 6 }) {
        0 => ("set_mode", pstr(h.ps(&["classic", "enhanced"]))),
        1 => ("set_quality", pbool(h.chance(2))),
        2 => ("set_stall_deselect", pbool(h.chance(2))),
        3 | 9 => ("set_conn_timeout", pu64(random_ms(h))),
        4 => ("get_status", pany()),
        5 => ("get_stats", pany()),
        6 => ("unknown", pany()),
        7 => ("set_mode", if h.chance(2) { pstr("other") } else { pbad(h.ps(&[&common[..], &["illtyped"]].concat())) }),
        8 => (
            *h.pick(&["set_quality", "set_stall_deselect"]),
            pbad(h.ps(&[&common[..], &["strbool", "num", "nullval"]].concat())),
        ),
        10 => ("set_conn_timeout", pbad(h.ps(&[&common[..], &["neg", "frac", "strnum", "nullval", "boolval"]].concat()))),
        11 => match h.below(4) {
            0 => ("subscribe", pstr(h.ps(&["stats", "priority.window", "other"]))),
            1 => ("subscribe", pbad(h.ps(&["missing", "noparams", "illtyped"]))),
            2 => ("unsubscribe", if h.chance(3) { pbad(h.ps(&["missing", "illtyped"])) } else { pstr(h.ps(&["own", "unknown"])) }),
            _ => ("get_subscription_count", pany()),
        },
        12 => ("set_mode", pstr(h.ps(&["classic", "enhanced"]))),
        _ => ("set_quality", pbool(h.chance(2))),
    };
    let id = if wide { *h.pick(&["absent", "null", "num", "str", "num", "str"]) } else { *h.pick(&["num", "str"]) };
    let ver = if wide && h.chance(10) { "bad" } else { "ok" };
    json!({"cls": "req", "ver": ver, "id": id, "m": m, "p": p})
}

/// An arbitrary line (noise, truncated / mutated requests, random JSON, open classes).
fn raw_line(h: &mut H) -> String {
    let line: String = match h.below(10) {
        9 => (*h.pick(&["", " ", "\t", " \r", "\u{a0}", "\u{2003} \u{3000}", "\u{feff}", "\u{200b}"])).to_string(),
        0 => {
            let n = 1 + h.below(80);
            let b: Vec<u8> = (0..n).map(|_| h.below(256) as u8).collect();
            String::from_utf8_lossy(&b).into_owned()
        }
        1 => {
            let s = render(&random_request(h, true), "sub-0", h).line;
            let mut cut = h.below(s.len() as u64 + 1) as usize;
            while !s.is_char_boundary(cut) {
                cut -= 1;
            }
            s[..cut].to_string()
        }
        2 | 3 => {
            // a valid request with a few characters flipped / inserted / deleted
            let mut cs: Vec<char> = render(&random_request(h, true), "sub-0", h).line.chars().collect();
            let pool: Vec<char> = "{}[]\":,\\0123456789-+.eEtfn ulasid\u{0}é😀".chars().collect();
            for _ in 0..1 + h.below(3) {
                if cs.is_empty() {
                    break;
                }
                let i = h.below(cs.len() as u64) as usize;
                match h.below(3) {
                    0 => cs[i] = *h.pick(&pool),
                    1 => cs.insert(i, *h.pick(&pool)),
                    _ => {
                        cs.remove(i);
                    }
                }
            }
            cs.into_iter().collect()
        }
        4 => junk(h, 4),
        5 => {
            // request-shaped objects whose members have random types
            let mut members = Vec::new();
            for k in ["jsonrpc", "method", "id", "params"] {
                if !h.chance(5) {
                    let v = match (k, h.below(3)) {
                        ("jsonrpc", 0) => "\"2.0\"".to_string(),
                        ("method", 0) => format!("\"{}\"", h.pick(&["get_status", "set_mode", "set_conn_timeout", "subscribe", "x"])),
                        _ => junk(h, 2),
                    };
                    members.push((format!("\"{k}\""), v));
                }
            }
            layout(members, h)
        }
        6 => {
            // classes the statement leaves open: float-typed / overflowing timeouts, structured ids
            let mut r = random_request(h, false);
            if h.chance(2) {
                r["m"] = json!("set_conn_timeout");
                r["p"] = pbad(h.ps(&["floatint", "over64"]));
            } else {
                r["id"] = json!(*h.pick(&["bool", "array", "object"]));
            }
            render(&r, "sub-0", h).line
        }
        7 => {
            let mut t = Vec::new();
            let pos = h.chance(4);
            nonreq(h, &mut t, pos)
        }
        _ => render(&random_request(h, true), "sub-0", h).line,
    };
    line.replace('\n', " ")
}

// ------------------------------------------------------------------ legs --
#[derive(Clone, Copy, PartialEq, Eq, Debug)]
enum Entry {
    Sync,
    AsyncCtx,
    AsyncNoCtx,
    Socket,
}

struct Sock {
    rd: BufReader<OwnedReadHalf>,
    wr: OwnedWriteHalf,
    server: tokio::task::JoinHandle<()>,
    path: String,
    markers: u64,
}

struct Leg {
    entry: Entry,
    cfg: DynamicConfig,
    stats: SharedStats,
    cw: CriticalWindow,
    hub: SubscriptionHub,
    tx: mpsc::Sender<String>,
    _rx: mpsc::Receiver<String>,
    owned: Vec<String>,
    sock: Option<Sock>,
    /// socket only: send these bytes (not UTF-8) instead of the line on the next run
    bytes: Option<Vec<u8>>,
    /// socket only: send the next line in two writes split at this byte, with a subscription event pushed to this
    /// very connection in between (the connection subscribes for the occasion and unsubscribes afterwards)
    split_next: Option<usize>,
    split_done: u64,
    /// socket only: what bursts of events pushed to this connection looked like on the wire
    /// ({"k": published, "got": [publication counters in arrival order], "sid": all tagged with the subscription's id})
    bursts: Vec<Value>,
}

/// What one entry point did with one line.
struct Out {
    raw: Vec<String>,    // response lines (socket: everything before the marker's answer)
    snap: Value,         // DynamicConfig::snapshot() after the line
    status: Value,       // `result` of a follow-up get_status through the same entry point
    status_wf: bool,
    dead: bool,          // socket only: the connection was closed instead of answering (byte lines)
}

fn snap_json(c: &DynamicConfig) -> Value {
    let s = c.snapshot();
    json!({
        "mode": s.mode.to_string(), "quality": s.quality_enabled, "stall": s.stall_deselect,
        "minif": s.stall_min_in_flight, "stale": s.stall_ack_stale_ms, "timeout": s.conn_timeout_ms,
    })
}

static SOCK_SEQ: std::sync::atomic::AtomicU64 = std::sync::atomic::AtomicU64::new(0);

impl Leg {
    fn new(entry: Entry, cfg: DynamicConfig, stats: SharedStats, cw: CriticalWindow, rt: &tokio::runtime::Runtime) -> Leg {
        let (tx, rx) = mpsc::channel::<String>(128);
        let hub = SubscriptionHub::new();
        let sock = if entry == Entry::Socket {
            let n = SOCK_SEQ.fetch_add(1, std::sync::atomic::Ordering::Relaxed);
            let path = format!("/tmp/vh_c18_{}_{}.sock", std::process::id(), n);
            let server = {
                let _g = rt.enter();
                srtla_send::control_socket::spawn(path.clone(), cfg.clone(), stats.clone(), cw.clone(), hub.clone())
            };
            let p2 = path.clone();
            let stream = rt.block_on(async move {
                for _ in 0..100_000 {
                    if let Ok(s) = UnixStream::connect(&p2).await {
                        return s;
                    }
                    tokio::task::yield_now().await;
                }
                panic!("harness: control socket did not come up")
            });
            let (r, w) = stream.into_split();
            Some(Sock { rd: BufReader::new(r), wr: w, server, path, markers: 0 })
        } else {
            None
        };
        Leg { entry, cfg, stats, cw, hub, tx, _rx: rx, owned: Vec::new(), sock, bytes: None, split_next: None, split_done: 0, bursts: Vec::new() }
    }

    /// Send one line through this entry point, then a get_status probe.
    fn run(&mut self, line: &str, rt: &tokio::runtime::Runtime) -> Out {
        const PROBE: &str = r#"{"jsonrpc":"2.0","id":"vh-probe","method":"get_status"}"#;
        let mut raw = Vec::new();
        let probe: Option<String>;
        match self.entry {
            Entry::Sync => {
                if let Some(r) = dispatch(&self.cfg, Some(&self.stats), Some(&self.cw), line) {
                    raw.push(r.to_json());
                }
                probe = dispatch(&self.cfg, Some(&self.stats), Some(&self.cw), PROBE).map(|r| r.to_json());
            }
            Entry::AsyncCtx | Entry::AsyncNoCtx => {
                let with_ctx = self.entry == Entry::AsyncCtx;
                let (cfg, stats, cw, hub, tx, owned) = (&self.cfg, &self.stats, &self.cw, &self.hub, &self.tx, &mut self.owned);
                let (a, b) = rt.block_on(async {
                    let mut ctx = SubscriptionContext { hub, push_tx: tx.clone(), owned_ids: owned };
                    let a = dispatch_async(cfg, Some(stats), Some(cw), if with_ctx { Some(&mut ctx) } else { None }, line)
                        .await
                        .map(|r| r.to_json());
                    let b = dispatch_async(cfg, Some(stats), Some(cw), if with_ctx { Some(&mut ctx) } else { None }, PROBE)
                        .await
                        .map(|r| r.to_json());
                    (a, b)
                });
                raw.extend(a);
                probe = b;
            }
            Entry::Socket => {
                let s = self.sock.as_mut().expect("socket leg");
                s.markers += 1;
                let marker = format!("vh-marker-{}", s.markers);
                let probe_line = format!("{{\"jsonrpc\":\"2.0\",\"id\":\"{marker}\",\"method\":\"get_status\"}}\n");
                let bytes = self.bytes.take();
                let tolerate_close = bytes.is_some();
                let split = self.split_next.take().filter(|_| bytes.is_none());
                let mut payload: Vec<u8> = bytes.unwrap_or_else(|| line.replace('\n', " ").into_bytes());
                payload.push(b'\n');
                let hub = self.hub.clone();
                let nth = self.split_done;
                let mut did_split = false;
                let mut burst: Option<Value> = None;
                let mut backlog = false;
                let got = rt.block_on(async {
                    let io = async {
                        // read lines until the answer with this id; everything else is handed back
                        async fn until_id(rd: &mut BufReader<tokio::net::unix::OwnedReadHalf>, id: &str) -> Option<Value> {
                            loop {
                                let mut l = String::new();
                                if rd.read_line(&mut l).await.ok()? == 0 {
                                    return None;
                                }
                                if let Ok(v) = serde_json::from_str::<Value>(l.trim()) {
                                    if v.get("id").and_then(Value::as_str) == Some(id) {
                                        return Some(v);
                                    }
                                }
                            }
                        }
                        let mut sub_id: Option<String> = None;
                        match split.filter(|p| *p >= 1 && *p + 1 < payload.len()) {
                            Some(pos) => {
                                s.wr.write_all(b"{\"jsonrpc\":\"2.0\",\"id\":\"vh-sub\",\"method\":\"subscribe\",\"params\":{\"topic\":\"stats\"}}\n").await.ok()?;
                                let v = until_id(&mut s.rd, "vh-sub").await?;
                                sub_id = v["result"].as_object().and_then(|o| o.values().find_map(|x| x.as_str().map(str::to_string)));
                                if nth % 3 == 1 {
                                    // a burst: several events are queued for this connection before its task runs again
                                    // (nothing here waits, so the task is not polled in between); they must come out in
                                    // publication order
                                    let k = [2u64, 5, 40][(nth / 3 % 3) as usize];
                                    for i in 0..k {
                                        hub.publish("stats", json!({"vh": nth, "k": i})).await;
                                    }
                                    let mut got: Vec<u64> = Vec::new();
                                    let mut sid_ok = true;
                                    while (got.len() as u64) < k {
                                        let mut l = String::new();
                                        match tokio::time::timeout(std::time::Duration::from_secs(2), s.rd.read_line(&mut l)).await {
                                            Ok(Ok(n)) if n > 0 => {}
                                            _ => break,
                                        }
                                        if let Ok(v) = serde_json::from_str::<Value>(l.trim()) {
                                            // (the connection may hold further subscriptions to the topic from the
                                            // request sequence itself: only the lines of this one are looked at)
                                            if v["params"]["data"]["vh"] == json!(nth) && v["params"]["subscription_id"].as_str() == sub_id.as_deref() {
                                                got.push(v["params"]["data"]["k"].as_u64().unwrap_or(u64::MAX));
                                                sid_ok &= v["method"] == json!("stats.update");
                                            }
                                        }
                                    }
                                    burst = Some(json!({"k": k, "got": got, "sid": sid_ok}));
                                    s.wr.write_all(&payload).await.ok()?;
                                    did_split = true;
                                } else if nth % 3 == 2 {
                                    // a backlog: the request is already in the socket when far more events than the
                                    // connection's queue holds are published at once; the answer must still come
                                    s.wr.write_all(&payload).await.ok()?;
                                    for i in 0..300u64 {
                                        hub.publish("stats", json!({"vh": nth, "k": i})).await;
                                    }
                                    backlog = true;
                                    did_split = true;
                                } else {
                                // the first part of the line ...
                                s.wr.write_all(&payload[..pos]).await.ok()?;
                                tokio::time::sleep(std::time::Duration::from_millis(3)).await;
                                // ... an event pushed to this connection while the line is incomplete ...
                                hub.publish("stats", json!({"vh": nth})).await;
                                loop {
                                    let mut l = String::new();
                                    if s.rd.read_line(&mut l).await.ok()? == 0 {
                                        return None;
                                    }
                                    if serde_json::from_str::<Value>(l.trim()).ok().is_some_and(|v| v["params"]["data"]["vh"] == json!(nth)) {
                                        break;
                                    }
                                }
                                // ... and the rest of it
                                s.wr.write_all(&payload[pos..]).await.ok()?;
                                did_split = true;
                                }
                            }
                            None => s.wr.write_all(&payload).await.ok()?,
                        }
                        s.wr.write_all(probe_line.as_bytes()).await.ok()?;
                        let mut before: Vec<String> = Vec::new();
                        loop {
                            let mut l = String::new();
                            let n = s.rd.read_line(&mut l).await.ok()?;
                            if n == 0 {
                                return None; // the connection's task is gone
                            }
                            let l = l.trim_end_matches('\n').to_string();
                            // an event this harness published (the connection may hold further subscriptions to the topic
                            // from the request sequence itself, and what a backlog left in its queue arrives much later)
                            // is not an answer to anything
                            if serde_json::from_str::<Value>(&l).ok().is_some_and(|v| v.get("id").is_none() && v["params"]["data"].get("vh").is_some()) {
                                continue;
                            }
                            let is_marker = serde_json::from_str::<Value>(&l)
                                .ok()
                                .is_some_and(|v| v.get("id").and_then(Value::as_str) == Some(marker.as_str()));
                            if is_marker {
                                if let Some(id) = sub_id.as_ref() {
                                    let u = format!("{{\"jsonrpc\":\"2.0\",\"id\":\"vh-unsub\",\"method\":\"unsubscribe\",\"params\":{{\"subscription_id\":\"{id}\"}}}}\n");
                                    s.wr.write_all(u.as_bytes()).await.ok()?;
                                    until_id(&mut s.rd, "vh-unsub").await?;
                                }
                                return Some((before, l));
                            }
                            before.push(l);
                        }
                    };
                    tokio::time::timeout(std::time::Duration::from_secs(10), io).await.ok().flatten()
                });
                if did_split {
                    self.split_done += 1;
                }
                if let Some(b) = burst {
                    self.bursts.push(b);
                }
                if backlog {
                    self.bursts.push(json!({"backlog": 300, "answered": got.is_some()}));
                }
                match got {
                    Some((before, p)) => {
                        raw = before;
                        probe = Some(p);
                    }
                    None if tolerate_close => {
                        return Out { raw, snap: snap_json(&self.cfg), status: Value::Null, status_wf: false, dead: true };
                    }
                    None => panic!("control socket connection died or hung on line {:?}", short(line)),
                }
            }
        }
        let (status, status_wf) = match probe.as_deref().map(serde_json::from_str::<Value>) {
            Some(Ok(v)) if wellformed(&v).is_none() && v.get("result").is_some() => (v["result"].clone(), true),
            _ => (Value::Null, false),
        };
        Out { raw, snap: snap_json(&self.cfg), status, status_wf, dead: false }
    }
}

impl Drop for Leg {
    fn drop(&mut self) {
        if let Some(s) = self.sock.take() {
            s.server.abort();
            let _ = std::fs::remove_file(&s.path);
        }
    }
}

/// None if `v` is one well-formed JSON-RPC 2.0 response object, else why not.
fn wellformed(v: &Value) -> Option<String> {
    let Some(o) = v.as_object() else { return Some("response is not an object".into()) };
    if o.get("jsonrpc") != Some(&json!("2.0")) {
        return Some("jsonrpc member is not \"2.0\"".into());
    }
    if !o.contains_key("id") {
        return Some("no id member".into());
    }
    let (r, e) = (o.contains_key("result"), o.contains_key("error"));
    if r == e {
        return Some("needs exactly one of result / error".into());
    }
    if o.keys().any(|k| !matches!(k.as_str(), "jsonrpc" | "id" | "result" | "error")) {
        return Some("unknown member".into());
    }
    if e {
        let Some(eo) = o["error"].as_object() else { return Some("error is not an object".into()) };
        if !eo.get("code").is_some_and(|c| c.is_i64()) {
            return Some("error.code is not an integer".into());
        }
        if !eo.get("message").is_some_and(Value::is_string) {
            return Some("error.message is not a string".into());
        }
        if eo.keys().any(|k| !matches!(k.as_str(), "code" | "message" | "data")) {
            return Some("unknown error member".into());
        }
    }
    None
}

/// Is `got` an echo of the id `sent`? Integers within i64 / u64 and everything that is not a number must
/// be identical; a number only representable as a float (1.5, a 29-digit integer) may come back a few ULP
/// off: serde_json's default float parsing is not correctly rounded, so parse -> print -> parse is not the
/// identity there, and no client can tell such ids apart either.
fn id_echo(sent: &Value, got: &Value) -> bool {
    match (sent, got) {
        (Value::Number(a), Value::Number(b)) => {
            if a.is_f64() || b.is_f64() {
                let (x, y) = (a.as_f64().unwrap_or(f64::NAN), b.as_f64().unwrap_or(f64::NAN));
                x == y || (x - y).abs() <= 1e-12 * x.abs().max(y.abs())
            } else {
                a == b
            }
        }
        _ => sent == got,
    }
}

fn val(t: &str, s: &str, b: bool, n: u64) -> Value {
    json!({"t": t, "s": s, "b": b, "n": n})
}

fn status_abs(st: &Value) -> Value {
    json!({
        "mode": st.get("mode").cloned().unwrap_or(Value::Null),
        "quality": st.get("quality_enabled").cloned().unwrap_or(Value::Null),
        "stall": st.get("stall_deselect").cloned().unwrap_or(Value::Null),
        "minif": st.get("stall_min_in_flight").cloned().unwrap_or(Value::Null),
        "stale": st.get("stall_ack_stale_ms").cloned().unwrap_or(Value::Null),
        "timeout": st.get("conn_timeout_ms").cloned().unwrap_or(Value::Null),
    })
}

// ---------------------------------------------------------------- engine --
pub struct ControlEngine {
    rt: tokio::runtime::Runtime,
    legs: Vec<Leg>,
    side_sock: Option<Leg>,
    key: u64,
    h: H,
    step: u64,
    renders: u64,
    use_socket: bool,
    atomics: bool,
    started: bool,
    recording: bool,
    cw_counts: (u64, u64),
    c: std::collections::BTreeMap<&'static str, u64>,
}

impl ControlEngine {
    pub fn new() -> Self {
        Self {
            rt: rt(), legs: Vec::new(), side_sock: None, key: 0, h: H(0), step: 0, renders: 3, use_socket: false, atomics: false,
            started: false, recording: false, cw_counts: (0, 0), c: Default::default(),
        }
    }

    fn bump(&mut self, k: &'static str) {
        *self.c.entry(k).or_insert(0) += 1;
    }

    fn build_legs(&mut self, make: &dyn Fn() -> DynamicConfig) {
        self.legs.clear();
        self.side_sock = None;
        let mut entries = vec![Entry::Sync, Entry::AsyncCtx, Entry::AsyncNoCtx];
        if self.use_socket {
            entries.push(Entry::Socket);
        }
        let (w, m) = self.cw_counts;
        let nconn = (self.key >> 9) % 3;
        for e in entries {
            let cfg = make();
            let cw = CriticalWindow::new();
            for i in 0..w {
                cw.extend_to(T0 + i);
            }
            for _ in 0..m {
                cw.record_malformed();
            }
            let stats = SharedStats::new();
            let conns: Vec<_> = (0..nconn as usize).map(|i| live_conn(i, T0)).collect();
            stats.update(&conns, &cfg.snapshot(), None, None);
            self.legs.push(Leg::new(e, cfg, stats, cw, &self.rt));
        }
        if self.use_socket {
            // a second connection for the further renderings of a line; put back into the pre-state with the
            // plain setters before each use
            let l0 = &self.legs[0];
            self.side_sock = Some(Leg::new(Entry::Socket, make(), l0.stats.clone(), l0.cw.clone(), &self.rt));
        }
    }

    fn status_sane(&self, st: &Value) -> Option<String> {
        let Some(o) = st.as_object() else { return Some("get_status result is not an object".into()) };
        let (w, m) = self.cw_counts;
        if o.get("critical_windows_received") != Some(&json!(w)) || o.get("critical_malformed_datagrams") != Some(&json!(m)) {
            return Some(format!("get_status priority counters {st} != ({w}, {m})"));
        }
        for k in ["mode", "quality_enabled", "stall_deselect", "stall_min_in_flight", "stall_ack_stale_ms", "conn_timeout_ms"] {
            if !o.contains_key(k) {
                return Some(format!("get_status lacks {k}"));
            }
        }
        None
    }

    /// Abstract one entry point's answer to a rendered request.
    fn abstract_resp(&self, leg: usize, out: &Out, sent_id: &Option<Value>, m: &str, why: &mut Vec<String>) -> Value {
        if out.raw.len() > 1 {
            why.push(format!("{:?}: {} responses to one line", self.legs[leg].entry, out.raw.len()));
        }
        let Some(txt) = out.raw.first() else {
            return json!({"present": false, "id": "none", "kind": "none", "code": 0, "val": val("none", "", false, 0)});
        };
        if txt.contains('\n') {
            why.push("response spans lines".into());
        }
        let v: Value = match serde_json::from_str(txt) {
            Ok(v) => v,
            Err(e) => {
                why.push(format!("{:?}: response is not JSON ({e}): {txt}", self.legs[leg].entry));
                return json!({"present": true, "id": "other", "kind": "unparsable", "code": 0, "val": val("none", "", false, 0)});
            }
        };
        if let Some(w) = wellformed(&v) {
            why.push(format!("{:?}: {w}: {txt}", self.legs[leg].entry));
        }
        let id = if sent_id.as_ref().is_some_and(|s| id_echo(s, &v["id"])) {
            "echo"
        } else if v["id"].is_null() {
            "null"
        } else {
            "other"
        };
        if let Some(e) = v.get("error") {
            let code = e.get("code").and_then(Value::as_i64).unwrap_or(1);
            return json!({"present": true, "id": id, "kind": "error", "code": code, "val": val("none", "", false, 0)});
        }
        let r = &v["result"];
        let a = match m {
            "set_mode" => r.get("mode").and_then(Value::as_str).map(|s| val("mode", s, false, 0)),
            "set_quality" | "set_stall_deselect" => r.get("enabled").and_then(Value::as_bool).map(|b| val("flag", "", b, 0)),
            "set_conn_timeout" => r.get("ms").and_then(Value::as_u64).map(|n| val("ms", "", false, n)),
            "get_status" => Some(val("status", if *r == out.status { "same" } else { "differs" }, false, 0)),
            "get_stats" => {
                let want: Value = serde_json::from_str(&self.legs[leg].stats.to_json()).unwrap_or(Value::Null);
                Some(val("stats", if *r == want { "same" } else { "differs" }, false, 0))
            }
            "subscribe" => r.get("subscription_id").and_then(Value::as_str).map(|_| val("sub", "", false, 0)),
            "unsubscribe" => r.get("removed").and_then(Value::as_bool).map(|_| val("unsub", "", false, 0)),
            "get_subscription_count" => r.get("count").and_then(Value::as_u64).map(|_| val("count", "", false, 0)),
            _ => None,
        }
        .unwrap_or_else(|| val("other", "", false, 0));
        json!({"present": true, "id": id, "kind": "result", "code": 0, "val": a})
    }

    fn do_start(&mut self, a: &Value) -> Value {
        let kind = gets(a, "kind").to_string();
        let mode = if a.get("mode").and_then(Value::as_str) == Some("classic") { SchedulingMode::Classic } else { SchedulingMode::Enhanced };
        let nq = a.get("nq").and_then(Value::as_bool).unwrap_or(false);
        let nsd = a.get("nsd").and_then(Value::as_bool).unwrap_or(false);
        let minif = a.get("minif").and_then(Value::as_i64).unwrap_or(32) as i32;
        let stale = a.get("stale").and_then(Value::as_u64).unwrap_or(3000);
        let raw = match a.get("raw") {
            Some(p) if gets(p, "k") == "huge" => gets(p, "s").parse::<u64>().expect("harness: huge"),
            Some(p) => p["n"].as_u64().unwrap_or(5000),
            None => 5000,
        };
        self.cw_counts = ((self.key >> 3) % 4, (self.key >> 6) % 3);
        self.build_legs(&|| {
            if kind == "new" { DynamicConfig::new() } else { DynamicConfig::from_cli(mode, nq, nsd, minif, stale, raw) }
        });
        self.started = true;
        self.bump("starts");
        // observation: snapshot and a status probe on every entry point
        let mut why: Vec<String> = Vec::new();
        let rt = &self.rt;
        let outs: Vec<Out> = self.legs.iter_mut().map(|l| l.run("", rt)).collect();
        for (i, o) in outs.iter().enumerate() {
            if !o.raw.is_empty() {
                why.push(format!("{:?} answered an empty line", self.legs[i].entry));
            }
            if !o.status_wf {
                why.push(format!("{:?}: get_status probe not answered with a well-formed result", self.legs[i].entry));
            } else if let Some(w) = self.status_sane(&o.status) {
                why.push(w);
            }
            if o.snap != outs[0].snap || o.status != outs[0].status {
                why.push(format!("{:?} differs from Sync after start", self.legs[i].entry));
            }
        }
        let mut o = json!({"cfg": outs[0].snap, "status": status_abs(&outs[0].status), "wf": why.is_empty()});
        if !why.is_empty() {
            o["why"] = json!(why);
        }
        o
    }

    /// One concrete line on every entry point. Returns per-leg outputs.
    fn run_all(&mut self, line: &str) -> Vec<Out> {
        // every fifth line or so reaches the socket in two writes with a pushed event in between
        let h = mix(self.key ^ self.step.wrapping_mul(0x2f17) ^ line.len() as u64);
        if h % 5 == 0 && line.len() >= 4 {
            let pos = 1 + (h >> 8) as usize % (line.len() - 2);
            let mut n = 0;
            for l in self.legs.iter_mut().filter(|l| l.entry == Entry::Socket) {
                l.split_next = Some(pos);
                n += 1;
            }
            if n > 0 {
                self.bump("socket_lines_split_around_a_push");
            }
        }
        let rt = &self.rt;
        self.legs.iter_mut().map(|l| l.run(line, rt)).collect()
    }

    fn do_req(&mut self, r: &Value) -> Value {
        assert!(self.started, "harness: request before Start");
        self.bump("requests");
        let m = r.get("m").and_then(Value::as_str).unwrap_or("").to_string();
        let cls = gets(r, "cls").to_string();
        let is_sub = cls == "req" && matches!(m.as_str(), "subscribe" | "unsubscribe" | "get_subscription_count");
        let pre = self.legs[0].cfg.snapshot();
        let own = self.legs[1].owned.last().cloned().unwrap_or_else(|| "sub-999999".into());
        let mut hh = H(mix(self.key ^ self.step.wrapping_mul(0x51ed)));
        let mut r = r.clone();
        let posarray = cls == "nonreq" && hh.chance(4);
        if posarray {
            r["pos"] = json!(true);
        }
        if cls == "garbage" && hh.chance(5) {
            r["lim"] = json!(true);
        }
        let r = &r;
        let rd = render(r, &own, &mut hh);
        for t in &rd.tags {
            self.bump(t);
        }
        self.bump("renderings");
        if let Some(b) = &rd.bytes {
            for l in self.legs.iter_mut().filter(|l| l.entry == Entry::Socket) {
                l.bytes = Some(b.clone());
            }
        }
        let outs = self.run_all(&rd.line);
        let sockdead = outs.iter().any(|o| o.dead);
        let mut wfwhy: Vec<String> = Vec::new();
        let mut agwhy: Vec<String> = Vec::new();
        let abs: Vec<Value> = (0..outs.len()).map(|i| self.abstract_resp(i, &outs[i], &rd.id, &m, &mut wfwhy)).collect();
        for (i, o) in outs.iter().enumerate() {
            if o.dead {
                continue; // reported as `sockdead`
            }
            if !o.status_wf {
                wfwhy.push(format!("{:?}: get_status probe not answered with a well-formed result", self.legs[i].entry));
            } else if let Some(w) = self.status_sane(&o.status) {
                wfwhy.push(w);
            }
        }
        // entry points must answer identically (full response text as JSON, snapshot, status) ...
        let same_full = |a: &Out, b: &Out| -> bool {
            let pa: Vec<Option<Value>> = a.raw.iter().map(|t| serde_json::from_str(t).ok()).collect();
            let pb: Vec<Option<Value>> = b.raw.iter().map(|t| serde_json::from_str(t).ok()).collect();
            pa == pb && a.snap == b.snap && a.status == b.status
        };
        for i in 1..outs.len() {
            let e = self.legs[i].entry;
            if outs[i].dead {
                continue;
            }
            let with_subs = matches!(e, Entry::AsyncCtx | Entry::Socket);
            if is_sub && with_subs {
                // ... except the subscription methods, where the two socket-side entry points must agree
                // with each other on the abstract answer and nothing may touch the configuration
                if abs[i] != abs[1] || outs[i].snap != outs[0].snap || outs[i].status != outs[0].status {
                    agwhy.push(format!("{e:?} vs AsyncCtx/Sync on a subscription method: {} vs {}", abs[i], abs[1]));
                }
            } else if !same_full(&outs[0], &outs[i]) {
                agwhy.push(format!("{e:?} answers {:?} snap {} but Sync answers {:?} snap {} to {:?}", outs[i].raw, outs[i].snap, outs[0].raw, outs[0].snap, short(&rd.line)));
            }
        }
        // further renderings of the same abstract line on fresh objects in the same configuration
        // lines that are not requests have far more shapes than abstract classes: many more renderings
        // classes the statement leaves open (float-typed / overflowing timeout): an implementation that accepts
        // them answers each concrete number differently, so one rendering only (drift, see judge)
        let open_class = cls == "req" && gets(&r["p"], "k") == "bad" && matches!(gets(&r["p"], "s"), "floatint" | "over64");
        let renders = if posarray || open_class || cls == "bytes" { 1 } else if cls != "req" { self.renders * 8 } else { self.renders };
        for j in 1..renders {
            let mut h2 = H(mix(self.key ^ self.step.wrapping_mul(0x51ed) ^ (j << 40)));
            let rd2 = render(r, &own, &mut h2);
            for t in &rd2.tags {
                self.bump(t);
            }
            self.bump("renderings");
            let entry = match (j % 3, self.use_socket) {
                (1, _) => Entry::Sync,
                (0, true) => Entry::Socket,
                _ => Entry::AsyncCtx,
            };
            let mut leg = if entry == Entry::Socket {
                let l = self.side_sock.take().expect("side socket leg");
                l.cfg.set_mode(pre.mode);
                l.cfg.set_quality_enabled(pre.quality_enabled);
                l.cfg.set_stall_deselect(pre.stall_deselect);
                l.cfg.set_conn_timeout_ms(pre.conn_timeout_ms);
                l
            } else {
                let cfg = DynamicConfig::from_cli(pre.mode, !pre.quality_enabled, !pre.stall_deselect, pre.stall_min_in_flight,
                                                  pre.stall_ack_stale_ms, pre.conn_timeout_ms);
                Leg::new(entry, cfg, self.legs[0].stats.clone(), self.legs[0].cw.clone(), &self.rt)
            };
            let o2 = leg.run(&rd2.line, &self.rt);
            self.legs.push(leg);
            let li = self.legs.len() - 1;
            let a2 = self.abstract_resp(li, &o2, &rd2.id, &m, &mut wfwhy);
            let leg = self.legs.pop().unwrap();
            if entry == Entry::Socket {
                self.side_sock = Some(leg);
            }
            let want = if entry == Entry::Sync { &abs[0] } else { &abs[1] };
            if a2 != *want || o2.snap != outs[0].snap || status_abs(&o2.status) != status_abs(&outs[0].status) {
                agwhy.push(format!("rendering {:?} answered {} snap {} but rendering {:?} answered {} snap {}",
                                   short(&rd2.line), a2, o2.snap, short(&rd.line), want, outs[0].snap));
            }
        }
        // counters
        let a0 = &abs[0];
        match a0["code"].as_i64().unwrap_or(0) {
            -32700 => self.bump("err_parse"),
            -32600 => self.bump("err_version"),
            -32601 => self.bump("err_method"),
            -32602 => self.bump("err_params"),
            _ => {}
        }
        if a0["kind"] == "result" {
            self.bump("results");
        }
        if a0["present"] == false && outs[0].snap != snap_json_of(&pre) {
            self.bump("notification_applied");
        }
        if cls == "req" && gets(r, "ver") == "bad" && a0["present"] == false {
            self.bump("bad_version_notification");
        }
        if abs[1]["val"]["t"] == "sub" {
            self.bump("subscribed");
        }
        if m == "set_conn_timeout" && a0["kind"] == "result" {
            let p = &r["p"];
            let raw = if gets(p, "k") == "huge" { u64::MAX } else { p["n"].as_u64().unwrap_or(0) };
            if raw < 1000 {
                self.bump("clamped_low");
            } else if raw > 60000 {
                self.bump("clamped_high");
            }
        }
        if pre.mode == SchedulingMode::Classic && outs[0].snap["quality"] == true {
            self.bump("status_while_classic_quality_on");
        }
        if self.use_socket {
            self.bump("socket_roundtrips");
        }
        let mut o = json!({
            "resp": abs[0], "aresp": abs[1], "cfg": outs[0].snap, "status": status_abs(&outs[0].status),
            "agree": agwhy.is_empty(), "wf": wfwhy.is_empty(), "sockdead": sockdead,
            "render": rd.tags,
        });
        let bursts: Vec<Value> = self.legs.iter_mut().flat_map(|l| l.bursts.drain(..).collect::<Vec<_>>()).collect();
        for b in &bursts {
            if b.get("backlog").is_some() { self.bump("socket_requests_behind_a_backlog"); } else { self.bump("socket_push_bursts"); }
        }
        if !bursts.is_empty() {
            o["bursts"] = json!(bursts);
        }
        // the concrete line: as text for replay reports, as hex in recorded traces (TLC reads those)
        if self.recording {
            // (kept short: the trace is read by TLC and by line-oriented tools)
            o["hex"] = json!(hex(&rd.line[..floor_boundary(&rd.line, 300)]));
            o["len"] = json!(rd.line.len());
        } else {
            o["line"] = json!(short(&rd.line));
        }
        if !agwhy.is_empty() || !wfwhy.is_empty() {
            o["why"] = json!([agwhy, wfwhy]);
        }
        o
    }

    /// An arbitrary line: only what the JSON grammar lets an outsider demand.
    fn do_raw(&mut self, line: &str) -> Value {
        assert!(self.started, "harness: line before Start");
        self.bump("raw_lines");
        let (cls, id, method) = oracle(line);
        match cls {
            "blank" => self.bump("raw_blank"),
            "garbage" => self.bump("raw_garbage"),
            "nonreq" => self.bump("raw_nonreq"),
            "array" => self.bump("raw_array"),
            "limits" => self.bump("raw_limits"),
            _ => self.bump("raw_obj"),
        }
        // A line beyond the generic parser's limits (an out-of-range number in a field the request type ignores, ...)
        // may still be a request to the implementation; its method is then unknown to this oracle, and if it can
        // spell a subscription method the entry points with and without a hub legitimately answer differently.
        let is_sub = matches!(method.as_deref(), Some("subscribe" | "unsubscribe" | "get_subscription_count"))
            || (cls == "limits" && (line.contains("subscri") || line.contains("\\u")));
        let outs = self.run_all(line);
        let mut wfwhy: Vec<String> = Vec::new();
        let mut agwhy: Vec<String> = Vec::new();
        let abs: Vec<Value> = (0..outs.len()).map(|i| self.abstract_resp(i, &outs[i], &id, "", &mut wfwhy)).collect();
        for (i, o) in outs.iter().enumerate() {
            if !o.status_wf {
                wfwhy.push(format!("{:?}: get_status probe not answered with a well-formed result", self.legs[i].entry));
            } else if let Some(w) = self.status_sane(&o.status) {
                wfwhy.push(w);
            }
            if o.snap != status_abs(&o.status) {
                wfwhy.push(format!("{:?}: get_status {} disagrees with the snapshot {}", self.legs[i].entry, o.status, o.snap));
            }
            if i > 0 {
                let with_subs = matches!(self.legs[i].entry, Entry::AsyncCtx | Entry::Socket);
                let same = if is_sub && with_subs {
                    o.snap == outs[0].snap
                } else {
                    abs[i] == abs[0] && o.snap == outs[0].snap && o.status == outs[0].status
                };
                if !same {
                    agwhy.push(format!("{:?} answers {:?} snap {} but Sync answers {:?} snap {}", self.legs[i].entry, o.raw, o.snap, outs[0].raw, outs[0].snap));
                }
            }
        }
        let n = outs.iter().map(|o| o.raw.len()).max().unwrap_or(0);
        let a = if is_sub { &abs[1] } else { &abs[0] };
        if a["kind"] == "result" {
            self.bump("raw_results");
        }
        let mut o = json!({
            "cls": cls, "hasid": id.is_some(), "n": n, "code": a["code"], "idk": a["id"], "kind": a["kind"],
            "agree": agwhy.is_empty(), "wf": wfwhy.is_empty(), "cfg": outs[0].snap,
        });
        if !agwhy.is_empty() || !wfwhy.is_empty() {
            o["why"] = json!([agwhy, wfwhy]);
        }
        o
    }

    fn do_bytes(&mut self, hexv: &Value) -> Value {
        let h = hexv.as_str().unwrap_or("");
        let mut bytes: Vec<u8> = (0..h.len() / 2).map(|i| u8::from_str_radix(&h[2 * i..2 * i + 2], 16).unwrap_or(b'?')).collect();
        bytes.push(b'\n');
        let Some(leg) = self.legs.iter_mut().find(|l| l.entry == Entry::Socket) else {
            return json!({"skipped": "needs --socket"});
        };
        let s = leg.sock.as_mut().unwrap();
        let got = self.rt.block_on(async {
            let io = async {
                s.wr.write_all(&bytes).await.ok()?;
                s.wr.write_all(b"{\"jsonrpc\":\"2.0\",\"id\":\"after\",\"method\":\"get_status\"}\n").await.ok()?;
                let mut lines: Vec<String> = Vec::new();
                loop {
                    let mut l = String::new();
                    if s.rd.read_line(&mut l).await.ok()? == 0 {
                        return Some((lines, false));
                    }
                    let done = l.contains("\"after\"");
                    lines.push(l.trim_end().to_string());
                    if done {
                        return Some((lines, true));
                    }
                }
            };
            tokio::time::timeout(std::time::Duration::from_secs(5), io).await.ok().flatten()
        });
        match got {
            Some((lines, answered)) => json!({"next_request_answered": answered, "lines": lines}),
            None => json!({"next_request_answered": false, "lines": [], "hung": true}),
        }
    }

    // ------------------------------------------------------ atomics stress --
    /// 2 setter threads + 1 reader hammer one DynamicConfig through the real
    /// entry points; every access is logged per thread with the value it
    /// stored (as echoed / applied) or loaded, then projected per field.
    fn do_stress(&mut self, ev: &Value) -> Value {
        const FIELDS: [&str; 6] = ["mode", "quality_enabled", "stall_deselect", "stall_min_in_flight", "stall_ack_stale_ms", "conn_timeout_ms"];
        let ops = ev.get("ops").and_then(Value::as_u64).unwrap_or(12);
        let snaps = ev.get("snaps").and_then(Value::as_u64).unwrap_or(10);
        let seed = ev.get("seed").and_then(Value::as_u64).unwrap_or(1);
        let cfg = DynamicConfig::new();
        let stats = SharedStats::new();
        let cw = CriticalWindow::new();
        let init = status_vec(&cfg);
        let barrier = Arc::new(Barrier::new(3));
        // log entries: (field index, is_store, value)
        type Log = Vec<(usize, bool, i64)>;
        let status_loads = |result: &Value, log: &mut Log| {
            for (f, k) in FIELDS.iter().enumerate() {
                let v = &result[*k];
                let n = if f == 0 {
                    match v.as_str() { Some("classic") => 0, Some("enhanced") => 1, _ => -99 }
                } else if let Some(b) = v.as_bool() {
                    b as i64
                } else {
                    v.as_i64().unwrap_or(-99)
                };
                log.push((f, false, n));
            }
        };
        let mut handles = Vec::new();
        for t in 0..2u64 {
            let (cfg, stats, cw, barrier) = (cfg.clone(), stats.clone(), cw.clone(), barrier.clone());
            handles.push(std::thread::spawn(move || -> Result<Log, String> {
                let rt = if t == 1 { Some(rt()) } else { None };
                let mut h = H(mix(seed ^ (t + 1) * 0x9999));
                let mut log: Log = Vec::new();
                let call = |line: &str| -> Option<String> {
                    match &rt {
                        // thread 1 goes through the socket-side entry point
                        Some(rt) => rt.block_on(dispatch_async(&cfg, Some(&stats), Some(&cw), None, line)).map(|r| r.to_json()),
                        None => dispatch(&cfg, Some(&stats), Some(&cw), line).map(|r| r.to_json()),
                    }
                };
                barrier.wait();
                for n in 0..ops {
                    let f = *h.pick(&[0usize, 1, 2, 5, 5, 5]);
                    let (line, want): (String, Option<i64>) = match f {
                        0 => {
                            let b = h.chance(2);
                            (format!("{{\"jsonrpc\":\"2.0\",\"id\":{n},\"method\":\"set_mode\",\"params\":{{\"mode\":\"{}\"}}}}", if b { "enhanced" } else { "classic" }), Some(b as i64))
                        }
                        1 | 2 => {
                            let b = h.chance(2);
                            (format!("{{\"jsonrpc\":\"2.0\",\"id\":{n},\"method\":\"{}\",\"params\":{{\"enabled\":{b}}}}}", if f == 1 { "set_quality" } else { "set_stall_deselect" }), Some(b as i64))
                        }
                        _ => {
                            // unique in-range values per (thread, op); every fourth one out of range
                            let raw: u64 = match h.below(8) {
                                0 => h.below(1000),
                                1 => 60_001 + h.below(1_000_000),
                                _ => 1001 + t * 25_000 + n,
                            };
                            (format!("{{\"jsonrpc\":\"2.0\",\"id\":{n},\"method\":\"set_conn_timeout\",\"params\":{{\"ms\":{raw}}}}}"), None)
                        }
                    };
                    let resp = call(&line).ok_or("setter got no response")?;
                    let v: Value = serde_json::from_str(&resp).map_err(|e| e.to_string())?;
                    let applied = match f {
                        0 | 1 | 2 => {
                            if v.get("result").is_none() {
                                return Err(format!("setter refused: {resp}"));
                            }
                            want.unwrap()
                        }
                        _ => v["result"]["ms"].as_i64().ok_or(format!("no applied value: {resp}"))?,
                    };
                    log.push((f, true, applied));
                    if h.chance(2) {
                        let st = call("{\"jsonrpc\":\"2.0\",\"id\":\"s\",\"method\":\"get_status\"}").ok_or("no status")?;
                        let v: Value = serde_json::from_str(&st).map_err(|e| e.to_string())?;
                        status_loads(&v["result"], &mut log);
                    }
                }
                Ok(log)
            }));
        }
        {
            let (cfg, stats, cw, barrier) = (cfg.clone(), stats.clone(), cw.clone(), barrier.clone());
            handles.push(std::thread::spawn(move || -> Result<Log, String> {
                let mut log: Log = Vec::new();
                barrier.wait();
                for n in 0..snaps {
                    if n % 2 == 0 {
                        let s = cfg.snapshot();
                        let vals = [s.mode.as_u8() as i64, s.quality_enabled as i64, s.stall_deselect as i64,
                                    s.stall_min_in_flight as i64, s.stall_ack_stale_ms as i64, s.conn_timeout_ms as i64];
                        for (f, v) in vals.iter().enumerate() {
                            log.push((f, false, *v));
                        }
                    } else {
                        let st = dispatch(&cfg, Some(&stats), Some(&cw), "{\"jsonrpc\":\"2.0\",\"id\":1,\"method\":\"get_status\"}")
                            .map(|r| r.to_json())
                            .ok_or("no status")?;
                        let v: Value = serde_json::from_str(&st).map_err(|e| e.to_string())?;
                        for (f, k) in FIELDS.iter().enumerate() {
                            let x = &v["result"][*k];
                            let n = if f == 0 {
                                match x.as_str() { Some("classic") => 0, Some("enhanced") => 1, _ => -99 }
                            } else if let Some(b) = x.as_bool() {
                                b as i64
                            } else {
                                x.as_i64().unwrap_or(-99)
                            };
                            log.push((f, false, n));
                        }
                    }
                    std::hint::spin_loop();
                }
                Ok(log)
            }));
        }
        let logs: Vec<Log> = handles
            .into_iter()
            .map(|h| match h.join() {
                Ok(Ok(l)) => l,
                Ok(Err(e)) => panic!("stress thread: {e}"),
                Err(_) => panic!("stress thread panicked in the code under test"),
            })
            .collect();
        // vacuity evidence: the reader saw timeouts stored by both setters; a setter read back a foreign value
        let reader_ts: Vec<i64> = logs[2].iter().filter(|(f, s, _)| *f == 5 && !*s).map(|x| x.2).collect();
        let by = |t: i64| reader_ts.iter().any(|v| *v >= 1001 + t * 25_000 && *v < 1001 + t * 25_000 + ops as i64);
        if by(0) && by(1) {
            self.bump("reader_saw_both_setters");
        }
        for t in 0..2usize {
            let mut mine: Option<i64> = None;
            for (f, s, v) in &logs[t] {
                if *f != 5 {
                    continue;
                }
                if *s {
                    mine = Some(*v);
                } else if mine.is_some_and(|m| m != *v) {
                    self.bump("own_store_overwritten_before_readback");
                    break;
                }
            }
        }
        self.bump("stress_runs");
        let hammer = hammer(ev.get("hammer").and_then(Value::as_u64).unwrap_or(20_000));
        if hammer["loads_between_stores"].as_u64().unwrap_or(0) > 0 {
            self.bump("hammer_overlapped");
        }
        let mut hammer = hammer;
        hammer["own_field_lost"] = json!(hammer_owned(ev.get("hammer").and_then(Value::as_u64).unwrap_or(20_000) * 5).min(i32::MAX as u64));
        self.bump("owned_field_hammers");
        let fields: Vec<Value> = (0..6)
            .map(|f| {
                let per: Vec<Value> = logs
                    .iter()
                    .map(|l| Value::Array(l.iter().filter(|e| e.0 == f).map(|e| json!({"s": e.1, "v": e.2})).collect()))
                    .collect();
                json!({"init": init[f], "logs": per})
            })
            .collect();
        json!({"f": fields, "hammer": hammer})
    }
}

/// Unlogged pressure phase: 2 threads call the setters in a tight loop (raw timeouts in and out of range,
/// in-range ones from a per-thread arithmetic family), a third takes snapshots in a tight loop and judges
/// every one on the spot: timeout inside 1000..60000 and a value some setter call applied (or the initial
/// one). Only the tallies are recorded; TLC demands that both bad tallies are zero.
fn hammer(iters: u64) -> Value {
    use std::sync::atomic::{AtomicBool, AtomicU64, Ordering};
    let cfg = DynamicConfig::new();
    let init = cfg.snapshot().conn_timeout_ms;
    let stop = Arc::new(AtomicBool::new(false));
    let done = Arc::new(AtomicU64::new(0));
    let barrier = Arc::new(Barrier::new(3));
    let family = move |t: u64, v: u64| -> bool { v >= 2000 + t * 20_000 && v < 2000 + t * 20_000 + 10_000 };
    let mut hs = Vec::new();
    for t in 0..2u64 {
        let (cfg, barrier, done) = (cfg.clone(), barrier.clone(), done.clone());
        hs.push(std::thread::spawn(move || -> u64 {
            barrier.wait();
            let mut echoed_wrong = 0u64;
            for n in 0..iters {
                let raw = match n % 4 {
                    0 => 2000 + t * 20_000 + n % 10_000,
                    1 => n % 1000,                // below the floor
                    2 => 60_001 + n,              // above the ceiling
                    _ => u64::MAX - n,
                };
                let applied = cfg.set_conn_timeout_ms(raw);
                if applied != raw.clamp(1000, 60_000) {
                    echoed_wrong += 1;
                }
                cfg.set_mode(if n % 2 == 0 { SchedulingMode::Classic } else { SchedulingMode::Enhanced });
                cfg.set_quality_enabled(n % 3 == 0);
            }
            done.fetch_add(1, Ordering::SeqCst);
            echoed_wrong
        }));
    }
    let reader = {
        let (cfg, barrier, done, stop) = (cfg.clone(), barrier.clone(), done.clone(), stop.clone());
        std::thread::spawn(move || -> (u64, u64, u64, u64, u64) {
            barrier.wait();
            let (mut loads, mut unclamped, mut never, mut first_bad, mut during) = (0u64, 0u64, 0u64, 0u64, 0u64);
            while !stop.load(Ordering::Relaxed) {
                let s = cfg.snapshot();
                let v = s.conn_timeout_ms;
                loads += 1;
                if done.load(Ordering::Relaxed) < 2 {
                    during += 1;
                }
                if !(1000..=60_000).contains(&v) {
                    unclamped += 1;
                    if first_bad == 0 {
                        first_bad = v;
                    }
                } else if !(v == init || v == 1000 || v == 60_000 || family(0, v) || family(1, v)) {
                    never += 1;
                    if first_bad == 0 {
                        first_bad = v;
                    }
                }
                if done.load(Ordering::Relaxed) >= 2 && loads >= 1000 {
                    break;
                }
            }
            (loads, unclamped, never, first_bad, during)
        })
    };
    let wrong: u64 = hs.into_iter().map(|h| h.join().expect("hammer setter panicked in the code under test")).sum();
    stop.store(true, std::sync::atomic::Ordering::Relaxed);
    let (loads, unclamped, never, first_bad, during) = reader.join().expect("hammer reader panicked in the code under test");
    json!({
        "stores": iters * 2, "loads": loads.min(i32::MAX as u64), "loads_between_stores": during.min(i32::MAX as u64),
        "unclamped": unclamped.min(i32::MAX as u64), "never_stored": never.min(i32::MAX as u64),
        "echo_wrong": wrong.min(i32::MAX as u64), "first_bad": first_bad.min(i32::MAX as u64),
    })
}

/// Unlogged pressure phase with OWNED fields: three threads, each the only writer of one setting (mode, quality,
/// stall guard), store alternating values through the real setters / entry points and read their own field back
/// from the next configuration snapshot and status.  Nobody else ever writes that field, so "a successful set_* is
/// visible in the next status and configuration snapshot" means the read-back equals the thread's own last store --
/// whatever the other threads do to the OTHER settings at the same time.  Only the tally is recorded.
fn hammer_owned(iters: u64) -> u64 {
    let cfg = DynamicConfig::new();
    let stats = SharedStats::new();
    let cw = CriticalWindow::new();
    let barrier = Arc::new(Barrier::new(3));
    let mut hs = Vec::new();
    for t in 0..3u64 {
        let (cfg, stats, cw, barrier) = (cfg.clone(), stats.clone(), cw.clone(), barrier.clone());
        hs.push(std::thread::spawn(move || -> u64 {
            barrier.wait();
            let mut lost = 0u64;
            for n in 0..iters {
                let b = (n / (t + 1)) % 2 == 0;
                // every 64th store goes through the request path, the rest through the setter it ends in
                if n % 64 == 0 {
                    let line = match t {
                        0 => format!("{{\"jsonrpc\":\"2.0\",\"id\":1,\"method\":\"set_mode\",\"params\":{{\"mode\":\"{}\"}}}}", if b { "enhanced" } else { "classic" }),
                        1 => format!("{{\"jsonrpc\":\"2.0\",\"id\":1,\"method\":\"set_quality\",\"params\":{{\"enabled\":{b}}}}}"),
                        _ => format!("{{\"jsonrpc\":\"2.0\",\"id\":1,\"method\":\"set_stall_deselect\",\"params\":{{\"enabled\":{b}}}}}"),
                    };
                    let _ = dispatch(&cfg, Some(&stats), Some(&cw), &line);
                } else {
                    match t {
                        0 => cfg.set_mode(if b { SchedulingMode::Enhanced } else { SchedulingMode::Classic }),
                        1 => cfg.set_quality_enabled(b),
                        _ => cfg.set_stall_deselect(b),
                    }
                }
                let s = cfg.snapshot();
                let got = match t {
                    0 => !s.mode.is_classic(),
                    1 => s.quality_enabled,
                    _ => s.stall_deselect,
                };
                if got != b {
                    lost += 1;
                }
                if n % 256 == 0 {
                    if let Some(r) = dispatch(&cfg, Some(&stats), Some(&cw), "{\"jsonrpc\":\"2.0\",\"id\":1,\"method\":\"get_status\"}") {
                        let v: Value = serde_json::from_str(&r.to_json()).unwrap_or(Value::Null);
                        let got = match t {
                            0 => v["result"]["mode"] == "enhanced",
                            1 => v["result"]["quality_enabled"] == true,
                            _ => v["result"]["stall_deselect"] == true,
                        };
                        if got != b {
                            lost += 1;
                        }
                    }
                }
            }
            lost
        }));
    }
    hs.into_iter().map(|h| h.join().expect("hammer thread panicked in the code under test")).sum()
}

fn snap_json_of(s: &srtla_send::ConfigSnapshot) -> Value {
    json!({
        "mode": s.mode.to_string(), "quality": s.quality_enabled, "stall": s.stall_deselect,
        "minif": s.stall_min_in_flight, "stale": s.stall_ack_stale_ms, "timeout": s.conn_timeout_ms,
    })
}

fn status_vec(c: &DynamicConfig) -> [i64; 6] {
    let s = c.snapshot();
    [s.mode.as_u8() as i64, s.quality_enabled as i64, s.stall_deselect as i64, s.stall_min_in_flight as i64,
     s.stall_ack_stale_ms as i64, s.conn_timeout_ms as i64]
}

impl Engine for ControlEngine {
    fn configure(&mut self, args: &[String]) {
        self.use_socket = args.iter().any(|a| a == "--socket");
        if let Some(i) = args.iter().position(|a| a == "--focus") {
            self.atomics = args.get(i + 1).is_some_and(|f| f == "atomics");
        }
        if let Some(i) = args.iter().position(|a| a == "--renders") {
            self.renders = args.get(i + 1).and_then(|s| s.parse().ok()).unwrap_or(3);
        }
    }

    fn reset(&mut self, _cfg: &Value, case_key: u64) {
        self.legs.clear();
        self.side_sock = None;
        self.key = case_key;
        self.h = H(case_key);
        self.step = 0;
        self.started = false;
    }

    fn apply(&mut self, ev: &Value) -> Value {
        self.step += 1;
        match gets(ev, "ev") {
            "Init" => json!({}),
            "Start" => self.do_start(&ev["a"]),
            "Req" => self.do_req(&ev["r"]),
            "Raw" => {
                let line = match ev.get("g").and_then(Value::as_u64) {
                    Some(g) => raw_line(&mut H(mix(g))),
                    None => unhex(gets(ev, "hex")),
                };
                let mut o = self.do_raw(&line);
                o["hex"] = json!(hex(&line[..floor_boundary(&line, 300)]));
                o["len"] = json!(line.len());
                o
            }
            "Stress" => self.do_stress(ev),
            // probe (not part of the check): raw bytes, possibly not UTF-8, written to the socket connection
            // followed by a valid request -- is that request still answered?
            "Bytes" => self.do_bytes(&ev["hex"]),
            other => panic!("harness: unknown event {other}"),
        }
    }

    fn gen_cfg(&mut self, _rng: &mut StdRng) -> Value {
        json!({})
    }

    fn gen_event(&mut self, rng: &mut StdRng) -> Option<Value> {
        let mut h = H(rng.random::<u64>());
        self.recording = true;
        if self.atomics {
            return Some(json!({"ev": "Stress", "ops": 8 + h.below(10), "snaps": 6 + h.below(8), "seed": h.next() >> 34, "hammer": 20_000}));
        }
        if !self.started {
            let a = if h.chance(3) {
                json!({"kind": "new", "mode": "enhanced", "nq": false, "nsd": false, "minif": 32, "stale": 3000, "raw": pu64(5000)})
            } else {
                json!({"kind": "cli", "mode": *h.pick(&["classic", "enhanced"]), "nq": h.chance(2), "nsd": h.chance(2),
                       "minif": h.below(200) as i64 - 50, "stale": h.below(10_000), "raw": pu64(random_ms(&mut h))})
            };
            return Some(json!({"ev": "Start", "a": a}));
        }
        if h.below(10) < 6 {
            return Some(json!({"ev": "Req", "r": random_request(&mut h, true)}));
        }
        // arbitrary lines: regenerated from the seed by apply (the trace stays small)
        Some(json!({"ev": "Raw", "g": h.next() >> 34}))
    }

    fn judge(&self, ev: &Value, exp: &Value, got: &Value) -> u8 {
        if self.matches(exp, got) {
            return 0;
        }
        if gets(ev, "ev") != "Req" {
            return 2;
        }
        let r = &ev["r"];
        let sane = got["wf"] == true && got["agree"] == true && got["cfg"] == got["status"];
        // grammatical JSON beyond serde_json's limits rendered for the class "garbage"
        if sane && got["render"].as_array().is_some_and(|t| t.iter().any(|x| x == "impl_limit")) {
            return 1;
        }
        // parameter classes the statement does not fix (a float-typed or overflowing integer): any
        // well-formed, self-consistent answer keeps the property
        if sane && gets(r, "cls") == "req" && gets(&r["p"], "k") == "bad" && matches!(gets(&r["p"], "s"), "floatint" | "over64") {
            return 1;
        }
        // a wrong-version line that is ALSO unknown / ill-parameterised: which error is reported first is open
        if sane && gets(r, "cls") == "req" && gets(r, "ver") == "bad" {
            let mut e2 = exp.clone();
            for (resp, alt) in [("resp", "alt"), ("aresp", "aalt")] {
                if exp[alt] != 0 && e2[resp]["present"] == true {
                    e2[resp]["code"] = exp[alt].clone();
                }
            }
            if self.matches(&e2, got) {
                return 1;
            }
        }
        2
    }

    fn finding_key(&self, ev: &Value, exp: &Value, got: &Value) -> Option<String> {
        if gets(ev, "ev") != "Req" || self.matches(exp, got) {
            return None;
        }
        if gets(&ev["r"], "cls") == "bytes" {
            // everything else as the model says, but the socket connection was closed without an answer
            let mut g = got.clone();
            g["sockdead"] = json!(false);
            if got["sockdead"] == true && self.matches(exp, &g) {
                return Some("C18/socket/non-utf8-line-closes-connection".into());
            }
            return None;
        }
        if gets(&ev["r"], "cls") != "nonreq" {
            return None;
        }
        let posarray = got["render"].as_array().is_some_and(|t| t.iter().any(|x| x == "posarray"));
        if posarray && got["wf"] == true {
            return Some("C18/NonRequestIsParseError/positional-array-taken-as-request".into());
        }
        None
    }

    fn matches(&self, exp: &Value, got: &Value) -> bool {
        // alt / aalt are hints for judge, not observations
        let mut e = exp.clone();
        if let Some(o) = e.as_object_mut() {
            o.remove("alt");
            o.remove("aalt");
        }
        crate::util::json_sub(&e, got)
    }

    fn counters(&self) -> Value {
        let mut m = Map::new();
        for (k, v) in &self.c {
            m.insert((*k).to_string(), json!(v));
        }
        Value::Object(m)
    }
}
