//! C19 engine: the real SIGHUP reload path.
//!
//! * parser: `analyze_ip_reload_text` and `analyze_ip_reload` (a real file
//!   under the work directory, a missing path, a directory) on text rendered
//!   from the model's line classes (padding, tabs, CRLF, final newline or not,
//!   IPv6 spellings, eight garbage shapes chosen per case);
//! * apply: the real `create_connections_from_ips` /
//!   `apply_connection_changes` on loopback uplinks 127.0.0.11.. with a
//!   `SourceIpBinder` towards a receiver socket on 127.0.0.1, conn ids random
//!   u64 exactly as `connect_uplink` draws them, packets routed through the
//!   real `forward_via_connection` / `handle_srt_packet` (tracker inserts,
//!   sticky routing choice), flushed onto the wire by `flush_all_batches`.
//!   The SIGHUP / housekeeping arms of the event loop are inline code in
//!   `run_sender_with_config`; their three statements (refuse -> nothing,
//!   apply -> queue, housekeeping -> take + apply) are replicated here.
//!
//! Observation after every step: labels in order, conn ids (tokens by first
//! appearance), ConnIoMap key set, tracker lookups, last_selected_idx, and per
//! uplink `kept` = same conn id, same socket (Arc allocation still alive, same
//! local port) and an unchanged digest of a projection of every field.

use std::collections::HashMap;
use std::net::{IpAddr, Ipv4Addr, Ipv6Addr, SocketAddr};
use std::sync::{Arc, Weak};

use rand::Rng;
use rand::rngs::StdRng;
use serde_json::{Value, json};
use smallvec::SmallVec;
use srtla_core::config_snapshot::ConfigSnapshot;
use srtla_core::connection::{LinkPhase, SrtlaConnection};
use srtla_core::mode::SchedulingMode;
use srtla_core::priority::CriticalWindow;
use srtla_send::net::{BatchUdpSocket, SourceIpBinder, UplinkBinder};
use srtla_send::sender::verif_hooks::{
    ConnIoMap, IpReload, ReloadRefusal, SequenceTracker, analyze_ip_reload, analyze_ip_reload_text,
    flush_all_batches, forward_via_connection, handle_srt_packet,
};
use srtla_send::sender::{apply_connection_changes, create_connections_from_ips};

use crate::engine::Engine;
use crate::util::{T0, fnv, geti, gets, json_sub, mix, rt, srt_data};

const HOST: &str = "127.0.0.1";
const V4_TOKENS: [&str; 8] = ["a", "b", "c", "d", "e", "f", "g", "h"];

fn addr_of(tok: &str) -> IpAddr {
    if let Some(i) = V4_TOKENS.iter().position(|t| *t == tok) {
        return IpAddr::V4(Ipv4Addr::new(127, 0, 0, 11 + i as u8));
    }
    match tok {
        // documentation prefixes: never local, so socket creation fails (the model's `Unbindable`)
        "v6" => IpAddr::V6(Ipv6Addr::new(0x2001, 0xdb8, 0, 0, 0, 0, 0, 0x11)),
        "w6" => IpAddr::V6(Ipv6Addr::new(0x2001, 0xdb8, 0, 0, 0, 0, 0xa, 0x12)),
        "x" => IpAddr::V4(Ipv4Addr::new(192, 0, 2, 77)),
        other => panic!("unknown address token {other}"),
    }
}

fn tok_of(ip: &IpAddr) -> String {
    for t in V4_TOKENS.iter().chain(["v6", "w6", "x"].iter()) {
        if addr_of(t) == *ip {
            return t.to_string();
        }
    }
    format!("?{ip}")
}

/// Text of one address; every spelling parses to the same `IpAddr`.
fn spell(tok: &str, pick: u64) -> String {
    match addr_of(tok) {
        IpAddr::V4(a) => a.to_string(),
        IpAddr::V6(a) => {
            let s = a.segments();
            match pick % 4 {
                0 => a.to_string(),
                1 => a.to_string().to_uppercase(),
                2 => s.iter().map(|x| format!("{x:04x}")).collect::<Vec<_>>().join(":"),
                _ => s.iter().map(|x| format!("{x:x}")).collect::<Vec<_>>().join(":"),
            }
        }
    }
}

/// Garbage shapes: nothing a sane address parser accepts.
fn garbage(g: i64, pick: u64) -> String {
    let a = spell(V4_TOKENS[(pick % 4) as usize], 0);
    let b = spell(V4_TOKENS[((pick >> 3) % 4) as usize], 0);
    match g.rem_euclid(8) {
        0 => "not-an-ip".to_string(),
        1 => format!("{a}:5000"),
        2 => format!("{a}/24"),
        3 => format!("{a} {b}"),
        4 => "300.0.0.1".to_string(),
        5 => format!("# {a}"),
        6 => format!("{a};"),
        _ => "127.0.0.".to_string(),
    }
}

fn pad(pick: u64) -> &'static str {
    ["", " ", "\t", "  ", " \t", "\t\t "][(pick % 6) as usize]
}

/// Render the model's file; `None` = the path does not exist.
fn render(file: &Value, key: u64) -> Option<String> {
    if file["missing"].as_bool().unwrap_or(false) {
        return None;
    }
    let lines = file["lines"].as_array().cloned().unwrap_or_default();
    let all_crlf = mix(key ^ 0xc1) % 5 == 0;
    let final_newline = mix(key ^ 0xf1) % 3 != 0;
    let mut text = String::new();
    let n = lines.len();
    for (i, l) in lines.iter().enumerate() {
        let k = mix(key ^ ((i as u64 + 1) << 20));
        let v = l["v"].as_i64().unwrap_or(0);
        let mut crlf = all_crlf;
        let body = match gets(l, "k") {
            "blank" => String::new(),
            "ws" => ["   ", "\t", " \t ", " "][(k % 4) as usize].to_string(),
            "ip" => {
                let s = spell(gets(l, "a"), k >> 8);
                match v {
                    1 => {
                        // padded: at least one side is non-empty
                        let (mut l, r) = (pad(k >> 16), pad(k >> 24));
                        if l.is_empty() && r.is_empty() {
                            l = " ";
                        }
                        format!("{l}{s}{r}")
                    }
                    2 => {
                        crlf = true;
                        s
                    }
                    _ => s,
                }
            }
            "bad" => {
                let s = garbage(v, k >> 8);
                if (k >> 40) % 3 == 0 { format!("{}{s}{}", pad(k >> 16), pad(k >> 24)) } else { s }
            }
            other => panic!("unknown line class {other}"),
        };
        text.push_str(&body);
        if crlf {
            text.push('\r');
        }
        if i + 1 < n || final_newline {
            text.push('\n');
        }
    }
    Some(text)
}

struct Snap {
    id: u64,
    dig: u64,
    sock: Option<Weak<BatchUdpSocket>>,
    port: u16,
}

pub struct ReloadEngine {
    conns: SmallVec<SrtlaConnection, 4>,
    io: ConnIoMap,
    tracker: SequenceTracker,
    last_sel: Option<usize>,
    pending: Option<SmallVec<IpAddr, 4>>,
    binder: Arc<dyn UplinkBinder>,
    receiver: std::net::UdpSocket,
    port: u16,
    now: u64,
    key: u64,
    step: u64,
    nseq: usize,
    seq_base: u32,
    id_tok: HashMap<u64, i64>,
    dig_tok: HashMap<u64, i64>,
    work: String,
    recording: bool,
    g_next_seq: usize,
    g_started: bool,
    // counters
    c_refused: [u64; 3],
    c_applied: u64,
    c_removed: u64,
    c_multi_removed: u64,
    c_multi_removed_desc: u64,
    c_added: u64,
    c_survivors: u64,
    c_survivors_touched: u64,
    c_purged: u64,
    c_sel_forgotten: u64,
    c_sel_kept: u64,
    c_wire: u64,
    c_dup_lines: u64,
    c_mixed: u64,
    c_queued_at_apply: u64,
    c_inflight_at_apply: u64,
    c_add_failed: u64,
    c_routed_by_selector: u64,
    c_via_file: u64,
    file_exists: bool,
    file: Option<std::fs::File>,
    // must drop after everything that holds an AsyncFd
    rt: tokio::runtime::Runtime,
}

fn local_of(io_sock: &BatchUdpSocket) -> Option<SocketAddr> {
    io_sock.get_ref().local_addr().ok().and_then(|a| a.as_socket())
}

/// Every field of the connection (public ones directly, private ones through
/// `verif_view`), as text; hashed to decide "full protocol state unchanged".
fn projection(c: &SrtlaConnection) -> String {
    let mut log: Vec<(i32, u64)> = c.packet_log.iter().map(|(k, v)| (*k, *v)).collect();
    log.sort();
    format!(
        "{:?}",
        (
            (c.conn_id, c.local_ip, &c.label, c.connected, c.window, c.in_flight_packets, log, c.highest_acked_seq),
            (c.last_received, c.last_sent, c.last_ack_or_rtt_sample_ms, c.stall_gated),
            (&c.rtt, &c.congestion, &c.bitrate, &c.reconnection),
            (&c.batch_sender, c.phase, c.weak, c.cc_backing_off, c.cc_target_bps, c.loss_degraded),
            c.verif_view(),
        )
    )
}

impl ReloadEngine {
    pub fn new() -> Self {
        let rt = rt();
        let receiver = std::net::UdpSocket::bind("127.0.0.1:0").expect("receiver socket");
        receiver.set_nonblocking(true).unwrap();
        let port = receiver.local_addr().unwrap().port();
        let work = std::env::temp_dir().to_string_lossy().to_string();
        Self {
            conns: SmallVec::new(), io: ConnIoMap::new(), tracker: SequenceTracker::new(), last_sel: None,
            pending: None, binder: Arc::new(SourceIpBinder), receiver, port, now: T0, key: 0, step: 0, nseq: 8,
            seq_base: 1000, id_tok: HashMap::new(), dig_tok: HashMap::new(), work, recording: false,
            g_next_seq: 1, g_started: false,
            c_refused: [0; 3], c_applied: 0, c_removed: 0, c_multi_removed: 0, c_multi_removed_desc: 0, c_added: 0,
            c_survivors: 0, c_survivors_touched: 0, c_purged: 0, c_sel_forgotten: 0, c_sel_kept: 0, c_wire: 0,
            c_dup_lines: 0, c_mixed: 0, c_queued_at_apply: 0, c_inflight_at_apply: 0, c_add_failed: 0,
            c_routed_by_selector: 0, c_via_file: 0, file_exists: false, file: None,
            rt,
        }
    }

    fn real_seq(&self, s: usize) -> u32 {
        self.seq_base.wrapping_add(s as u32 * 3) & 0x7fff_ffff
    }

    fn drain_receiver(&mut self) -> Vec<(SocketAddr, usize)> {
        let mut buf = [0u8; 2048];
        let mut out = Vec::new();
        while let Ok((n, from)) = self.receiver.recv_from(&mut buf) {
            out.push((from, n));
        }
        out
    }

    fn snapshot(&self) -> Vec<Snap> {
        self.conns
            .iter()
            .map(|c| {
                let io = self.io.get(&c.conn_id);
                Snap {
                    id: c.conn_id,
                    dig: fnv(projection(c).as_bytes()),
                    sock: io.map(|i| Arc::downgrade(&i.socket)),
                    port: io.and_then(|i| local_of(&i.socket)).map(|a| a.port()).unwrap_or(0),
                }
            })
            .collect()
    }

    fn id_token(&mut self, id: u64) -> i64 {
        let n = self.id_tok.len() as i64 + 1;
        *self.id_tok.entry(id).or_insert(n)
    }

    fn label_token(&self, c: &SrtlaConnection) -> String {
        let prefix = format!("{HOST}:{} via ", self.port);
        match c.label.strip_prefix(&prefix).and_then(|s| s.parse::<IpAddr>().ok()) {
            Some(ip) if ip == c.local_ip => tok_of(&ip),
            _ => format!("?{}", c.label),
        }
    }

    /// Does uplink `i` really send from its address (socket bound to it, datagram arrives from it)?
    fn bound_ok(&mut self, i: usize) -> bool {
        let c = &self.conns[i];
        let ip = c.local_ip;
        let Some(io) = self.io.get(&c.conn_id) else { return false };
        let Some(local) = local_of(&io.socket) else { return false };
        if local.ip() != ip {
            return false;
        }
        let sock = io.socket.clone();
        self.drain_receiver();
        if sock.try_send(&[0xee, i as u8]).is_err() {
            return false;
        }
        let got = self.drain_receiver();
        got.len() == 1 && got[0].0 == local && got[0].1 == 2
    }

    fn obs(&mut self, before: &[Snap], full: bool, check_bound: bool) -> Value {
        let now = self.now;
        let ids: Vec<u64> = self.conns.iter().map(|c| c.conn_id).collect();
        let id_toks: Vec<i64> = ids.iter().map(|i| self.id_token(*i)).collect();
        let labels: Vec<String> = self.conns.iter().map(|c| self.label_token(c)).collect();
        let mut io: Vec<i64> = self.io.keys().map(|k| self.id_tok.get(k).copied().unwrap_or(-1)).collect();
        io.sort();
        let owner: Vec<i64> = (1..=self.nseq)
            .map(|s| match self.tracker.get(self.real_seq(s), now) {
                None => 0,
                Some(id) => self.id_tok.get(&id).copied().unwrap_or(-1),
            })
            .collect();
        let after = if full { self.snapshot() } else { Vec::new() };
        let kept: Vec<bool> = after
            .iter()
            .map(|a| {
                before.iter().any(|b| {
                    b.id == a.id
                        && b.dig == a.dig
                        && b.port == a.port
                        && b.port != 0
                        && match (&b.sock, &a.sock) {
                            (Some(x), Some(y)) => x.upgrade().is_some() && Weak::ptr_eq(x, y),
                            _ => false,
                        }
                })
            })
            .collect();
        let digs: Vec<i64> = after
            .iter()
            .map(|a| {
                // the trace's `st`: protocol state + socket identity
                let d = mix(a.dig ^ (a.port as u64) << 48 ^ a.sock.as_ref().map(|w| w.as_ptr() as usize as u64).unwrap_or(0));
                let n = self.dig_tok.len() as i64 + 1;
                *self.dig_tok.entry(d).or_insert(n)
            })
            .collect();
        let mut o = json!({
            "labels": labels, "ids": id_toks, "io": io, "owner": owner,
            "sel": self.last_sel.map(|i| i as i64 + 1).unwrap_or(0),
            "pend": self.pending.as_ref().map(|l| l.iter().map(tok_of).collect::<Vec<_>>()).unwrap_or_default(),
        });
        if full {
            o["kept"] = json!(kept);
            o["digs"] = json!(digs);
        }
        if check_bound {
            let bound: Vec<bool> = (0..self.conns.len()).map(|i| self.bound_ok(i)).collect();
            o["bound"] = json!(bound);
        }
        o
    }

    fn snap_cfg(&self) -> ConfigSnapshot {
        ConfigSnapshot {
            mode: if mix(self.key ^ 0x77) % 2 == 0 { SchedulingMode::Classic } else { SchedulingMode::Enhanced },
            quality_enabled: true,
            stall_deselect: false,
            stall_min_in_flight: 10,
            stall_ack_stale_ms: 3000,
            conn_timeout_ms: 60_000,
        }
    }

    fn mutate(&mut self, l: usize, pick: u64) {
        let now = self.now;
        let c = &mut self.conns[l];
        match pick % 8 {
            0 => {
                // what REG3 leaves behind
                c.connected = true;
                c.phase = LinkPhase::Live;
                c.last_received = Some(now);
                c.reconnection.connection_established_ms = now;
                c.reconnection.startup_grace_deadline_ms = now;
            }
            1 => {
                let s = 70_000 + (pick >> 8) as i32 % 1000;
                c.register_packet(s, now);
                c.handle_nak(s, now);
            }
            2 => c.rtt.update_estimate(20 + (pick >> 8) % 400, now),
            3 => {
                c.weak = true;
                c.cc_target_bps = 1_000_000 + (pick >> 8) % 1000;
                c.loss_degraded = (pick >> 20) % 2 == 0;
            }
            4 => c.record_reconnect_attempt(now),
            5 => c.verif_set_stall(now - 5, 0, (pick >> 8) % 2 == 0, (pick >> 9) as u32 % 50),
            6 => {
                let _ = c.keepalive_packet(now);
                c.note_sent(now);
            }
            _ => {
                c.window = 1000 + ((pick >> 8) % 59_000) as i32;
                c.last_ack_or_rtt_sample_ms = now;
            }
        }
    }

    fn parse(&mut self, file: &Value) -> (Value, Option<SmallVec<IpAddr, 4>>) {
        let text = render(file, mix(self.key ^ self.step));
        let path = format!("{}/vh_reload_{}.ips", self.work, std::process::id());
        let flavour = mix(self.key ^ self.step ^ 0x51);
        // the file-reading entry point on one rendering in four (and always for a missing file), the pure
        // parser on all of them; where both ran they must agree
        let via_file = flavour % 4 == 0;
        let mut agree = true;
        let res = match &text {
            Some(t) if via_file => {
                // rewrite in place through one handle (creating / truncating by path is slow here)
                {
                    use std::io::{Seek, SeekFrom, Write};
                    if !self.file_exists || self.file.is_none() {
                        self.file = Some(std::fs::File::create(&path).expect("create ips file"));
                    }
                    let f = self.file.as_mut().unwrap();
                    f.seek(SeekFrom::Start(0)).unwrap();
                    f.write_all(t.as_bytes()).expect("write ips file");
                    f.set_len(t.len() as u64).unwrap();
                }
                self.file_exists = true;
                self.c_via_file += 1;
                let r = analyze_ip_reload(&path);
                agree = analyze_ip_reload_text(t) == r;
                r
            }
            Some(t) => analyze_ip_reload_text(t),
            None => {
                if self.file_exists {
                    let _ = std::fs::remove_file(&path);
                    self.file = None;
                    self.file_exists = false;
                }
                // a path that does not exist, or one that cannot be read as a file
                if flavour % 3 == 0 { analyze_ip_reload(&self.work) } else { analyze_ip_reload(&path) }
            }
        };
        let lines = file["lines"].as_array().cloned().unwrap_or_default();
        let n_ip = lines.iter().filter(|l| l["k"] == "ip").count();
        let n_bad = lines.iter().filter(|l| l["k"] == "bad").count();
        let mut seen = std::collections::HashSet::new();
        if lines.iter().filter(|l| l["k"] == "ip").any(|l| !seen.insert(l["a"].as_str().unwrap_or("").to_string())) {
            self.c_dup_lines += 1;
        }
        if n_ip > 0 && n_bad > 0 {
            self.c_mixed += 1;
        }
        match res {
            IpReload::Apply { ips, first_invalid_line } => (
                json!({"refused": false, "reason": "Apply", "list": ips.iter().map(tok_of).collect::<Vec<_>>(),
                       "fi": first_invalid_line.unwrap_or(0), "agree": agree}),
                Some(ips),
            ),
            IpReload::Refuse(r) => {
                let (reason, fi) = match r {
                    ReloadRefusal::NotFound => {
                        self.c_refused[0] += 1;
                        ("NotFound", 0)
                    }
                    ReloadRefusal::Empty => {
                        self.c_refused[1] += 1;
                        ("Empty", 0)
                    }
                    ReloadRefusal::NoValidIps { first_invalid_line } => {
                        self.c_refused[2] += 1;
                        ("NoValidIps", first_invalid_line)
                    }
                };
                (json!({"refused": true, "reason": reason, "list": [], "fi": fi, "agree": agree}), None)
            }
        }
    }

    fn route_direct(&mut self, l: usize, s: usize) {
        let seq = self.real_seq(s);
        let pkt = srt_data(seq, 16 + (mix(self.key ^ self.step) % 64) as usize, false, s as u8);
        let now = self.now;
        let Self { rt, conns, io, last_sel, tracker, .. } = self;
        rt.block_on(forward_via_connection(l, &pkt, Some(seq), conns, io, last_sel, tracker, now));
    }

    fn flush(&mut self) {
        let Self { rt, conns, io, .. } = self;
        rt.block_on(flush_all_batches(conns, io));
        self.c_wire += self.drain_receiver().len() as u64;
    }
}

impl Engine for ReloadEngine {
    fn configure(&mut self, args: &[String]) {
        if let Some(i) = args.iter().position(|a| a == "--work") {
            if let Some(d) = args.get(i + 1) {
                self.work = d.clone();
            }
        }
    }

    fn reset(&mut self, cfg: &Value, case_key: u64) {
        self.conns.clear();
        self.io.clear();
        self.tracker = SequenceTracker::new();
        self.last_sel = None;
        self.pending = None;
        self.now = T0 + 50_000;
        self.key = case_key;
        self.step = 0;
        self.recording = cfg.get("record").and_then(Value::as_bool).unwrap_or(false);
        self.nseq = cfg.get("nseq").and_then(Value::as_u64).unwrap_or(8) as usize;
        // anywhere in the 31-bit space, incl. just below the tracker ring's wrap and the sequence wrap
        self.seq_base = match mix(case_key ^ 0x5e) % 4 {
            0 => 1000,
            1 => 16384 * 3 - 4,
            2 => 0x7fff_ffff - 7,
            _ => (mix(case_key ^ 0x5f) % 0x7000_0000) as u32,
        };
        self.id_tok.clear();
        self.dig_tok.clear();
        self.g_next_seq = 1;
        self.g_started = false;
        self.drain_receiver();
    }

    fn apply(&mut self, ev: &Value) -> Value {
        srtla_core::verif::set_clock(Some(self.now));
        let name = gets(ev, "ev").to_string();
        if name == "Init" {
            return self.obs(&[], true, false);
        }
        self.step += 1;
        self.now += 1 + mix(self.key ^ (self.step << 4)) % 3;
        srtla_core::verif::set_clock(Some(self.now));
        let pick = mix(self.key ^ (self.step << 12) ^ 0xabc);
        // identity / state digests are compared around reload steps (and logged on every recorded step)
        let full = self.recording || name == "Sighup" || name == "Apply";
        let before = if full { self.snapshot() } else { Vec::new() };
        let pre_labels: Vec<String> = self.conns.iter().map(|c| self.label_token(c)).collect();
        let pre_ids: Vec<i64> = self.conns.iter().map(|c| self.id_tok.get(&c.conn_id).copied().unwrap_or(-1)).collect();
        let pre_owner: Vec<i64> = (1..=self.nseq)
            .map(|s| match self.tracker.get(self.real_seq(s), self.now) {
                None => 0,
                Some(id) => self.id_tok.get(&id).copied().unwrap_or(-1),
            })
            .collect();
        let mut extra = json!({});
        let mut check_bound = false;
        match name.as_str() {
            "Start" => {
                let ips: Vec<IpAddr> =
                    ev["list"].as_array().unwrap().iter().map(|t| addr_of(t.as_str().unwrap())).collect();
                let (host, port) = (HOST, self.port);
                let Self { rt, io, binder, conns, .. } = self;
                *conns = rt.block_on(create_connections_from_ips(&ips, host, port, binder, io));
                self.c_add_failed += (ips.len() - self.conns.len()) as u64;
                check_bound = true;
            }
            "Route" => {
                let l = geti(ev, "l") as usize - 1;
                let s = geti(ev, "s") as usize;
                self.route_direct(l, s);
                // packets in flight: on the wire or still queued, per case
                if pick % 2 == 0 {
                    self.flush();
                }
            }
            "RouteSel" => {
                // the whole SRT arm: real selector, routing, tracker insert
                let s = geti(ev, "s") as usize;
                let seq = self.real_seq(s);
                let mut pkt = srt_data(seq, 16 + (pick >> 24) as usize % 64, pick % 5 == 0, s as u8);
                let n = pkt.len();
                let snap = self.snap_cfg();
                let cw = CriticalWindow::new();
                let mut client = None;
                let src: SocketAddr = "127.0.0.1:5555".parse().unwrap();
                let reg_done = self.conns.iter().any(|c| c.connected);
                let Self { rt, conns, io, last_sel, tracker, .. } = self;
                rt.block_on(handle_srt_packet(Ok((n, src)), &mut pkt, conns, io, last_sel, tracker, &mut client,
                                              reg_done, &snap, &cw));
                let now = self.now;
                let l = self.tracker.get(seq, now)
                    .and_then(|id| self.conns.iter().position(|c| c.conn_id == id))
                    .filter(|i| self.last_sel == Some(*i));
                if l.is_some() {
                    self.c_routed_by_selector += 1;
                }
                extra["l"] = json!(l.map(|i| i as i64 + 1).unwrap_or(0));
            }
            "Flush" => self.flush(),
            "Mutate" => {
                let l = geti(ev, "l") as usize - 1;
                self.mutate(l, pick);
                self.mutate(l, mix(pick));
            }
            "Sighup" => {
                let (o, list) = self.parse(&ev["file"]);
                extra = o;
                // SIGHUP arm of the event loop: Apply => queue, Refuse => keep whatever is queued
                if let Some(ips) = list {
                    self.pending = Some(ips);
                }
            }
            "Apply" => {
                // housekeeping arm: `if let Some(changes) = pending_changes.take()`
                if let Some(list) = self.pending.take() {
                    let desired: Vec<String> = list.iter().map(tok_of).collect();
                    let removed: Vec<u64> = self.conns.iter().zip(pre_labels.iter())
                        .filter(|(_, l)| !desired.contains(l)).map(|(c, _)| c.conn_id).collect();
                    let now = self.now;
                    let owned_by_removed = (1..=self.nseq)
                        .filter(|s| self.tracker.get(self.real_seq(*s), now).is_some_and(|id| removed.contains(&id)))
                        .count() as u64;
                    let survivors: Vec<&SrtlaConnection> =
                        self.conns.iter().filter(|c| !removed.contains(&c.conn_id)).collect();
                    self.c_survivors += survivors.len() as u64;
                    self.c_survivors_touched +=
                        survivors.iter().filter(|c| c.connected || c.in_flight_packets > 0 || c.weak).count() as u64;
                    self.c_queued_at_apply += self.conns.iter().filter(|c| c.has_queued_packets()).count() as u64;
                    self.c_inflight_at_apply += self.conns.iter().filter(|c| c.in_flight_packets > 0).count() as u64;
                    let had_sel = self.last_sel.is_some();
                    let n_before = self.conns.len();
                    let (host, port) = (HOST, self.port);
                    let Self { rt, conns, io, last_sel, tracker, binder, .. } = self;
                    rt.block_on(apply_connection_changes(conns, io, &list, host, port, last_sel, tracker, binder));
                    self.c_applied += 1;
                    self.c_removed += removed.len() as u64;
                    if removed.len() >= 2 {
                        self.c_multi_removed += 1;
                        if removed.windows(2).any(|w| w[0] > w[1]) {
                            self.c_multi_removed_desc += 1;
                        }
                    }
                    self.c_purged += owned_by_removed;
                    if had_sel && !removed.is_empty() {
                        self.c_sel_forgotten += 1;
                    }
                    if had_sel && removed.is_empty() {
                        self.c_sel_kept += 1;
                    }
                    let added = (self.conns.len() + removed.len()).saturating_sub(n_before);
                    self.c_added += added as u64;
                    let mut seen = Vec::new();
                    let wanted_new = desired.iter()
                        .filter(|d| !pre_labels.contains(d) && !seen.contains(d) && { seen.push(*d); true }).count();
                    self.c_add_failed += wanted_new.saturating_sub(added) as u64;
                    extra["applied"] = json!(desired);
                    extra["nrem"] = json!(removed.len());
                    check_bound = true;
                }
            }
            other => panic!("unknown event {other}"),
        }
        let mut o = self.obs(&before, full, check_bound);
        if let (Value::Object(o), Value::Object(x)) = (&mut o, &extra) {
            for (k, v) in x {
                o.insert(k.clone(), v.clone());
            }
        }
        o["pre_labels"] = json!(pre_labels);
        o["pre_ids"] = json!(pre_ids);
        o["pre_owner"] = json!(pre_owner);
        o
    }

    // ------------------------------------------------------------------ verdicts
    fn finding_key(&self, ev: &Value, exp: &Value, got: &Value) -> Option<String> {
        clause_broken(ev, exp, got).map(|c| format!("C19/{c}"))
    }

    fn judge(&self, ev: &Value, exp: &Value, got: &Value) -> u8 {
        if clause_broken(ev, exp, got).is_some() {
            return 2;
        }
        if self.matches(exp, got) { 0 } else { 1 }
    }

    fn matches(&self, exp: &Value, got: &Value) -> bool {
        // the model lists `owner` for its own sequence numbers only
        let mut g = got.clone();
        if let (Some(e), Some(o)) = (exp["owner"].as_array(), got["owner"].as_array()) {
            g["owner"] = json!(o.iter().take(e.len()).cloned().collect::<Vec<_>>());
        }
        json_sub(exp, &g)
    }

    // ------------------------------------------------------------------ recording
    fn gen_cfg(&mut self, _rng: &mut StdRng) -> Value {
        json!({"record": true, "nseq": 12})
    }

    fn gen_event(&mut self, rng: &mut StdRng) -> Option<Value> {
        let pool: &[&str] = &["a", "b", "c", "d", "e", "f"];
        if !self.g_started {
            self.g_started = true;
            let n = rng.random_range(1..=4);
            let mut list: Vec<&str> = (0..n).map(|_| pool[rng.random_range(0..pool.len())]).collect();
            if rng.random_range(0..4) != 0 {
                list.dedup();
            }
            return Some(json!({"ev": "Start", "list": list}));
        }
        let n = self.conns.len();
        let r = rng.random_range(0..100);
        if self.pending.is_some() && r < 35 {
            return Some(json!({"ev": "Apply"}));
        }
        Some(if r < 45 && n > 0 {
            // mostly fresh numbers, sometimes a re-send of an older one
            let s = if rng.random_range(0..5) == 0 { rng.random_range(1..=self.nseq) } else {
                let s = self.g_next_seq;
                self.g_next_seq = self.g_next_seq % self.nseq + 1;
                s
            };
            if rng.random_range(0..3) == 0 {
                json!({"ev": "RouteSel", "s": s})
            } else {
                json!({"ev": "Route", "l": rng.random_range(1..=n), "s": s})
            }
        } else if r < 55 {
            json!({"ev": "Flush"})
        } else if r < 70 && n > 0 {
            json!({"ev": "Mutate", "l": rng.random_range(1..=n)})
        } else {
            // a SIGHUP finding a random file
            let cur: Vec<String> = self.conns.iter().map(|c| self.label_token(c)).collect();
            let kind = rng.random_range(0..100);
            if kind < 6 {
                return Some(json!({"ev": "Sighup", "file": {"missing": true, "lines": []}}));
            }
            let nl = if kind < 12 { rng.random_range(0..3) } else { rng.random_range(1..=6) };
            let mut lines = Vec::new();
            for _ in 0..nl {
                let k = rng.random_range(0..100);
                let only_junk = kind < 24;
                lines.push(if only_junk || k < 22 {
                    match rng.random_range(0..4) {
                        0 => json!({"k": "blank", "a": "-", "v": 0}),
                        1 => json!({"k": "ws", "a": "-", "v": 0}),
                        _ if kind < 12 => json!({"k": "ws", "a": "-", "v": 0}),
                        _ => json!({"k": "bad", "a": "-", "v": rng.random_range(0..8)}),
                    }
                } else {
                    // keep some current uplinks, add some others; rarely an address no socket can be bound to
                    let a: String = if k < 60 && !cur.is_empty() {
                        cur[rng.random_range(0..cur.len())].clone()
                    } else if k < 96 {
                        pool[rng.random_range(0..pool.len())].to_string()
                    } else {
                        ["v6", "x"][rng.random_range(0..2)].to_string()
                    };
                    json!({"k": "ip", "a": a, "v": rng.random_range(0..3)})
                });
            }
            json!({"ev": "Sighup", "file": {"missing": false, "lines": lines}})
        })
    }

    fn counters(&self) -> Value {
        json!({
            "refused_missing": self.c_refused[0], "refused_empty": self.c_refused[1],
            "refused_no_valid": self.c_refused[2], "files_with_duplicates": self.c_dup_lines,
            "files_mixed_valid_invalid": self.c_mixed,
            "applied": self.c_applied, "uplinks_removed": self.c_removed, "multi_removals": self.c_multi_removed,
            "multi_removals_ids_descending": self.c_multi_removed_desc,
            "uplinks_added": self.c_added, "survivors": self.c_survivors,
            "survivors_with_history": self.c_survivors_touched, "tracker_records_of_removed": self.c_purged,
            "selection_forgotten": self.c_sel_forgotten, "selection_kept": self.c_sel_kept,
            "frames_on_wire": self.c_wire, "uplinks_with_queue_at_apply": self.c_queued_at_apply,
            "uplinks_with_in_flight_at_apply": self.c_inflight_at_apply, "add_failed": self.c_add_failed,
            "routed_by_real_selector": self.c_routed_by_selector, "parsed_through_a_real_file": self.c_via_file,
        })
    }
}

fn strs(v: &Value) -> Vec<String> {
    v.as_array().map(|a| a.iter().map(|x| x.as_str().unwrap_or("?").to_string()).collect()).unwrap_or_default()
}
fn ints(v: &Value) -> Vec<i64> {
    v.as_array().map(|a| a.iter().map(|x| x.as_i64().unwrap_or(-9)).collect()).unwrap_or_default()
}
fn bools(v: &Value) -> Vec<bool> {
    v.as_array().map(|a| a.iter().map(|x| x.as_bool().unwrap_or(false)).collect()).unwrap_or_default()
}

/// The clauses of the statement, decided on the real before/after observation
/// (independent of the order / id numbering the code-shaped model predicts).
/// `None` = every clause holds.
fn clause_broken(ev: &Value, exp: &Value, got: &Value) -> Option<&'static str> {
    let name = ev["ev"].as_str().unwrap_or("");
    let (labels, ids, io, kept) = (strs(&got["labels"]), ints(&got["ids"]), ints(&got["io"]), bools(&got["kept"]));
    let (pre_labels, pre_ids) = (strs(&got["pre_labels"]), ints(&got["pre_ids"]));
    match name {
        "Sighup" => {
            // refused iff nothing parsable; otherwise exactly the parsable lines in order
            if got["refused"] != exp["refused"] {
                return Some("ParsedExactly/refusal");
            }
            if got["list"] != exp["list"] {
                return Some("ParsedExactly/list");
            }
            if got["agree"] != json!(true) {
                return Some("ParsedExactly/text-vs-file");
            }
            // the SIGHUP itself touches no uplink
            if labels != pre_labels || ids != pre_ids || kept.iter().any(|k| !k) {
                return Some("RefusedUntouched");
            }
            None
        }
        "Apply" if exp.get("applied").is_some() => {
            let list = strs(&exp["applied"]);
            if got.get("applied").is_none() || strs(&got["applied"]) != list {
                // the harness-held queue differs from the model's: the SIGHUP step already said why
                return Some("ParsedExactly/queued-list");
            }
            // survivors: once, same identity / socket / state
            for (i, l) in pre_labels.iter().enumerate() {
                let pos: Vec<usize> = (0..ids.len()).filter(|j| ids[*j] == pre_ids[i]).collect();
                if list.contains(l) {
                    if pos.len() != 1 || labels[pos[0]] != *l || !kept[pos[0]] {
                        return Some("SurvivorsKept");
                    }
                } else {
                    if !pos.is_empty() {
                        return Some("RemovedExactly");
                    }
                    if io.contains(&pre_ids[i]) {
                        return Some("IoFollows");
                    }
                }
            }
            if labels.iter().any(|l| !list.contains(l)) {
                return Some("RemovedExactly");
            }
            // additions: each new (bindable) address once, fresh identity, really bound to the address
            let bound = bools(&got["bound"]);
            for a in list.iter().filter(|a| !pre_labels.contains(a)) {
                let pos: Vec<usize> = (0..labels.len()).filter(|j| labels[*j] == *a).collect();
                let unbindable = matches!(a.as_str(), "v6" | "w6" | "x");
                if unbindable && pos.is_empty() {
                    continue;
                }
                if pos.len() != 1 || pre_ids.contains(&ids[pos[0]]) || !bound.get(pos[0]).copied().unwrap_or(false) {
                    return Some("AddedOnce");
                }
            }
            for a in pre_labels.iter().filter(|a| list.contains(a)) {
                if labels.iter().filter(|l| *l == a).count() != pre_labels.iter().filter(|l| *l == a).count() {
                    return Some("AddedOnce");
                }
            }
            let mut uniq = ids.clone();
            uniq.sort();
            uniq.dedup();
            if uniq.len() != ids.len() {
                return Some("AddedOnce");
            }
            // I/O map follows the list
            let mut want_io = ids.clone();
            want_io.sort();
            if io != want_io {
                return Some("IoFollows");
            }
            // tracker: exactly the records of removed uplinks are gone (every tracked number, not only the model's)
            let removed: Vec<i64> =
                pre_labels.iter().zip(pre_ids.iter()).filter(|(l, _)| !list.contains(l)).map(|(_, i)| *i).collect();
            let (owner, pre_owner) = (ints(&got["owner"]), ints(&got["pre_owner"]));
            for (s, p) in pre_owner.iter().enumerate() {
                let g = owner.get(s).copied().unwrap_or(-9);
                if removed.contains(p) {
                    if g != 0 {
                        return Some("TrackerPurged");
                    }
                } else if g != *p {
                    return Some("TrackerPurged/survivor-record-lost");
                }
            }
            if !removed.is_empty() && got["sel"].as_i64() != Some(0) {
                return Some("SelectionForgotten");
            }
            None
        }
        _ => None,
    }
}

impl Drop for ReloadEngine {
    fn drop(&mut self) {
        let _ = std::fs::remove_file(format!("{}/vh_reload_{}.ips", self.work, std::process::id()));
    }
}

// =====================================================================================
// The unmodified event loop: `run_sender_with_config` on a paused-clock runtime, a real
// SIGHUP raised in-process, the ips file on disk.  Observable: the label list the loop's own
// housekeeping publishes through SharedStats.  Binds the inline SIGHUP arm (refuse / queue)
// and the inline housekeeping arm (take the queue, apply, sync readers) that the engine
// above replicates.  Virtual time only moves inside the "Apply" step (exactly one
// housekeeping period), so a SIGHUP and the tick that applies it never race.
// =====================================================================================

unsafe extern "C" {
    fn raise(sig: i32) -> i32;
}
const SIGHUP: i32 = 1;

pub struct ReloadLoopEngine {
    stats: srtla_send::stats::SharedStats,
    task: Option<tokio::task::JoinHandle<anyhow::Result<()>>>,
    own: tokio::signal::unix::Signal,
    receiver: std::net::UdpSocket,
    rport: u16,
    work: String,
    key: u64,
    step: u64,
    broken: bool,
    c_started: u64,
    c_sighups: u64,
    c_ticks: u64,
    c_list_changed: u64,
    c_list_same: u64,
    c_sync_failed: u64,
    c_refusable: u64,
    c_refusable_while_queued: u64,
    queued: bool,
    refused_after_queue: bool,
    c_refusal_then_tick: u64,
    rt: tokio::runtime::Runtime,
}

impl ReloadLoopEngine {
    pub fn new() -> Self {
        let rt = tokio::runtime::Builder::new_current_thread().enable_all().start_paused(true).build().expect("runtime");
        // our own listener first: from here on a SIGHUP can never take the default action (terminate)
        let own = rt.block_on(async {
            tokio::signal::unix::signal(tokio::signal::unix::SignalKind::hangup()).expect("SIGHUP listener")
        });
        let receiver = std::net::UdpSocket::bind("127.0.0.1:0").expect("receiver socket");
        receiver.set_nonblocking(true).unwrap();
        let rport = receiver.local_addr().unwrap().port();
        Self {
            stats: srtla_send::stats::SharedStats::new(), task: None, own, receiver, rport,
            work: std::env::temp_dir().to_string_lossy().to_string(), key: 0, step: 0, broken: false,
            c_started: 0, c_sighups: 0, c_ticks: 0, c_list_changed: 0, c_list_same: 0, c_sync_failed: 0, c_refusable: 0, c_refusable_while_queued: 0, queued: false, refused_after_queue: false, c_refusal_then_tick: 0, rt,
        }
    }

    fn path(&self) -> String {
        format!("{}/vh_reloadloop_{}.ips", self.work, std::process::id())
    }

    fn stop(&mut self) {
        if let Some(t) = self.task.take() {
            t.abort();
            let _ = self.rt.block_on(t);
        }
        let mut buf = [0u8; 2048];
        while self.receiver.recv_from(&mut buf).is_ok() {}
    }

    fn labels(&self) -> Vec<String> {
        let prefix = format!("{HOST}:{} via ", self.rport);
        self.stats.get().links.iter()
            .map(|l| match l.label.strip_prefix(&prefix).and_then(|s| s.parse::<IpAddr>().ok()) {
                Some(ip) if ip == l.ip => tok_of(&ip),
                _ => format!("?{}", l.label),
            })
            .collect()
    }

    fn tick(&mut self) {
        self.rt.block_on(async { tokio::time::sleep(std::time::Duration::from_millis(1000)).await });
        self.c_ticks += 1;
    }
}

impl Drop for ReloadLoopEngine {
    fn drop(&mut self) {
        self.stop();
        let _ = std::fs::remove_file(self.path());
    }
}

impl Engine for ReloadLoopEngine {
    fn configure(&mut self, args: &[String]) {
        if let Some(i) = args.iter().position(|a| a == "--work") {
            if let Some(d) = args.get(i + 1) {
                self.work = d.clone();
            }
        }
    }

    fn reset(&mut self, _cfg: &Value, case_key: u64) {
        self.stop();
        self.key = case_key;
        self.step = 0;
        self.broken = false;
        self.queued = false;
        self.refused_after_queue = false;
    }

    fn apply(&mut self, ev: &Value) -> Value {
        self.step += 1;
        if self.broken {
            return json!({"skipped": true});
        }
        match gets(ev, "ev") {
            "Start" => {
                let text: String = ev["list"].as_array().unwrap().iter()
                    .map(|t| format!("{}\n", spell(t.as_str().unwrap(), 0))).collect();
                std::fs::write(self.path(), text).expect("write ips file");
                // a free local SRT port
                let port = std::net::UdpSocket::bind("[::]:0").and_then(|s| s.local_addr()).map(|a| a.port());
                let Ok(port) = port else {
                    self.broken = true;
                    self.c_sync_failed += 1;
                    return json!({"skipped": true});
                };
                self.stats = srtla_send::stats::SharedStats::new();
                let (stats, path, rport) = (self.stats.clone(), self.path(), self.rport);
                let binder: Arc<dyn UplinkBinder> = Arc::new(SourceIpBinder);
                self.task = Some(self.rt.spawn(async move {
                    srtla_send::sender::run_sender_with_config(
                        port, HOST, rport, &path, srtla_send::DynamicConfig::new(), stats, CriticalWindow::new(),
                        srtla_send::subscriptions::SubscriptionHub::new(), binder,
                    )
                    .await
                }));
                // first housekeeping tick at +1000 ms; every later step starts 500 ms after a tick
                self.rt.block_on(async { tokio::time::sleep(std::time::Duration::from_millis(1500)).await });
                if self.task.as_ref().is_some_and(|t| t.is_finished()) || self.stats.get().links.is_empty() {
                    if std::env::var("VH_DEBUG").is_ok() {
                        let fin = self.task.as_ref().is_some_and(|t| t.is_finished());
                        let res = if fin { Some(self.rt.block_on(self.task.take().unwrap())) } else { None };
                        eprintln!("loop start failed: finished={fin} links={} res={res:?}", self.stats.get().links.len());
                    }
                    self.broken = true;
                    self.c_sync_failed += 1;
                    return json!({"skipped": true});
                }
                self.c_started += 1;
            }
            "Sighup" => {
                match render(&ev["file"], mix(self.key ^ self.step)) {
                    Some(t) => std::fs::write(self.path(), t).expect("write ips file"),
                    None => {
                        let _ = std::fs::remove_file(self.path());
                    }
                }
                let own = &mut self.own;
                // raise() runs the process-wide handler before it returns; yielding (never parking, so the
                // paused clock cannot move) lets the signal driver wake the loop's listener and ours
                let seen = self.rt.block_on(async {
                    unsafe {
                        raise(SIGHUP);
                    }
                    let mut seen = false;
                    for _ in 0..20_000 {
                        tokio::select! {
                            biased;
                            _ = own.recv() => { seen = true; }
                            _ = std::future::ready(()) => {}
                        }
                        if seen {
                            break;
                        }
                        tokio::task::yield_now().await;
                    }
                    for _ in 0..256 {
                        tokio::task::yield_now().await;
                    }
                    seen
                });
                if !seen {
                    self.broken = true;
                    self.c_sync_failed += 1;
                    return json!({"skipped": true});
                }
                self.c_sighups += 1;
                let no_ip = !ev["file"]["lines"].as_array().is_some_and(|a| a.iter().any(|l| l["k"] == "ip"));
                if no_ip {
                    self.c_refusable += 1;
                    if self.queued {
                        self.c_refusable_while_queued += 1;
                        self.refused_after_queue = true;
                    } else {
                        // nothing is queued: whatever the refusal did shows after the next housekeeping periods
                        // (the model's state does not change over them)
                        self.tick();
                        self.tick();
                        self.c_refusal_then_tick += 1;
                    }
                } else {
                    self.queued = true;
                    self.refused_after_queue = false;
                }
            }
            "Apply" => {
                // the housekeeping arm publishes its stats before it applies the queued list: the tick that
                // applies is followed by the tick that shows the result
                let before = self.labels();
                self.tick();
                self.tick();
                if self.labels() != before { self.c_list_changed += 1 } else { self.c_list_same += 1 }
                let o = json!({"labels": self.labels(), "pre_labels": before, "refused_after_queue": self.refused_after_queue,
                               "loop_ended": self.task.as_ref().is_some_and(|t| t.is_finished())});
                self.queued = false;
                self.refused_after_queue = false;
                return o;
            }
            // routing / state mutation are not driven through the loop here
            _ => {}
        }
        if self.task.as_ref().is_some_and(|t| t.is_finished()) {
            // the loop ended (returned or panicked): that strands the stream
            return json!({"labels": [], "loop_ended": true});
        }
        json!({"labels": self.labels()})
    }

    fn judge(&self, _ev: &Value, exp: &Value, got: &Value) -> u8 {
        if got.get("skipped").is_some() {
            return 0;
        }
        if got["labels"] == exp["labels"] && got["loop_ended"] != json!(true) {
            return 0;
        }
        if got["loop_ended"] == json!(true) {
            return 2;
        }
        // a refused SIGHUP that also drops a list queued by an earlier SIGHUP touches no uplink: the statement
        // does not say the earlier list must survive it
        if got["refused_after_queue"] == json!(true) && got["labels"] == got["pre_labels"] {
            return 1;
        }
        // the statement fixes the set of uplinks (each listed address once, survivors kept), not their order
        let (mut a, mut b) = (strs(&got["labels"]), strs(&exp["labels"]));
        a.sort();
        b.sort();
        if a == b { 1 } else { 2 }
    }

    fn counters(&self) -> Value {
        json!({
            "loops_started": self.c_started, "sighups_raised": self.c_sighups, "housekeeping_periods": self.c_ticks,
            "reload_changed_the_list": self.c_list_changed, "reload_left_the_list": self.c_list_same,
            "sync_failed": self.c_sync_failed, "sighups_on_unusable_files": self.c_refusable,
            "unusable_file_after_an_earlier_sighup": self.c_refusable_while_queued,
            "refusal_followed_over_housekeeping": self.c_refusal_then_tick,
        })
    }
}
