//! C17 engine: the real `WeakLinkFilter::classify` tick by tick over real
//! connections (rate via the bitrate tracker, delay signal via a smoothed RTT
//! far above / below every delay tier, connectivity, links leaving the set).

use rand::Rng;
use rand::rngs::StdRng;
use serde_json::{Value, json};
use srtla_core::connection::{RttTracker, SrtlaConnection};
use srtla_core::selection::classifier::{WeakLinkFilter, WeakReason};

use crate::engine::Engine;
use crate::util::{T0, getb, geti, gets, live_conn, mix};

pub struct WeakFilterEngine {
    filter: WeakLinkFilter,
    key: u64,
    tick: u64,
    n: usize,
    unit: f64,
    // generator memory
    g_rate: Vec<i64>,
    // counters
    c_delay_weak: u64,
    c_lowshare: u64,
    c_notraffic: u64,
    c_bypass: u64,
    c_probation: u64,
    c_disc_present: u64,
    c_absent: u64,
}

impl WeakFilterEngine {
    pub fn new() -> Self {
        Self {
            filter: WeakLinkFilter::new(), key: 0, tick: 0, n: 2, unit: 1000.0, g_rate: vec![],
            c_delay_weak: 0, c_lowshare: 0, c_notraffic: 0, c_bypass: 0, c_probation: 0,
            c_disc_present: 0, c_absent: 0,
        }
    }
}

impl Engine for WeakFilterEngine {
    fn reset(&mut self, cfg: &Value, case_key: u64) {
        self.filter = WeakLinkFilter::new();
        self.key = case_key;
        self.tick = 0;
        self.n = cfg.get("links").and_then(Value::as_u64).unwrap_or(2) as usize;
        // model rate unit: kbit/s (replay) or bit/s (recorded)
        self.unit = cfg.get("unit").and_then(Value::as_f64).unwrap_or(1000.0);
        self.g_rate = vec![0; self.n];
    }

    fn apply(&mut self, ev: &Value) -> Value {
        if gets(ev, "ev") == "Init" {
            return json!({});
        }
        self.tick += 1;
        let inp = ev["inp"].as_array().unwrap();
        let now = T0 + self.tick * 1000;
        let mut conns: Vec<SrtlaConnection> = Vec::new();
        let mut present: Vec<bool> = Vec::new();
        for (i, k) in inp.iter().enumerate() {
            let conn = getb(k, "conn");
            // a disconnected link either stays in the set or has left it
            let absent = !conn && mix(self.key ^ (self.tick << 8) ^ i as u64) % 2 == 0;
            present.push(!absent);
            if absent {
                self.c_absent += 1;
                continue;
            }
            if !conn {
                self.c_disc_present += 1;
            }
            let mut c = live_conn(i, now);
            c.conn_id = 0x3000 + i as u64;
            c.connected = conn;
            c.bitrate.current_bitrate_bps = geti(k, "rate") as f64 * self.unit;
            c.rtt = RttTracker::default();
            c.rtt.update_estimate(if getb(k, "delay") { 5000 } else { 50 }, now);
            conns.push(c);
        }
        let res = self.filter.classify(&conns);
        let mut v: Vec<Value> = Vec::new();
        for (i, _) in inp.iter().enumerate() {
            if !present[i] {
                v.push(json!({"weak": false, "reason": "Healthy", "share": 0, "thr": 0}));
                continue;
            }
            let e = res.per_link.iter().find(|e| e.conn_id == 0x3000 + i as u64).expect("verdict for every link");
            let reason = match e.reason {
                WeakReason::Healthy => "Healthy",
                WeakReason::HighRtt | WeakReason::QueueBuilding => "Delay",
                WeakReason::NoTraffic => "NoTraffic",
                WeakReason::LowShare => "LowShare",
                WeakReason::Bypassed => "Bypassed",
            };
            match (e.weak, reason) {
                (true, "Delay") => self.c_delay_weak += 1,
                (true, "LowShare") => self.c_lowshare += 1,
                (true, "NoTraffic") => self.c_notraffic += 1,
                (_, "Bypassed") => self.c_bypass += 1,
                _ => {}
            }
            let (_, _, _, prob) = self.filter.verif_view(0x3000 + i as u64);
            if prob > 0 {
                self.c_probation += 1;
            }
            // a bypassed verdict on an absent link is reported like the model does
            v.push(json!({"weak": e.weak, "reason": reason, "share": e.share_permille, "thr": e.threshold_permille}));
        }
        // under bypass the model reports Bypassed for every link, present or not
        if res.per_link.iter().any(|e| e.reason == WeakReason::Bypassed) || conns.iter().all(|c| !c.connected) {
            for (i, p) in present.iter().enumerate() {
                if !*p {
                    v[i] = json!({"weak": false, "reason": "Bypassed", "share": 0, "thr": 0});
                }
            }
        }
        json!({"v": v})
    }

    fn gen_cfg(&mut self, rng: &mut StdRng) -> Value {
        json!({"links": 4, "unit": 1.0, "active": rng.random_range(1..=4)})
    }

    fn gen_event(&mut self, rng: &mut StdRng) -> Option<Value> {
        // slowly varying per-link rates in bit/s, occasional drops / idling across the bypass floor
        let mut inp = Vec::new();
        for i in 0..self.n {
            let r = rng.random_range(0..100);
            if r < 12 || self.g_rate[i] == 0 && r < 40 {
                self.g_rate[i] = match rng.random_range(0..7) {
                    0 => 0,
                    1 => rng.random_range(1..30_000),
                    2 => rng.random_range(30_000..120_000),
                    3 => rng.random_range(100_000..400_000),
                    _ => rng.random_range(400_000..2_000_000),
                };
            }
            let conn = rng.random_range(0..12) != 0;
            let delay = rng.random_range(0..5) == 0;
            inp.push(json!({"conn": conn, "rate": if conn { self.g_rate[i] } else { 0 }, "delay": conn && delay}));
        }
        Some(json!({"ev": "Tick", "inp": inp}))
    }

    fn matches(&self, exp: &Value, got: &Value) -> bool {
        exp["v"] == got["v"]
    }

    fn counters(&self) -> Value {
        json!({
            "weak_by_delay": self.c_delay_weak, "weak_low_share": self.c_lowshare, "weak_no_traffic": self.c_notraffic,
            "bypassed_verdicts": self.c_bypass, "probation_ticks": self.c_probation,
            "disconnected_but_present": self.c_disc_present, "left_the_set": self.c_absent,
        })
    }
}
