//! ShellSim: the sender's event-loop arms called directly, in any order, under
//! a virtual clock, against a fake receiver and a fake SRT client on loopback.
//!
//! Real code executed: `create_connections_from_ips`, `start_probing`,
//! `handle_srt_packet` (client datagram arm), `handle_uplink_packet` (uplink
//! datagram arm), `flush_all_batches` (15 ms arm), `handle_housekeeping` (1 s
//! arm, incl. `reconnect_uplink` re-creating real sockets), real
//! `BatchUdpSocket`s bound to 127.0.0.(10+i).  Loopback delivery is
//! synchronous, so after each arm call both sides are drained and every
//! captured frame is attributed to that call.  No sleeps, no wall clock.
//!
//! One ndjson line per arm call: the event, its arguments, the observable
//! projection of every link after the call, the frames that left on each
//! uplink during it, the datagrams delivered to the client during it.  The
//! Trace_* specifications each validate their slice of this one format.

use std::collections::{HashMap, VecDeque};
use std::net::{IpAddr, Ipv4Addr, SocketAddr, UdpSocket as StdUdp};
use std::sync::Arc;

use rand::Rng;
use rand::rngs::StdRng;
use serde_json::{Value, json};
use smallvec::SmallVec;
use srtla_core::config_snapshot::ConfigSnapshot;
use srtla_core::connection::{LinkPhase, SrtlaConnection};
use srtla_core::mode::SchedulingMode;
use srtla_core::priority::CriticalWindow;
use srtla_core::registration::SrtlaRegistrationManager;
use srtla_protocol::*;
use srtla_send::net::{BatchUdpSocket, SourceIpBinder, UplinkBinder};
use srtla_send::sender::create_connections_from_ips;
use srtla_send::sender::verif_hooks::{
    ConnIoMap, ConnectionId, ReaderHandle, SequenceTracker, UplinkPacket, create_uplink_channel,
    drain_packet_queue, flush_all_batches, handle_housekeeping, handle_srt_packet, handle_uplink_packet, sync_readers,
};
use tokio::net::UdpSocket;
use tokio::sync::mpsc::{UnboundedReceiver, UnboundedSender};

use crate::engine::Engine;
use crate::util::{T0, dig, getb, geti, gets, mix, rt};

#[derive(Clone, Copy, PartialEq, Eq, Debug)]
enum Path {
    Up,
    BlackHole,   // nothing reaches the receiver, nothing comes back
    RepliesLost, // the receiver hears the link, its replies are lost
}

struct Reply {
    at: u64,
    link: usize,
    bytes: Vec<u8>,
}

pub struct ShellSim {
    rt: tokio::runtime::Runtime,
    receiver: StdUdp,
    rx_port: u16,
    client: StdUdp,
    client_addr: SocketAddr,
    listener: Option<UdpSocket>,
    conns: SmallVec<SrtlaConnection, 4>,
    io: ConnIoMap,
    reg: SrtlaRegistrationManager,
    tracker: SequenceTracker,
    last_sel: Option<usize>,
    last_client: Option<SocketAddr>,
    all_failed_at: Option<u64>,
    readers: HashMap<ConnectionId, ReaderHandle>,
    packet_tx: UnboundedSender<UplinkPacket>,
    packet_rx: UnboundedReceiver<UplinkPacket>,
    instant_tx: UnboundedSender<(SocketAddr, SmallVec<u8, 64>)>,
    _instant_rx: UnboundedReceiver<(SocketAddr, SmallVec<u8, 64>)>,
    snap: ConfigSnapshot,
    cw: CriticalWindow,
    binder: Arc<dyn UplinkBinder>,
    now: u64,
    n: usize,
    profile: String,
    // ---- fake receiver + network (generator side)
    path: Vec<Path>,
    rtt: Vec<u64>,
    group: Option<[u8; SRTLA_ID_LEN]>,
    registered: Vec<bool>,
    pending: VecDeque<Reply>,
    ack_buf: Vec<Vec<u32>>,
    rx_seqs: std::collections::BTreeSet<u32>,
    rx_count: u64,
    sendfail: Vec<bool>,
    /// one link may sit behind a back-pressured path: its socket is one end of a connected datagram pair whose
    /// send buffer holds ~2 MTU-sized datagrams, so a batch flush meets real short `sendmmsg` counts / EAGAIN
    bp: Option<(usize, tokio::net::UnixDatagram, usize, std::os::unix::net::UnixDatagram)>,
    bp_frames: std::cell::RefCell<Vec<Vec<u8>>>,
    // ---- client stream (generator side)
    next_seq: u32,
    sent_seqs: Vec<u32>,
    pkt_ctr: u32,
    since_flush: u64,
    since_hk: u64,
    rexmit_next: bool,
    script_phase: u8,
    script_seq: u32,
    script_link: usize,
    recent_marked: Option<usize>,
    steps_done: u64,
    steps_total: u64,
    victim_attempts: u32,
    quiet_on: bool,
    // ---- counters
    c: HashMap<&'static str, u64>,
}

fn cls_of(b: &[u8]) -> &'static str {
    match get_packet_type(b) {
        None => "short",
        Some(SRTLA_TYPE_KEEPALIVE) => "ka",
        Some(SRTLA_TYPE_ACK) => "srtla_ack",
        Some(SRTLA_TYPE_REG1) => "reg1",
        Some(SRTLA_TYPE_REG2) => "reg2",
        Some(SRTLA_TYPE_REG3) => "reg3",
        Some(SRTLA_TYPE_REG_ERR) => "reg_err",
        Some(SRTLA_TYPE_REG_NGP) => "reg_ngp",
        Some(SRT_TYPE_ACK) => "srt_ack",
        Some(SRT_TYPE_NAK) => "srt_nak",
        Some(t) if t & 0x8000 == 0 => "data",
        Some(_) => "ctrl",
    }
}

impl ShellSim {
    pub fn new() -> Self {
        let rt = rt();
        let receiver = StdUdp::bind("127.0.0.1:0").unwrap();
        receiver.set_nonblocking(true).unwrap();
        let rx_port = receiver.local_addr().unwrap().port();
        let client = StdUdp::bind("127.0.0.1:0").unwrap();
        client.set_nonblocking(true).unwrap();
        let client_addr = client.local_addr().unwrap();
        let (packet_tx, packet_rx) = create_uplink_channel();
        let (instant_tx, instant_rx) = tokio::sync::mpsc::unbounded_channel();
        // a large receive buffer on the fake receiver so bursts are never dropped before they are drained
        let _ = socket2::SockRef::from(&receiver).set_recv_buffer_size(8 << 20);
        let _ = socket2::SockRef::from(&client).set_recv_buffer_size(8 << 20);
        Self {
            rt, receiver, rx_port, client, client_addr, listener: None,
            conns: SmallVec::new(), io: HashMap::new(), reg: SrtlaRegistrationManager::new(),
            tracker: SequenceTracker::new(), last_sel: None, last_client: None, all_failed_at: None,
            readers: HashMap::new(), packet_tx, packet_rx, instant_tx, _instant_rx: instant_rx,
            snap: ConfigSnapshot::default(), cw: CriticalWindow::new(), binder: Arc::new(SourceIpBinder),
            now: T0, n: 2, profile: "mixed".into(),
            path: vec![], rtt: vec![], group: None, registered: vec![], pending: VecDeque::new(),
            ack_buf: vec![], rx_seqs: Default::default(), rx_count: 0, sendfail: vec![], bp: None, bp_frames: Default::default(),
            next_seq: 1000, sent_seqs: vec![], pkt_ctr: 0, since_flush: 0, since_hk: 0, rexmit_next: false, script_phase: 0, script_seq: 0, script_link: 0, recent_marked: None, steps_done: 0, steps_total: 4000, victim_attempts: 0, quiet_on: false,
            c: HashMap::new(),
        }
    }

    fn bump(&mut self, k: &'static str) {
        *self.c.entry(k).or_insert(0) += 1;
    }

    fn link_of_addr(&self, a: &SocketAddr) -> usize {
        match a.ip() {
            IpAddr::V4(v4) => (v4.octets()[3] as usize).saturating_sub(10),
            _ => 99,
        }
    }

    fn drain_receiver(&mut self) -> Vec<(usize, Vec<u8>)> {
        let mut out = Vec::new();
        let mut buf = [0u8; 2048];
        while let Ok((n, a)) = self.receiver.recv_from(&mut buf) {
            out.push((self.link_of_addr(&a), buf[..n].to_vec()));
        }
        out
    }

    fn drain_client(&mut self) -> Vec<Vec<u8>> {
        let mut out = Vec::new();
        let mut buf = [0u8; 2048];
        while let Ok((n, _)) = self.client.recv_from(&mut buf) {
            out.push(buf[..n].to_vec());
        }
        out
    }

    fn phase_name(c: &SrtlaConnection) -> &'static str {
        match c.phase {
            LinkPhase::Registering => "Reg",
            LinkPhase::Warming { .. } => "Warm",
            LinkPhase::Live => "Live",
            LinkPhase::Degraded => "Deg",
        }
    }

    fn rel(&self, t: u64) -> i64 {
        if t == 0 { -1 } else { t as i64 - T0 as i64 }
    }

    fn links_obs(&self) -> Vec<Value> {
        let now = self.now;
        self.conns
            .iter()
            .map(|c| {
                let v = c.verif_view();
                json!({
                    "conn": c.connected,
                    "phase": Self::phase_name(c),
                    "to": c.is_timed_out(now),
                    "win": c.window,
                    "infl": c.in_flight_packets,
                    "queued": c.batch_sender.queued_count(),
                    "gated": c.is_stall_gated(),
                    "latched": c.stall_latched(),
                    "pulled": v.silence_pulled,
                    "naks": c.congestion.nak_count,
                    "fast": c.congestion.fast_recovery_mode,
                    "proof": self.rel(c.last_ack_or_rtt_sample_ms),
                    "recv": c.last_received.map(|t| self.rel(t)).unwrap_or(-1),
                    "sent": c.last_sent.map(|t| self.rel(t)).unwrap_or(-1),
                    "ka": v.last_keepalive_sent.map(|t| self.rel(t)).unwrap_or(-1),
                    "waiting": c.rtt.waiting_for_keepalive_response,
                    "estab": self.rel(c.reconnection.connection_established_ms),
                    "attempt": self.rel(c.reconnection.last_reconnect_attempt_ms),
                    "fails": c.reconnection.reconnect_failure_count,
                    "grace": self.rel(c.reconnection.startup_grace_deadline_ms),
                    "srtt_us": (c.get_smooth_rtt_ms() * 1000.0) as i64,
                    "srtt_ok": c.rtt.kalman_rtt.value().is_finite() && c.get_smooth_rtt_ms() >= 0.0,
                    "rate": (c.bitrate.current_bitrate_bps / 8.0) as u32,
                    "regime": c.batch_sender.regime().as_str(),
                    "hwm": if c.highest_acked_seq == i32::MIN { -1 } else { c.highest_acked_seq as i64 },
                    "weak": c.weak, "lossdeg": c.loss_degraded,
                    "cto": v.conn_timeout_ms,
                })
            })
            .collect()
    }

    fn frame_obs(&self, link: usize, b: &[u8]) -> Value {
        let cls = cls_of(b);
        let mut o = json!({"l": link as i64 + 1, "cls": cls, "len": b.len(), "dig": dig(b)});
        match cls {
            "data" => {
                o["seq"] = json!(get_srt_sequence_number(b).map(|s| s as i64).unwrap_or(-1));
            }
            "ka" => {
                o["ts"] = json!(extract_keepalive_timestamp(b).map(|t| t as i64 - T0 as i64).unwrap_or(-1));
                if let Some(i) = extract_keepalive_conn_info(b) {
                    o["kw"] = json!(i.window);
                    o["ki"] = json!(i.in_flight);
                    o["kn"] = json!(i.nak_count);
                    o["kr"] = json!(i.bitrate_bytes_per_sec);
                    o["ext"] = json!(true);
                } else {
                    o["ext"] = json!(false);
                }
                o["std10"] = json!(b.len() >= 10 && b[0] == 0x90 && b[1] == 0x00);
            }
            "reg1" | "reg2" => {
                o["idok"] = json!(b.len() == 258 && b[2..] == self.reg.srtla_id[..]);
                o["probe"] = json!(b.len() == 258 && b[2..] == self.reg.verif_probe_id()[..]);
            }
            _ => {}
        }
        o
    }

    /// The fake receiver hears a frame that left on `link`.
    fn receiver_hears(&mut self, link: usize, b: &[u8]) {
        if link >= self.n || self.path[link] == Path::BlackHole {
            return;
        }
        let at = self.now + self.rtt[link];
        let mut replies: Vec<Vec<u8>> = Vec::new();
        match cls_of(b) {
            "reg1" if b.len() == 258 => {
                let mut g = [0u8; SRTLA_ID_LEN];
                g.copy_from_slice(&b[2..]);
                for (i, x) in g.iter_mut().enumerate().skip(128) {
                    *x = (mix(self.rx_count ^ i as u64) & 0xff) as u8;
                }
                self.group = Some(g);
                self.registered = vec![false; self.n];
                replies.push(create_reg2_packet(&g).to_vec());
            }
            "reg2" if b.len() == 258 => {
                if self.group.is_some_and(|g| g[..] == b[2..]) {
                    self.registered[link] = true;
                    replies.push(SRTLA_TYPE_REG3.to_be_bytes().to_vec());
                } else if mix(self.now ^ link as u64) % 5 == 0 {
                    replies.push(SRTLA_TYPE_REG_ERR.to_be_bytes().to_vec());
                } else {
                    replies.push(SRTLA_TYPE_REG_NGP.to_be_bytes().to_vec());
                }
            }
            "ka" => {
                if self.registered[link] {
                    replies.push(b.to_vec());
                } else if self.group.is_none() {
                    replies.push(SRTLA_TYPE_REG_NGP.to_be_bytes().to_vec());
                }
            }
            "data" if self.registered[link] => {
                if let Some(s) = get_srt_sequence_number(b) {
                    self.rx_count += 1;
                    self.rx_seqs.insert(s);
                    self.ack_buf[link].push(s);
                    if self.ack_buf[link].len() >= 10 {
                        let l: Vec<u32> = self.ack_buf[link].drain(..).collect();
                        replies.push(create_ack_packet(&l).to_vec());
                    }
                    if self.rx_count % 24 == 0 {
                        // cumulative SRT ACK up to the highest number seen, and now and then a NAK
                        let top = *self.rx_seqs.iter().next_back().unwrap();
                        let mut p = vec![0u8; 44];
                        p[0..2].copy_from_slice(&SRT_TYPE_ACK.to_be_bytes());
                        p[16..20].copy_from_slice(&top.to_be_bytes());
                        replies.push(p);
                        let keep: Vec<u32> = self.rx_seqs.iter().rev().take(200).copied().collect();
                        self.rx_seqs = keep.into_iter().collect();
                    }
                }
            }
            _ => {}
        }
        if self.path[link] == Path::Up {
            for r in replies {
                self.pending.push_back(Reply { at, link, bytes: r });
            }
        }
    }

    fn block<F: std::future::Future>(&self, f: F) -> F::Output {
        self.rt.block_on(f)
    }

    /// what the far end of the back-pressured link has received so far (in order)
    fn bp_take(&self) -> Vec<Vec<u8>> {
        if let Some((_, _, _, rx)) = &self.bp {
            // the plain non-blocking handle: tokio's cached readiness is only refreshed while the runtime runs
            let mut buf = [0u8; 2048];
            while let Ok(n) = rx.recv(&mut buf) {
                self.bp_frames.borrow_mut().push(buf[..n].to_vec());
            }
        }
        std::mem::take(&mut *self.bp_frames.borrow_mut())
    }

    fn build(&mut self, cfg: &Value) {
        self.n = cfg.get("links").and_then(Value::as_u64).unwrap_or(2) as usize;
        self.profile = cfg.get("profile").and_then(Value::as_str).unwrap_or("mixed").to_string();
        self.now = T0;
        srtla_core::verif::set_clock(Some(self.now));
        self.snap = ConfigSnapshot {
            mode: if cfg.get("classic").and_then(Value::as_bool).unwrap_or(false) { SchedulingMode::Classic } else { SchedulingMode::Enhanced },
            quality_enabled: cfg.get("quality").and_then(Value::as_bool).unwrap_or(true),
            stall_deselect: cfg.get("guard").and_then(Value::as_bool).unwrap_or(true),
            stall_min_in_flight: 32,
            stall_ack_stale_ms: 3000,
            conn_timeout_ms: cfg.get("timeout").and_then(Value::as_u64).unwrap_or(5000),
        };
        self.cw = CriticalWindow::new();
        // drop the previous run's sockets / readers
        for (_, r) in self.readers.drain() {
            r.handle.abort();
        }
        self.io.clear();
        self.conns.clear();
        let ips: Vec<IpAddr> = (0..self.n).map(|i| IpAddr::V4(Ipv4Addr::new(127, 0, 0, 10 + i as u8))).collect();
        let port = self.rx_port;
        let binder = self.binder.clone();
        let mut io: ConnIoMap = HashMap::new();
        let conns = self.block(async { create_connections_from_ips(&ips, "127.0.0.1", port, &binder, &mut io).await });
        assert_eq!(conns.len(), self.n, "loopback uplinks");
        self.conns = conns;
        self.io = io;
        if self.listener.is_none() {
            self.listener = Some(self.block(async { UdpSocket::bind("127.0.0.1:0").await.unwrap() }));
        }
        self.reg = SrtlaRegistrationManager::new();
        self.tracker = SequenceTracker::new();
        self.last_sel = None;
        self.last_client = None;
        self.all_failed_at = None;
        {
            let Self { rt, conns, io, readers, packet_tx, .. } = self;
            let _g = rt.enter();
            sync_readers(conns, io, readers, packet_tx);
        }
        self.path = vec![Path::Up; self.n];
        self.rtt = (0..self.n).map(|i| 20 + 35 * i as u64).collect();
        self.group = None;
        self.registered = vec![false; self.n];
        self.pending.clear();
        self.ack_buf = vec![Vec::new(); self.n];
        self.rx_seqs.clear();
        self.rx_count = 0;
        self.sendfail = vec![false; self.n];
        self.next_seq = 1000 + (mix(cfg.get("seed").and_then(Value::as_u64).unwrap_or(0)) % 1_000_000) as u32;
        self.sent_seqs.clear();
        self.since_flush = 0;
        self.since_hk = 0;
        self.recent_marked = None;
        self.bp = None;
        self.bp_frames.borrow_mut().clear();
        self.steps_done = 0;
        self.victim_attempts = 0;
        self.quiet_on = false;
        self.steps_total = cfg.get("steps").and_then(Value::as_u64).unwrap_or(4000);
        let _ = self.drain_receiver();
        let _ = self.drain_client();
        // a run that ended on a burst leaves datagrams in the uplink channel: they belong to no run
        while self.packet_rx.try_recv().is_ok() {}
    }

    /// after an arm call: capture both sides, feed the fake receiver, build the trace line
    fn finish(&mut self, mut line: Value) -> Value {
        let mut frames = self.drain_receiver();
        if let Some((l, _, id, _)) = &self.bp {
            let (l, id) = (*l, *id);
            let got = self.bp_take();
            if got.len() >= 3 { self.bump("backpressured_flush_of_3_or_more"); }
            frames.extend(got.into_iter().map(|b| (l, b)));
            let cur = self.io.get(&self.conns[l].conn_id).map(|io| Arc::as_ptr(&io.socket) as usize);
            if cur != Some(id) {
                self.bp = None; // reconnected onto a fresh UDP socket
            }
        }
        let deliveries = self.drain_client();
        for _ in 0..deliveries.len() { self.bump("client_deliveries"); }
        for (_, b) in &frames {
            self.bump(match cls_of(b) { "ka" => "wire_keepalive", "reg1" => "wire_reg1", "reg2" => "wire_reg2", "data" => "wire_data", _ => "wire_other" });
        }
        let mut wire = Vec::new();
        for (l, b) in &frames {
            wire.push(self.frame_obs(*l, b));
        }
        for (l, b) in frames {
            self.receiver_hears(l, &b);
        }
        line["t"] = json!((self.now - T0) as i64);
        line["links"] = json!(self.links_obs());
        line["wire"] = json!(wire);
        line["client"] = json!(deliveries.iter().map(|b| json!({"len": b.len(), "dig": dig(b)})).collect::<Vec<_>>());
        line["lastsel"] = json!(self.last_sel.map(|i| i as i64 + 1).unwrap_or(0));
        line["hasconn"] = json!(self.reg.has_connected);
        line["known"] = json!(self.last_client.is_some());
        line["pend"] = json!(self.reg.pending_reg2_idx().map(|i| i as i64 + 1).unwrap_or(0));
        line
    }
}

/// Drive `f` to completion; whenever it is pending (a send waiting for buffer space) read what the far end of
/// the back-pressured pair holds, which is what frees that space -- the network draining the link.
async fn with_drain<F: std::future::Future>(
    f: F,
    bp: &Option<(usize, tokio::net::UnixDatagram, usize, std::os::unix::net::UnixDatagram)>,
    sink: &std::cell::RefCell<Vec<Vec<u8>>>,
) -> F::Output {
    let Some((_, rx, _, _)) = bp else { return f.await };
    tokio::pin!(f);
    let mut buf = [0u8; 2048];
    loop {
        tokio::select! {
            biased;
            out = &mut f => return out,
            r = rx.readable() => {
                if r.is_ok() {
                    while let Ok(n) = rx.try_recv(&mut buf) {
                        sink.borrow_mut().push(buf[..n].to_vec());
                    }
                }
            }
        }
    }
}

impl ShellSim {
    /// A scripted history inside the random ones (mixed / fault schedules): a number is retransmitted (so that two
    /// uplinks may hold it and the tracker names the second), the uplink that carried the retransmission then has
    /// its socket refuse every send and is marked for recovery by the next flush, and a loss report for the number
    /// arrives on another uplink.  The remembered carrier is down but still listed: nobody else may be charged.
    fn script_step(&mut self, rng: &mut StdRng) -> Option<Value> {
        let ph = self.script_phase;
        if ph == 0 {
            return None;
        }
        self.script_phase += 1;
        match ph {
            1 => Some(json!({"ev": "ClientPkt", "kind": "rexmit", "seq": self.script_seq, "len": 1332, "crit": false})),
            2 | 10 => Some(json!({"ev": "FlushTick"})),
            3 => match self.last_sel.filter(|l| self.conns.get(*l).is_some_and(|c| c.connected) && !self.sendfail[*l]) {
                Some(l) => {
                    self.script_link = l;
                    Some(json!({"ev": "SendFail", "l": l + 1}))
                }
                None => {
                    self.script_phase = 0;
                    None
                }
            },
            4..=9 => {
                let s = self.next_seq;
                self.next_seq += 1;
                self.sent_seqs.push(s);
                Some(json!({"ev": "ClientPkt", "kind": "data", "seq": s, "len": 1332, "crit": false}))
            }
            _ => {
                self.script_phase = 0;
                let other = (0..self.n).filter(|l| *l != self.script_link && self.conns[*l].connected).collect::<Vec<_>>();
                if other.is_empty() {
                    return None;
                }
                let via = other[rng.random_range(0..other.len())];
                let mut b = vec![0u8; 20];
                b[0..2].copy_from_slice(&SRT_TYPE_NAK.to_be_bytes());
                for i in (4..20).step_by(4) {
                    b[i..i + 4].copy_from_slice(&self.script_seq.to_be_bytes());
                }
                self.bump("loss_report_for_a_number_whose_carrier_went_down");
                Some(json!({"ev": "UplinkPkt", "l": via + 1, "bytes": b, "stray": true}))
            }
        }
    }

}

impl Engine for ShellSim {
    fn reset(&mut self, cfg: &Value, _case_key: u64) {
        self.build(cfg);
    }

    fn apply(&mut self, ev: &Value) -> Value {
        srtla_core::verif::set_clock(Some(self.now));
        let name = gets(ev, "ev").to_string();
        let mut line = json!({});
        // (connected, grace deadline) before the call: mark_for_recovery shows as grace -> 0
        let before: Vec<(bool, u64, bool)> = self.conns.iter()
            .map(|c| (c.connected, c.reconnection.startup_grace_deadline_ms, c.last_received.is_some())).collect();
        match name.as_str() {
            "Init" => {
                // run_sender_with_config: start_probing, then an initial housekeeping pass
                let now = self.now;
                let probes = self.reg.start_probing(&mut self.conns, now);
                for (idx, pkt) in probes {
                    if let Some(io) = self.io.get(&self.conns[idx].conn_id) {
                        let s = io.socket.clone();
                        let _ = self.block(async { s.send(&pkt).await });
                    }
                }
                line["mode"] = json!(if self.snap.mode.is_classic() { "classic" } else { "enhanced" });
                line["guard"] = json!(self.snap.stall_deselect);
                line["quality"] = json!(self.snap.quality_enabled);
                line["timeout"] = json!(self.snap.conn_timeout_ms);
                line["n"] = json!(self.n);
            }
            "Advance" => {
                self.now += geti(ev, "d") as u64;
                srtla_core::verif::set_clock(Some(self.now));
            }
            "ClientPkt" => {
                let kind = gets(ev, "kind");
                let len = geti(ev, "len") as usize;
                self.pkt_ctr += 1;
                let mut pkt = vec![(self.pkt_ctr & 0xff) as u8; len.max(1)];
                if len >= 4 {
                    match kind {
                        "ctrl" => {
                            pkt[0] = 0x80;
                            pkt[1] = [0x00, 0x01, 0x02, 0x03, 0x05][(self.pkt_ctr % 5) as usize];
                        }
                        _ => {
                            let seq = geti(ev, "seq") as u32;
                            pkt[0..4].copy_from_slice(&(seq & 0x7fff_ffff).to_be_bytes());
                        }
                    }
                }
                if len >= 8 {
                    pkt[4] = if kind == "rexmit" { 0x04 } else { 0x00 };
                }
                if len >= 20 {
                    pkt[16..20].copy_from_slice(&self.pkt_ctr.to_be_bytes());
                } else if len >= 1 && len < 4 {
                    pkt[0] = (self.pkt_ctr & 0x7f) as u8;
                }
                if getb(ev, "crit") {
                    self.cw.extend_to(self.now + 40);
                }
                let n = pkt.len();
                line["dig"] = json!(dig(&pkt));
                line["isdata"] = json!(get_srt_sequence_number(&pkt).is_some());
                line["pseq"] = json!(get_srt_sequence_number(&pkt).map(|x| x as i64).unwrap_or(-1));
                line["rex"] = json!(is_srt_data_retransmit(&pkt));
                line["critopen"] = json!(self.cw.is_critical_now(self.now));
                let q0: Vec<i32> = self.conns.iter().map(|c| c.batch_sender.queued_count()).collect();
                let registration_complete = self.reg.has_connected;
                let src = self.client_addr;
                {
                    let Self { rt, conns, io, last_sel, tracker, last_client, snap, cw, bp, bp_frames, .. } = self;
                    rt.block_on(with_drain(async {
                        handle_srt_packet(Ok((n, src)), &mut pkt, conns, io, last_sel, tracker, last_client,
                                          registration_complete, snap, cw).await;
                    }, bp, bp_frames));
                }
                line["regdone"] = json!(registration_complete);
                line["q0"] = json!(q0);
            }
            "FlushTick" => {
                let Self { rt, conns, io, bp, bp_frames, .. } = self;
                rt.block_on(with_drain(async { flush_all_batches(conns, io).await }, bp, bp_frames));
            }
            "Housekeeping" => {
                self.bump("housekeeping");
                let classic = self.snap.mode.is_classic();
                let now = self.now;
                let pre: Vec<(bool, bool, bool)> = self.conns.iter()
                    .map(|c| (c.is_timed_out(now), c.should_attempt_reconnect(now), c.connected)).collect();
                let socks0: Vec<Option<usize>> = self.conns.iter()
                    .map(|c| self.io.get(&c.conn_id).map(|io| std::sync::Arc::as_ptr(&io.socket) as usize)).collect();
                let r = {
                    let Self { rt, conns, io, reg, all_failed_at, readers, packet_tx, bp, bp_frames, .. } = self;
                    rt.block_on(with_drain(async {
                        handle_housekeeping(conns, io, reg, classic, now, all_failed_at, readers, packet_tx).await
                    }, bp, bp_frames))
                };
                line["fatal"] = json!(r.is_err());
                line["pre"] = json!(pre.iter().map(|(t, a, c)| json!({"to": t, "due": a, "conn": c})).collect::<Vec<_>>());
                for (i, (t, a, _)) in pre.iter().enumerate() {
                    if *t && *a {
                        self.bump("reconnect_attempts");
                        if i + 1 == self.n && self.n >= 2 {
                            // adversarial repair: everything is repaired right after the victim's 4th retry,
                            // i.e. as far as possible from its next one
                            self.victim_attempts += 1;
                            if self.victim_attempts >= 4 && self.profile == "repair" {
                                self.quiet_on = true;
                            }
                        }
                    }
                }
                // a reconnect re-created the socket (new source port): a sticky send-failure injection ends with
                // it.  Decided by the socket itself -- a due, timed-out link is NOT reconnected when the same pass
                // first renews its grace period (selected by the probe).
                for i in 0..self.n {
                    let now_sock = self.io.get(&self.conns[i].conn_id).map(|io| std::sync::Arc::as_ptr(&io.socket) as usize);
                    if now_sock != socks0[i] {
                        self.sendfail[i] = false;
                        self.registered[i] = false;
                    }
                }
            }
            "UplinkPkt" => {
                let l = geti(ev, "l") as usize - 1;
                let bytes: Vec<u8> = ev["bytes"].as_array().unwrap().iter().map(|b| b.as_u64().unwrap() as u8).collect();
                line["cls"] = json!(cls_of(&bytes));
                self.bump(match cls_of(&bytes) {
                    "short" => "uplink_short", "ka" => "uplink_keepalive", "srtla_ack" => "uplink_srtla_ack",
                    "reg1" => "uplink_reg1", "reg2" => "uplink_reg2", "reg3" => "uplink_reg3", "reg_err" => "uplink_reg_err",
                    "reg_ngp" => "uplink_reg_ngp", "srt_ack" => "uplink_srt_ack", "srt_nak" => "uplink_srt_nak",
                    "data" => "uplink_data", _ => "uplink_other_ctrl",
                });
                if self.last_client.is_none() { self.bump("uplink_before_client_known"); }
                line["len"] = json!(bytes.len());
                line["dig"] = json!(dig(&bytes));
                line["head"] = json!(bytes.iter().take(20).map(|b| *b as i64).collect::<Vec<_>>());
                // parsed number lists of ACK / NAK datagrams (the real parsers; the codec check owns them)
                // (numbers >= 2^31 can name no data packet -- the code casts them to negative i32 -- and are logged as -1)
                let m = |x: u32| -> i64 { if x >= 0x8000_0000 { -1 } else { x as i64 } };
                match cls_of(&bytes) {
                    "srt_nak" => line["nums"] = json!(parse_srt_nak(&bytes).iter().map(|x| m(*x)).collect::<Vec<_>>()),
                    "srtla_ack" => line["nums"] = json!(parse_srtla_ack(&bytes).iter().map(|x| m(*x)).collect::<Vec<_>>()),
                    "srt_ack" => line["nums"] = json!(parse_srt_ack(&bytes).map(|x| vec![m(x)]).unwrap_or_default()),
                    _ => line["nums"] = json!(Vec::<i64>::new()),
                }
                let pre_wait = self.conns[l].rtt.waiting_for_keepalive_response;
                line["waiting0"] = json!(pre_wait);
                // keepalive echo: now - timestamp, clamped into 32 bits (0 / negative = not in the past)
                if bytes.len() >= 10 {
                    let mut ts: u64 = 0;
                    for b in &bytes[2..10] {
                        ts = (ts << 8) | *b as u64;
                    }
                    let rel = self.now as i128 - ts as i128;
                    line["karel"] = json!(rel.clamp(-1_000_000_000, 1_000_000_000) as i64);
                } else {
                    line["karel"] = json!(-1_000_000_000i64);
                }
                let conn_id = self.conns[l].conn_id;
                let packet = UplinkPacket { conn_id, bytes: SmallVec::from_slice_copy(&bytes) };
                let Self { rt, conns, io, reg, instant_tx, last_client, listener, tracker, snap, .. } = self;
                let lc = *last_client;
                let lst = listener.as_ref().unwrap();
                rt.block_on(async {
                    handle_uplink_packet(packet, conns, io, reg, instant_tx, lc, lst, tracker, snap).await;
                });
            }
            "Burst" => {
                // k receiver datagrams (SRT control, relayed to the client) land in the uplink channel at once
                let l = geti(ev, "l") as usize - 1;
                let k = geti(ev, "k") as usize;
                let conn_id = self.conns[l].conn_id;
                let mut digs = Vec::new();
                for j in 0..k {
                    self.pkt_ctr += 1;
                    let mut b = vec![0u8; 32 + (j % 7)];
                    b[0] = 0x80;
                    b[1] = 0x06;
                    b[8..12].copy_from_slice(&self.pkt_ctr.to_be_bytes());
                    digs.push(dig(&b));
                    let _ = self.packet_tx.send(UplinkPacket { conn_id, bytes: SmallVec::from_slice_copy(&b) });
                }
                line["pushed"] = json!(digs);
            }
            "Drain" => {
                // one drain_packet_queue call, as the event loop makes after every arm
                let Self { rt, conns, io, reg, instant_tx, last_client, listener, tracker, snap, packet_rx, .. } = self;
                let lc = *last_client;
                let lst = listener.as_ref().unwrap();
                rt.block_on(async {
                    drain_packet_queue(packet_rx, conns, io, reg, instant_tx, lc, lst, tracker, snap).await;
                });
                line["left"] = json!(self.packet_rx.len());
            }
            "ReplyLost" => {}
            "SetPath" => {
                let l = geti(ev, "l") as usize - 1;
                self.path[l] = match gets(ev, "p") {
                    "up" => Path::Up,
                    "hole" => Path::BlackHole,
                    _ => Path::RepliesLost,
                };
                if self.path[l] != Path::Up {
                    self.pending.retain(|r| r.link != l);
                }
            }
            "Amnesia" => {
                self.group = None;
                self.registered = vec![false; self.n];
            }
            "SendFail" => {
                self.bump("send_failures_injected");
                // shut the write side of the link's real socket down: every send on it fails with EPIPE,
                // deterministically, until the reconnect path replaces the socket
                let l = geti(ev, "l") as usize - 1;
                let conn_id = self.conns[l].conn_id;
                if let Some(io) = self.io.get(&conn_id) {
                    let _ = io.socket.get_ref().shutdown(std::net::Shutdown::Write);
                }
                self.sendfail[l] = true;
            }
            "Backpressure" => {
                // put link l behind a path that takes ~2 datagrams at a time: from now on its socket is one end of
                // a connected datagram pair with a 4 KiB send buffer, wrapped in the real BatchUdpSocket
                let l = geti(ev, "l") as usize - 1;
                let conn_id = self.conns[l].conn_id;
                if self.bp.is_none() && self.io.contains_key(&conn_id) {
                    let made = self.block(async {
                        let (tx, rx) = std::os::unix::net::UnixDatagram::pair()?;
                        tx.set_nonblocking(true)?;
                        rx.set_nonblocking(true)?;
                        let tx = socket2::Socket::from(tx);
                        tx.set_send_buffer_size(4096)?;
                        let tx = BatchUdpSocket::new(tx)?;
                        let rx_sync = rx.try_clone()?;
                        let rx = tokio::net::UnixDatagram::from_std(rx)?;
                        Ok::<_, std::io::Error>((tx, rx, rx_sync))
                    });
                    if let Ok((tx, rx, rx_sync)) = made {
                        let io = self.io.get_mut(&conn_id).unwrap();
                        io.socket = Arc::new(tx);
                        let id = Arc::as_ptr(&io.socket) as usize;
                        self.bp = Some((l, rx, id, rx_sync));
                        self.bump("backpressure_injected");
                    }
                }
            }
            "SetCfg" => {
                if let Some(m) = ev.get("classic").and_then(Value::as_bool) {
                    self.snap.mode = if m { SchedulingMode::Classic } else { SchedulingMode::Enhanced };
                }
                if let Some(g) = ev.get("guard").and_then(Value::as_bool) {
                    self.snap.stall_deselect = g;
                }
                if let Some(t) = ev.get("timeout").and_then(Value::as_u64) {
                    self.snap.conn_timeout_ms = t;
                }
                line["mode"] = json!(if self.snap.mode.is_classic() { "classic" } else { "enhanced" });
                line["guard"] = json!(self.snap.stall_deselect);
                line["timeout"] = json!(self.snap.conn_timeout_ms);
            }
            other => panic!("unknown event {other}"),
        }
        line["sendfail"] = json!(self.sendfail.clone());
        let marked: Vec<bool> = self.conns.iter().enumerate()
            .map(|(i, c)| i < before.len() && c.reconnection.startup_grace_deadline_ms == 0
                 && !c.connected && c.last_received.is_none()
                 && (before[i].1 != 0 || before[i].0 || before[i].2))
            .collect();
        if let Some(l) = marked.iter().position(|m| *m) {
            self.recent_marked = Some(l);
            self.bump("links_marked_for_recovery");
        }
        line["marked"] = json!(marked);
        self.finish(line)
    }

    fn gen_cfg(&mut self, rng: &mut StdRng) -> Value {
        let profile = std::env::var("VH_PROFILE").unwrap_or_else(|_| "mixed".into());
        let classic = match profile.as_str() {
            "classic" => true,
            _ => rng.random_range(0..3) == 0,
        };
        let guard = if profile == "classic" { false } else { rng.random_range(0..5) != 0 };
        let mut timeout = [5000u64, 5000, 1000, 2000, 12_000][rng.random_range(0..5)];
        if profile == "repair" && rng.random_range(0..5) == 0 {
            timeout = 60_000;
        }
        json!({"links": rng.random_range(1..=4), "classic": classic, "guard": guard, "quality": rng.random_range(0..4) != 0,
               "timeout": if profile == "fault" || profile == "repair" { timeout } else { 5000 }, "profile": profile,
               "steps": std::env::var("VH_STEPS").ok().and_then(|s| s.parse::<u64>().ok()).unwrap_or(4000), "seed": rng.random_range(0..1_000_000u64)})
    }

    fn gen_event(&mut self, rng: &mut StdRng) -> Option<Value> {
        self.steps_done += 1;
        if let Some(ev) = self.script_step(rng) {
            return Some(ev);
        }
        if matches!(self.profile.as_str(), "mixed" | "fault") && self.n >= 2 && self.reg.has_connected && self.sent_seqs.len() > 30
            && rng.random_range(0..150) == 0
        {
            let k = self.sent_seqs.len();
            self.script_seq = self.sent_seqs[k - 1 - rng.random_range(0..12)];
            self.script_phase = 1;
            if let Some(ev) = self.script_step(rng) {
                return Some(ev);
            }
        }
        // 1. replies of the fake receiver that are due
        if let Some(pos) = self.pending.iter().position(|r| r.at <= self.now) {
            let r = self.pending.remove(pos).unwrap();
            let quiet = self.profile == "repair" && (self.quiet_on || self.steps_done * 10 >= self.steps_total * 5);
            if self.path[r.link] != Path::Up || (!quiet && rng.random_range(0..40) == 0) {
                return Some(json!({"ev": "ReplyLost", "l": r.link as i64 + 1}));
            }
            {
                if !quiet && rng.random_range(0..60) == 0 {
                    self.pending.push_back(Reply { at: self.now + 5, link: r.link, bytes: r.bytes.clone() }); // duplicate
                }
                return Some(json!({"ev": "UplinkPkt", "l": r.link as i64 + 1, "bytes": r.bytes, "stray": false}));
            }
        }
        // 1a. right after a link was marked for recovery: a (stale) keepalive echo with a plausible timestamp
        if let Some(l) = self.recent_marked.take() {
            if rng.random_range(0..2) == 0 && l < self.n {
                let mut b = vec![0u8; 38];
                b[0..2].copy_from_slice(&SRTLA_TYPE_KEEPALIVE.to_be_bytes());
                b[2..10].copy_from_slice(&(self.now - rng.random_range(5..300)).to_be_bytes());
                return Some(json!({"ev": "UplinkPkt", "l": l as i64 + 1, "bytes": b, "stray": true}));
            }
        }
        // 1c. while an RTT probe is outstanding on some link: an echo whose stamp sits on a boundary of the
        //     sampling rule (future by <= 10 s, same ms, just over / just under 10 s old) or is plausible
        // (not in the quiet phase of a repair schedule: that phase is what the rejoin bound is measured over, and a
        //  stray datagram is interference)
        let in_quiet = self.profile == "repair" && (self.quiet_on || self.steps_done * 10 >= self.steps_total * 5);
        if let Some(l) = (0..self.n).find(|i| self.conns[*i].rtt.waiting_for_keepalive_response).filter(|_| !in_quiet) {
            // (a link that has been reset and still waits for an echo: more often -- the window is short)
            let odds = if self.conns[l].connected { 30 } else { 6 };
            if rng.random_range(0..odds) == 0 {
                let ts: u64 = match rng.random_range(0..6) {
                    0 => self.now + rng.random_range(1..10_000),
                    1 => self.now,
                    2 => self.now.saturating_sub(rng.random_range(10_001..10_050)),
                    3 => self.now.saturating_sub(rng.random_range(9_950..=10_000)),
                    4 => self.now + rng.random_range(10_000..20_000),
                    _ => self.now.saturating_sub(rng.random_range(1..400)),
                };
                let mut b = vec![0u8; if rng.random_range(0..2) == 0 { 10 } else { 38 }];
                b[0..2].copy_from_slice(&SRTLA_TYPE_KEEPALIVE.to_be_bytes());
                b[2..10].copy_from_slice(&ts.to_be_bytes());
                return Some(json!({"ev": "UplinkPkt", "l": l as i64 + 1, "bytes": b, "stray": true}));
            }
        }
        // 1b. a loaded uplink channel is drained before anything else (<= 64 datagrams per call)
        if self.packet_rx.len() > 0 {
            return Some(json!({"ev": "Drain"}));
        }
        // 2. timers
        if self.since_hk >= 1000 {
            self.since_hk = 0;
            return Some(json!({"ev": "Housekeeping"}));
        }
        if self.since_flush >= 15 {
            self.since_flush = 0;
            return Some(json!({"ev": "FlushTick"}));
        }
        // "repair": faults during the first 40 % of the run, then everything is repaired and stays quiet
        let repair = self.profile == "repair";
        let quiet = repair && (self.quiet_on || self.steps_done * 10 >= self.steps_total * 5);
        if quiet {
            if let Some(l) = (0..self.n).find(|i| self.path[*i] != Path::Up) {
                return Some(json!({"ev": "SetPath", "l": l as i64 + 1, "p": "up"}));
            }
        }
        // one victim link is black-holed for the whole fault phase (a long outage, then the repair)
        if repair && !quiet && self.n >= 2 && self.steps_done * 20 >= self.steps_total {
            let victim = self.n - 1;
            if self.path[victim] == Path::Up {
                return Some(json!({"ev": "SetPath", "l": victim as i64 + 1, "p": "hole"}));
            }
        }
        let fault = self.profile == "fault" || (repair && !quiet);
        let relay = self.profile == "relay";
        // one link at a time may be moved behind a back-pressured path (short sendmmsg counts on batch flushes)
        if self.bp.is_none() && !quiet && self.profile != "repair" && rng.random_range(0..500) == 0 {
            return Some(json!({"ev": "Backpressure", "l": rng.random_range(1..=self.n)}));
        }
        let mut r = rng.random_range(0..1000);
        if quiet && r < 30 {
            r = 500; // no faults, no configuration changes, no strays
        }
        // 3a. fault schedules: a send failure on a link whose RTT probe is outstanding (the reset cancels the probe; an
        //     echo that still arrives on the unchanged socket is no sample)
        if self.profile == "fault" && rng.random_range(0..20) == 0 {
            if let Some(l) = (0..self.n).find(|i| self.conns[*i].connected && self.conns[*i].rtt.waiting_for_keepalive_response && !self.sendfail[*i]) {
                self.bump("send_failure_while_probe_outstanding");
                return Some(json!({"ev": "SendFail", "l": l + 1}));
            }
        }
        // 3. faults and configuration
        if fault && r < 12 || r < 2 {
            let l = rng.random_range(1..=self.n);
            return Some(match rng.random_range(0..8) {
                0 | 1 => json!({"ev": "SetPath", "l": l, "p": "hole"}),
                2 => json!({"ev": "SetPath", "l": l, "p": "replies_lost"}),
                3 | 4 | 5 => json!({"ev": "SetPath", "l": l, "p": "up"}),
                6 => json!({"ev": "Amnesia"}),
                _ => {
                    // prefer a link whose replies are being lost (its RTT probe stays outstanding)
                    let l2 = (0..self.n).find(|i| self.path[*i] == Path::RepliesLost).map(|i| i + 1).unwrap_or(l);
                    json!({"ev": "SendFail", "l": l2})
                }
            });
        }
        if self.profile != "classic" && self.snap.stall_deselect && !self.snap.mode.is_classic()
            && self.conns.iter().any(|c| c.stall_latched() || c.is_stall_gated())
            && rng.random_range(0..25) == 0
        {
            // the guard is switched off while it holds a link, and the next datagram is a retransmission
            self.rexmit_next = true;
            self.bump("guard_switched_off_while_a_link_is_held");
            return Some(json!({"ev": "SetCfg", "guard": false}));
        }
        if r < 16 && self.profile != "classic" {
            return Some(match rng.random_range(0..3) {
                0 => json!({"ev": "SetCfg", "classic": rng.random_range(0..2) == 0}),
                1 => {
                    let g = rng.random_range(0..3) != 0;
                    // (the datagram that follows a switch-off is a retransmission half of the time: the override path
                    // of handle_srt_packet must leave the links as clean as the scheduler does)
                    self.rexmit_next = !g && rng.random_range(0..2) == 0;
                    json!({"ev": "SetCfg", "guard": g})
                }
                _ => {
                    let t = [1000u64, 2000, 5000, 12_000][rng.random_range(0..4)];
                    json!({"ev": "SetCfg", "timeout": t})
                }
            });
        }
        if (relay && r < 40 || r < 18) && self.last_client.is_some() {
            let k = match rng.random_range(0..4) { 0 => rng.random_range(1..10), 1 => rng.random_range(60..70), _ => rng.random_range(10..200) };
            return Some(json!({"ev": "Burst", "l": rng.random_range(1..=self.n), "k": k}));
        }
        // 4. stray / arbitrary datagrams on an uplink
        if relay && r < 350 || r < 30 {
            let l = rng.random_range(1..=self.n);
            let len = match rng.random_range(0..8) {
                0 => rng.random_range(0..4),
                1 => rng.random_range(4..24),
                2 => 1500,
                _ => rng.random_range(2..400),
            };
            let mut b: Vec<u8> = (0..len).map(|_| rng.random_range(0..256) as u8).collect();
            if len >= 2 {
                let t: u16 = match rng.random_range(0..16) {
                    0 => SRTLA_TYPE_KEEPALIVE, 1 => SRTLA_TYPE_ACK, 2 => SRTLA_TYPE_REG1, 3 => SRTLA_TYPE_REG2,
                    4 => SRTLA_TYPE_REG3, 5 => SRTLA_TYPE_REG_ERR, 6 => SRTLA_TYPE_REG_NGP, 7 => 0x9212,
                    8 => SRT_TYPE_ACK, 9 => SRT_TYPE_NAK, 10 => 0x8000, 11 => 0x8005, 12 => 0x0000,
                    13 => 0x9300, _ => rng.random_range(0..=0xffff),
                };
                b[0..2].copy_from_slice(&t.to_be_bytes());
                // make some ACK / NAK payloads hit real sequence numbers
                if (t == SRT_TYPE_NAK || t == SRTLA_TYPE_ACK) && len >= 8 && !self.sent_seqs.is_empty() {
                    let k = self.sent_seqs.len();
                    let mut i = 4;
                    while i + 3 < b.len() {
                        let s = self.sent_seqs[k - 1 - rng.random_range(0..k.min(300))];
                        b[i..i + 4].copy_from_slice(&s.to_be_bytes());
                        i += 4;
                    }
                }
                if t == SRT_TYPE_ACK && len >= 20 && !self.sent_seqs.is_empty() {
                    let s = *self.sent_seqs.last().unwrap() - rng.random_range(0..50).min(*self.sent_seqs.last().unwrap());
                    b[16..20].copy_from_slice(&s.to_be_bytes());
                }
                if t == SRTLA_TYPE_KEEPALIVE && len >= 10 {
                    let ts: u64 = match rng.random_range(0..5) {
                        0 => 0,
                        1 => self.now + rng.random_range(1..5000),
                        2 => self.now.saturating_sub(rng.random_range(10_000..20_000)),
                        _ => self.now.saturating_sub(rng.random_range(1..400)),
                    };
                    b[2..10].copy_from_slice(&ts.to_be_bytes());
                }
            }
            return Some(json!({"ev": "UplinkPkt", "l": l, "bytes": b, "stray": true}));
        }
        // 5. time
        if r < 330 {
            let d = match rng.random_range(0..10) {
                0 => rng.random_range(10..16),
                1 => rng.random_range(100..400),
                2 | 3 if fault || quiet => rng.random_range(900..1100),
                _ => rng.random_range(1..8),
            };
            // never jump past a reply that is in flight: the network delivers it when it is due
            let d = match self.pending.iter().map(|r| r.at).min() {
                Some(at) if at > self.now => d.min(at - self.now),
                _ => d,
            };
            // ... nor past the next housekeeping pass (the 1 s timer fires on time)
            let d = d.min(1000u64.saturating_sub(self.since_hk).max(1));
            self.since_flush += d;
            self.since_hk += d;
            return Some(json!({"ev": "Advance", "d": d}));
        }
        // 6. the client stream
        let mut kindr = rng.random_range(0..100);
        if std::mem::take(&mut self.rexmit_next) {
            kindr = 10;
            self.bump("retransmission_right_after_guard_off");
        }
        let (kind, seq) = if kindr < 8 {
            ("ctrl", 0)
        } else if kindr < 18 && !self.sent_seqs.is_empty() {
            let k = self.sent_seqs.len();
            ("rexmit", self.sent_seqs[k - 1 - rng.random_range(0..k.min(200))])
        } else {
            let s = self.next_seq;
            self.next_seq += 1;
            self.sent_seqs.push(s);
            if self.sent_seqs.len() > 4000 {
                self.sent_seqs.drain(..2000);
            }
            ("data", s)
        };
        let len = match rng.random_range(0..12) {
            0 => rng.random_range(1..20),
            1 => 1500,
            2 => rng.random_range(20..200),
            _ => 1316 + 16,
        };
        Some(json!({"ev": "ClientPkt", "kind": kind, "seq": seq, "len": len, "crit": rng.random_range(0..150) == 0}))
    }

    fn counters(&self) -> Value {
        json!(self.c)
    }
}
