//! C13 / C12 / C03(timed) engine: the stall latch and silence pull through the
//! real `select_connection_idx` on two links (the link under test and one
//! other link that is healthy or not).
//!
//! replay: one-step `Select` edges exported by TLC from every reachable state
//! of StallGuard -- the pre-state is stamped onto a real connection.
//! record: seeded timed histories at ms resolution (real RTT tracker, proofs,
//! inbound bytes, load changes, disconnects, resets, guard toggles).

use rand::Rng;
use rand::rngs::StdRng;
use serde_json::{Value, json};
use srtla_core::config_snapshot::ConfigSnapshot;
use srtla_core::connection::{RttTracker, SrtlaConnection};
use srtla_core::mode::SchedulingMode;
use srtla_core::selection::select_connection_idx;

use crate::engine::Engine;
use crate::util::{T0, getb, geti, gets, live_conn, mix};

pub struct StallGuardEngine {
    key: u64,
    n: u64,
    // recorded-run state
    conns: Vec<SrtlaConnection>,
    now: u64,
    guard: bool,
    ceil: u64,
    classic: bool,
    other_healthy: bool,
    focus: String,
    // counters
    c_rise: u64,
    c_fall: u64,
    c_pull_rise: u64,
    c_pull_fall: u64,
    c_gated: u64,
    c_guard_off_clear: u64,
    c_d4: u64,
}

const MIN_INFL: i32 = 32;

impl StallGuardEngine {
    pub fn new() -> Self {
        Self {
            key: 0, n: 0, conns: Vec::new(), now: T0, guard: true, ceil: 3000, classic: false,
            other_healthy: true, focus: "all".into(),
            c_rise: 0, c_fall: 0, c_pull_rise: 0, c_pull_fall: 0, c_gated: 0, c_guard_off_clear: 0, c_d4: 0,
        }
    }

    fn pick(&mut self, n: u64) -> u64 {
        self.n += 1;
        mix(self.key ^ self.n.wrapping_mul(0x51ed)) % n
    }

    fn snap(&self) -> ConfigSnapshot {
        ConfigSnapshot {
            mode: if self.classic { SchedulingMode::Classic } else { SchedulingMode::Enhanced },
            quality_enabled: true,
            stall_deselect: self.guard,
            stall_min_in_flight: MIN_INFL,
            stall_ack_stale_ms: self.ceil,
            conn_timeout_ms: 60_000,
        }
    }

    fn set_loaded(c: &mut SrtlaConnection, loaded: bool, now: u64) {
        let n = if loaded { MIN_INFL + 8 } else { 5 };
        c.packet_log.clear();
        for s in 0..n {
            c.packet_log.insert(9_000_000 + s, now);
        }
        c.in_flight_packets = n;
    }

    fn other(now: u64, healthy: bool) -> SrtlaConnection {
        let mut o = live_conn(1, now - 60_000);
        o.last_received = Some(if healthy { now - 3 } else { now - 70_000 });
        o
    }

    fn obs_link(c: &SrtlaConnection, now: u64) -> Value {
        let v = c.verif_view();
        json!({
            "latched": c.stall_latched(),
            "pulled": v.silence_pulled,
            "gated": c.is_stall_gated(),
            "rec": if v.stall_recovery_since_ms == 0 { -1 } else { (now - v.stall_recovery_since_ms) as i64 },
            "events": c.stall_gate_events(),
            "pulls": c.silence_pulls(),
        })
    }

    fn frame(c: &SrtlaConnection) -> impl PartialEq + use<> {
        ((c.connected, c.last_received, c.last_sent, c.window, c.in_flight_packets, c.packet_log.len(),
          c.congestion.nak_count, c.congestion.nak_burst_count, c.last_ack_or_rtt_sample_ms,
          c.congestion.fast_recovery_mode),
         (c.phase, c.reconnection.last_reconnect_attempt_ms, c.reconnection.reconnect_failure_count,
          c.reconnection.connection_established_ms, c.verif_view().last_keepalive_sent,
          c.batch_sender.queued_count()))
    }

    fn select(&mut self, last: Option<usize>) -> Value {
        let now = self.now;
        let snap = self.snap();
        let f0: Vec<_> = self.conns.iter().map(Self::frame).collect();
        let pre_l = self.conns[0].stall_latched();
        let pre_p = self.conns[0].verif_view().silence_pulled;
        let dec = select_connection_idx(&mut self.conns, last, now, &snap);
        let f1: Vec<_> = self.conns.iter().map(Self::frame).collect();
        let mut o = Self::obs_link(&self.conns[0], now);
        let usable = self.conns.iter().any(|c| c.connected && c.is_schedulable() && !c.is_timed_out(now));
        o["frame_ok"] = json!(f0 == f1);
        o["dec"] = json!(dec.map(|i| i as i64 + 1).unwrap_or(0));
        o["blackout"] = json!(usable && dec.is_none());
        o["dec_gated"] = json!(dec.is_some_and(|i| self.conns[i].is_stall_gated()));
        let (l, p) = (o["latched"] == json!(true), o["pulled"] == json!(true));
        if !pre_l && l { self.c_rise += 1; }
        if pre_l && !l { self.c_fall += 1; }
        if !pre_p && p { self.c_pull_rise += 1; }
        if pre_p && !p { self.c_pull_fall += 1; }
        if o["gated"] == json!(true) { self.c_gated += 1; }
        if !self.guard && (pre_l || pre_p) { self.c_guard_off_clear += 1; }
        o
    }
}

impl Engine for StallGuardEngine {
    fn reset(&mut self, cfg: &Value, case_key: u64) {
        self.key = case_key;
        self.n = 0;
        self.now = T0 + 500_000;
        self.guard = cfg.get("guard").and_then(Value::as_bool).unwrap_or(true);
        self.ceil = cfg.get("ceil").and_then(Value::as_u64).unwrap_or(3000);
        self.classic = cfg.get("classic").and_then(Value::as_bool).unwrap_or(false);
        self.other_healthy = true;
        let now = self.now;
        self.conns = vec![live_conn(0, now), Self::other(now, true)];
        self.conns[0].last_received = Some(now);
    }

    fn configure(&mut self, args: &[String]) {
        if let Some(i) = args.iter().position(|a| a == "--focus") {
            self.focus = args[i + 1].clone();
        }
    }

    fn apply(&mut self, ev: &Value) -> Value {
        srtla_core::verif::set_clock(Some(self.now));
        // ---- one-step edge from TLC
        if let Some(pre) = ev.get("pre") {
            let now = T0 + 500_000;
            self.now = now;
            self.guard = getb(pre, "guard");
            self.ceil = geti(pre, "ceil") as u64;
            self.classic = self.pick(2) == 0;
            let mut c = live_conn(0, now - 60_000);
            c.connected = getb(pre, "conn");
            Self::set_loaded(&mut c, getb(pre, "loaded"), now);
            let age = |a: i64| -> Option<u64> { if a < 0 { None } else { Some(now - a as u64) } };
            c.last_ack_or_rtt_sample_ms = age(geti(pre, "pa")).unwrap_or(0);
            c.last_received = age(geti(pre, "ra"));
            c.rtt = RttTracker::default();
            let srtt = geti(pre, "srtt") as u64;
            if srtt > 0 {
                c.rtt.update_estimate(srtt, now - 1);
            }
            let latched_since = if getb(pre, "latched") { now - 7_000 - self.pick(1000) } else { 0 };
            let rec_since = age(geti(pre, "rec")).unwrap_or(0);
            c.verif_set_stall(latched_since, rec_since, getb(pre, "pulled"), 0);
            c.stall_gated = getb(pre, "gated");
            // accounting state a decision must leave alone, at arbitrary values
            c.window = [1000, 1500, 5000, 20_000, 45_000, 60_000][self.pick(6) as usize];
            c.congestion.nak_count = self.pick(7) as i32;
            c.congestion.fast_recovery_mode = self.pick(2) == 0;
            let held = getb(ev, "held");
            let other_healthy = if held { getb(ev, "other") } else { self.pick(2) == 0 };
            self.other_healthy = other_healthy;
            self.conns = vec![c, Self::other(now, other_healthy)];
            let last = match self.pick(3) { 0 => None, k => Some(k as usize - 1) };
            let mut o = self.select(last);
            o["other"] = json!(other_healthy);
            return o;
        }
        // ---- recorded histories
        let name = gets(ev, "ev").to_string();
        let now = self.now;
        match name.as_str() {
            "Init" => {
                return json!({"guard": self.guard, "ceil": self.ceil});
            }
            "Advance" => self.now += geti(ev, "d") as u64,
            "Select" => {
                let h = getb(ev, "other");
                self.other_healthy = h;
                self.conns[1].last_received = Some(if h { now } else { now.saturating_sub(70_000) });
                let last = match geti(ev, "last") { 0 => None, k => Some(k as usize - 1) };
                let mut o = self.select(last);
                // inputs of this decision, as the code sees them
                let c = &self.conns[0];
                o["srtt"] = json!(c.get_smooth_rtt_ms() as u64);
                return o;
            }
            "ProofHere" => {
                self.conns[0].last_ack_or_rtt_sample_ms = now;
                self.conns[0].last_received = Some(now);
            }
            "ProofForeign" => self.conns[0].last_ack_or_rtt_sample_ms = now,
            "Recv" => self.conns[0].last_received = Some(now),
            "SetLoad" => {
                let b = getb(ev, "b");
                Self::set_loaded(&mut self.conns[0], b, now);
            }
            "RttSample" => {
                let r = geti(ev, "rtt") as u64;
                self.conns[0].rtt.update_estimate(r, now);
            }
            "Disconnect" => {
                self.conns[0].connected = false;
                self.conns[0].last_received = None;
            }
            "Reg3" => {
                self.conns[0].clear_pre_registration_state(now);
                self.conns[0].connected = true;
                self.conns[0].last_received = Some(now);
            }
            "SetGuard" => self.guard = getb(ev, "g"),
            "Reset" => {
                if getb(ev, "full") {
                    self.conns[0].reset_for_reconnect(now);
                } else {
                    self.conns[0].mark_for_recovery();
                }
            }
            other => panic!("unknown event {other}"),
        }
        json!({"srtt": self.conns[0].get_smooth_rtt_ms() as u64})
    }

    fn gen_cfg(&mut self, rng: &mut StdRng) -> Value {
        let ceil = match rng.random_range(0..6) {
            0 => 500,
            1 => 1000,
            2 => 1500,
            3 => 6000,
            _ => 3000,
        };
        json!({"guard": rng.random_range(0..8) != 0, "ceil": ceil, "classic": rng.random_range(0..2) == 0})
    }

    fn gen_event(&mut self, rng: &mut StdRng) -> Option<Value> {
        let r = rng.random_range(0..100);
        Some(if r < 30 {
            json!({"ev": "Select", "other": rng.random_range(0..5) != 0, "last": rng.random_range(0..3)})
        } else if r < 55 {
            let d = match rng.random_range(0..8) {
                0 => rng.random_range(1..20),
                1 => rng.random_range(240..260),
                2 => rng.random_range(990..1010),
                3 => rng.random_range(1990..2010),
                4 => rng.random_range(2990..3010),
                _ => rng.random_range(20..700),
            };
            json!({"ev": "Advance", "d": d})
        } else if r < 67 {
            json!({"ev": "ProofHere"})
        } else if r < 71 {
            json!({"ev": "ProofForeign"})
        } else if r < 78 {
            json!({"ev": "Recv"})
        } else if r < 86 {
            json!({"ev": "SetLoad", "b": rng.random_range(0..3) != 0})
        } else if r < 93 {
            let rtt = match rng.random_range(0..5) {
                0 => rng.random_range(20..60),
                1 => rng.random_range(100..300),
                2 => rng.random_range(300..800),
                3 => rng.random_range(800..2000),
                _ => rng.random_range(20..2000),
            };
            json!({"ev": "RttSample", "rtt": rtt})
        } else if r < 95 {
            json!({"ev": "Disconnect"})
        } else if r < 97 {
            json!({"ev": "Reg3"})
        } else if r < 98 {
            json!({"ev": "SetGuard", "g": rng.random_range(0..3) != 0})
        } else {
            json!({"ev": "Reset", "full": rng.random_range(0..2) == 0})
        })
    }

    fn matches(&self, exp: &Value, got: &Value) -> bool {
        ["latched", "pulled", "gated", "rec"].iter().all(|k| exp[*k] == got[*k])
            && got["frame_ok"] == json!(true)
            && got["blackout"] == json!(false)
    }

    fn finding_key(&self, ev: &Value, exp: &Value, got: &Value) -> Option<String> {
        if !(self.focus == "all" || self.focus == "C13") {
            return None;
        }
        let pre = ev.get("pre")?;
        if getb(pre, "pulled") && got["pulled"] == json!(false) && exp["pullFallOK"] == json!(false)
            && exp["pullFallD4"] == json!(true)
        {
            return Some("C13/PullFallOK/rtt-widened-window".into());
        }
        None
    }

    fn judge(&self, ev: &Value, exp: &Value, got: &Value) -> u8 {
        if self.matches(exp, got) {
            return 0;
        }
        let Some(pre) = ev.get("pre") else { return 2 };
        let f = self.focus.as_str();
        let all = f == "all";
        let (l0, p0) = (getb(pre, "latched"), getb(pre, "pulled"));
        let (l1, p1) = (got["latched"] == json!(true), got["pulled"] == json!(true));
        let guard = getb(pre, "guard");
        if all || f == "C12" {
            // a decision never touches liveness / accounting; guard off leaves nothing behind
            if got["frame_ok"] != json!(true) {
                return 2;
            }
            if !guard && (l1 || p1 || got["gated"] == json!(true)) {
                return 2;
            }
        }
        if all || f == "C03" || f == "C04" {
            if got["blackout"] != json!(false) || got["dec_gated"] == json!(true) {
                return 2;
            }
            // the gate flag is exactly "held and another healthy link exists"
            if guard && got["gated"] != json!(got["other"] == json!(true) && (l1 || p1)) {
                return 2;
            }
        }
        if all || f == "C13" {
            // C13 rules, from the monitor's verdict computed by TLC for this decision
            if !l0 && l1 && exp["riseOK"] != json!(true) {
                return 2;
            }
            if l0 && !l1 && exp["fallOK"] != json!(true) {
                return 2;
            }
            if p0 && !p1 && exp["pullFallOK"] != json!(true) {
                return 2;
            }
        }
        1
    }

    fn counters(&self) -> Value {
        json!({
            "latch_rise": self.c_rise, "latch_fall": self.c_fall, "pull_rise": self.c_pull_rise,
            "pull_fall": self.c_pull_fall, "gated_decisions": self.c_gated,
            "guard_off_cleared_history": self.c_guard_off_clear, "d4": self.c_d4,
        })
    }
}
