//! C15 engine: every pub fn of crate `srtla-protocol` (the real decoders,
//! classifiers and builders) against the reference definitions of Codec.tla.
//!
//! replay: each input enumerated by TLC (`Dec`: a byte string with the
//! reference outputs; `Build`: builder arguments with the reference frame) is
//! run through the real functions. Verdicts are taken at the level of the
//! property: totality (a panic is caught by the runner), the bound on the NAK
//! list, round trips and the stated layouts are violations; a difference on an
//! ill-formed NAK loss list (dangling range start, end below start or with its
//! top bit set, expansion cut by the cap), on the retransmit flag of a 5..7 byte
//! frame or on the two padding bytes of an SRTLA ACK header is MODEL-DRIFT.
//! record: a seeded generator (all lengths 0..1500 for every type code as
//! truncations of valid frames built from a header + a repeated word pattern,
//! boundary-word NAK / ACK lists, mutated valid frames, random bytes, builder
//! calls) drives the real code and logs frame + outputs for Trace_Codec.tla.
//! Numbers: 32-bit words as [hi16, lo16], 64-bit as four 16-bit limbs.

use std::cell::RefCell;
use std::collections::BTreeMap;

use rand::Rng;
use rand::rngs::StdRng;
use serde_json::{Value, json};
use srtla_protocol::{
    ConnectionInfo, SRTLA_ID_LEN, SRTLA_KEEPALIVE_EXT_LEN, SRTLA_TYPE_REG1_LEN, SRTLA_TYPE_REG2_LEN,
    SRTLA_TYPE_REG3_LEN, create_ack_packet, create_keepalive_packet, create_keepalive_packet_ext,
    create_reg1_packet, create_reg2_packet, extract_keepalive_conn_info, extract_keepalive_timestamp,
    get_packet_type, get_srt_sequence_number, is_srt_ack, is_srt_data_retransmit, is_srtla_keepalive,
    is_srtla_reg1, is_srtla_reg2, is_srtla_reg3, parse_srt_ack, parse_srt_nak, parse_srtla_ack,
};

use crate::engine::Engine;
use crate::util::{gets, mix};

const CAP: usize = 1000;

pub struct CodecEngine {
    recording: bool,
    key: u64,
    seed: u64,
    n: u64,
    pending: Vec<u8>,
    c: RefCell<BTreeMap<&'static str, u64>>,
}

struct Decoded {
    ty: Option<u16>,
    seq: Option<u32>,
    rex: bool,
    ack: Option<u32>,
    nak: Vec<u32>,
    lack: Vec<u32>,
    ts: Option<u64>,
    info: Option<ConnectionInfo>,
    reg1: bool,
    reg2: bool,
    reg3: bool,
    ka: bool,
    isack: bool,
}

/// What a frame exercises (vacuity counters). In replay it is read off the
/// REFERENCE outputs, so that a change of the code under test cannot starve a
/// guard; in recording off the real outputs, which TLC then validates.
struct Features {
    ty: Option<u16>,
    seq: bool,
    rex: bool,
    ack: bool,
    lack_n: usize,
    nak_n: usize,
    ts: bool,
    info: bool,
    ka: bool,
    reg1: bool,
    reg2: bool,
    reg3: bool,
}

impl Features {
    fn of_decoded(d: &Decoded) -> Self {
        Features {
            ty: d.ty, seq: d.seq.is_some(), rex: d.rex, ack: d.ack.is_some(), lack_n: d.lack.len(),
            nak_n: d.nak.len(), ts: d.ts.is_some(), info: d.info.is_some(), ka: d.ka, reg1: d.reg1, reg2: d.reg2,
            reg3: d.reg3,
        }
    }
    fn of_expected(o: &Value) -> Self {
        let some = |k: &str| o[k].as_array().is_some_and(|a| !a.is_empty());
        let flag = |k: &str| o[k].as_bool().unwrap_or(false);
        Features {
            ty: o["ty"].as_array().and_then(|a| a.first()).and_then(Value::as_u64).map(|t| t as u16),
            seq: some("seq"), rex: flag("rex"), ack: some("ack"),
            lack_n: o["lack"].as_array().map(|a| a.len()).unwrap_or(0),
            nak_n: o["nak_n"].as_u64().unwrap_or(0) as usize,
            ts: some("ts"), info: some("info"), ka: flag("ka"), reg1: flag("reg1"), reg2: flag("reg2"),
            reg3: flag("reg3"),
        }
    }
}

fn pair(w: u32) -> Value {
    json!([w >> 16, w & 0xffff])
}
fn unpair(v: &Value) -> u32 {
    let a = v[0].as_u64().expect("hi") as u32;
    let b = v[1].as_u64().expect("lo") as u32;
    (a << 16) | b
}
fn limbs(t: u64) -> Value {
    json!([(t >> 48) & 0xffff, (t >> 32) & 0xffff, (t >> 16) & 0xffff, t & 0xffff])
}
fn unlimbs(v: &Value) -> u64 {
    (0..4).fold(0u64, |a, i| (a << 16) | v[i].as_u64().expect("limb"))
}
fn opt<T>(o: Option<T>, f: impl Fn(T) -> Value) -> Value {
    match o {
        Some(x) => json!([f(x)]),
        None => json!([]),
    }
}
fn info_words(i: &ConnectionInfo) -> [u32; 6] {
    [i.conn_id, i.window as u32, i.in_flight as u32, i.rtt_ms, i.nak_count, i.bitrate_bytes_per_sec]
}
fn info_json(i: &ConnectionInfo) -> Value {
    Value::Array(info_words(i).iter().map(|w| pair(*w)).collect())
}
fn info_from(v: &Value) -> ConnectionInfo {
    let w: Vec<u32> = v.as_array().expect("info").iter().map(unpair).collect();
    ConnectionInfo {
        conn_id: w[0],
        window: w[1] as i32,
        in_flight: w[2] as i32,
        rtt_ms: w[3],
        nak_count: w[4],
        bitrate_bytes_per_sec: w[5],
    }
}
fn bytes_of(v: &Value) -> Vec<u8> {
    v.as_array().map(|a| a.iter().map(|x| x.as_u64().expect("byte") as u8).collect()).unwrap_or_default()
}
fn words_of(v: &Value) -> Vec<u32> {
    v.as_array().map(|a| a.iter().map(unpair).collect()).unwrap_or_default()
}

/// The byte string as the registration manager of srtla-core consumes it while it awaits the answer to a REG1 on
/// this uplink (the one place where the 256-byte id of a REG2 frame is actually decoded): (accepted, the adopted id
/// is bytes 2..258 of the frame).  A panic here is a panic of the sender's event loop.
fn reg_consume(b: &[u8]) -> (bool, bool) {
    let mut m = srtla_core::registration::SrtlaRegistrationManager::new();
    let _ = m.build_reg1_for(0, 1_000);
    assert_eq!(m.pending_reg2_idx(), Some(0), "harness: the manager does not await REG2 after build_reg1_for");
    let _ = m.process_registration_packet(0, b, 1_500);
    let acc = m.pending_reg2_idx().is_none() && m.broadcast_reg2_pending();
    let id_ok = !acc || (b.len() >= 258 && m.srtla_id()[..] == b[2..258]);
    (acc, id_ok)
}

/// All real decoders / classifiers on one byte string.
fn decode_all(b: &[u8]) -> Decoded {
    Decoded {
        ty: get_packet_type(b),
        seq: get_srt_sequence_number(b),
        rex: is_srt_data_retransmit(b),
        ack: parse_srt_ack(b),
        nak: parse_srt_nak(b).iter().copied().collect(),
        lack: parse_srtla_ack(b).iter().copied().collect(),
        ts: extract_keepalive_timestamp(b),
        info: extract_keepalive_conn_info(b),
        reg1: is_srtla_reg1(b),
        reg2: is_srtla_reg2(b),
        reg3: is_srtla_reg3(b),
        ka: is_srtla_keepalive(b),
        isack: is_srt_ack(b),
    }
}

/// The frame of a `Dec` event: explicit bytes, or head ++ pat^reps ++ tail.
fn frame_of(ev: &Value) -> Vec<u8> {
    if let Some(b) = ev.get("b") {
        return bytes_of(b);
    }
    let mut f = bytes_of(&ev["head"]);
    let pat = bytes_of(&ev["pat"]);
    for _ in 0..ev["reps"].as_u64().unwrap_or(0) {
        f.extend_from_slice(&pat);
    }
    f.extend_from_slice(&bytes_of(&ev["tail"]));
    f
}

/// Indices (1-based) of a long list that are logged: all of a short one, else
/// both ends plus a few pseudo-random positions.
fn sample_idx(n: usize, key: u64, limit: usize) -> Vec<usize> {
    let n = n.min(limit);
    if n <= 24 {
        return (1..=n).collect();
    }
    let mut v: Vec<usize> = (1..=8).collect();
    for j in 0..5u64 {
        v.push((mix(key ^ (j << 32)) % n as u64) as usize + 1);
    }
    v.push(n - 1);
    v.push(n);
    v
}
fn at_json(list: &[u32], idx: &[usize]) -> Value {
    Value::Array(idx.iter().map(|k| json!([*k, list[*k - 1] >> 16, list[*k - 1] & 0xffff])).collect())
}

const FNAME: [(&str, &str); 11] = [
    ("ty", "get_packet_type"),
    ("seq", "get_srt_sequence_number"),
    ("ack", "parse_srt_ack"),
    ("lack", "parse_srtla_ack"),
    ("ts", "extract_keepalive_timestamp"),
    ("info", "extract_keepalive_conn_info"),
    ("reg1", "is_srtla_reg1"),
    ("reg2", "is_srtla_reg2"),
    ("reg3", "is_srtla_reg3"),
    ("ka", "is_srtla_keepalive"),
    ("isack", "is_srt_ack"),
];

/// Reference NAK segments [[hi, lo, n] ...] expanded (wrapping add).
fn expand_segs(v: &Value) -> Vec<u32> {
    let mut out = Vec::new();
    for s in v.as_array().map(|a| a.as_slice()).unwrap_or(&[]) {
        let start = ((s[0].as_u64().unwrap() as u32) << 16) | s[1].as_u64().unwrap() as u32;
        let n = s[2].as_u64().unwrap() as u32;
        for k in 0..n.min(100_000) {
            out.push(start.wrapping_add(k));
        }
    }
    out
}

impl CodecEngine {
    pub fn new() -> Self {
        Self { recording: false, key: 0, seed: 0, n: 0, pending: Vec::new(), c: RefCell::new(BTreeMap::new()) }
    }

    fn bump(&self, k: &'static str) {
        *self.c.borrow_mut().entry(k).or_insert(0) += 1;
    }

    fn count(&self, b: &[u8], d: &Features) {
        if b.len() < 2 {
            self.bump("shorter_than_type");
        }
        if b.len() > 1000 {
            self.bump("frames_over_1000_bytes");
        }
        if d.seq {
            self.bump("data_seq");
        }
        if d.rex {
            self.bump("retransmit_flag");
        }
        if d.ack {
            self.bump("srt_ack_number");
        }
        if d.ty == Some(0x8002) && b.len() < 20 {
            self.bump("srt_ack_truncated");
        }
        if d.lack_n > 0 {
            self.bump("srtla_ack_list");
            if b.len() % 4 != 0 {
                self.bump("srtla_ack_partial_tail");
            }
        }
        if d.ty == Some(0x8003) && b.len() >= 8 {
            self.bump("nak_frames");
            let mut i = 4;
            let mut range = false;
            let mut dangling = false;
            let mut widest = false;
            while i + 3 < b.len() {
                if b[i] & 0x80 != 0 {
                    range = true;
                    if i + 7 >= b.len() {
                        dangling = true;
                        break;
                    }
                    if b[i..i + 8] == [0x80, 0, 0, 0, 0xff, 0xff, 0xff, 0xff] {
                        widest = true;
                    }
                    i += 8;
                } else {
                    i += 4;
                }
            }
            if range {
                self.bump("nak_ranges");
            }
            if dangling {
                self.bump("nak_dangling_range");
            }
            if widest {
                self.bump("nak_widest_range");
            }
            if d.nak_n >= CAP {
                self.bump("nak_cap_reached");
            }
            if d.nak_n > CAP {
                self.bump("nak_singles_beyond_cap");
            }
            if b.len() % 4 != 0 {
                self.bump("nak_partial_tail");
            }
        }
        if d.ts {
            self.bump("keepalive_ts");
        }
        if d.info {
            self.bump("keepalive_info");
        }
        if d.ka && b.len() >= SRTLA_KEEPALIVE_EXT_LEN && !d.info {
            self.bump("keepalive_ext_rejected");
        }
        if d.reg1 {
            self.bump("reg1");
        }
        if d.reg2 {
            self.bump("reg2");
        }
        if d.reg3 {
            self.bump("reg3");
        }
    }

    fn dec_replay(&mut self, ev: &Value) -> Value {
        let b = frame_of(ev);
        let d = decode_all(&b);
        let (regacc, regid) = reg_consume(&b);
        json!({
            "regacc": regacc, "regid": regid,
            "ty": opt(d.ty, |t| json!(t)), "seq": opt(d.seq, pair), "rex": d.rex, "ack": opt(d.ack, pair),
            "nak_list": d.nak, "lack": d.lack.iter().map(|w| pair(*w)).collect::<Vec<_>>(),
            "ts": opt(d.ts, limbs), "info": opt(d.info, |i| info_json(&i)),
            "reg1": d.reg1, "reg2": d.reg2, "reg3": d.reg3, "ka": d.ka, "isack": d.isack,
        })
    }

    fn dec_record(&mut self, b: &[u8], summary: bool) -> Value {
        let d = decode_all(b);
        self.count(b, &Features::of_decoded(&d));
        let key = self.key ^ b.len() as u64;
        let nak_idx = if summary { vec![] } else { sample_idx(d.nak.len(), key, usize::MAX) };
        // summary events carry the first 40 bytes only: ACK numbers 1..9 are inside them
        let lack_idx = sample_idx(d.lack.len(), key, if summary { 9 } else { usize::MAX });
        let (regacc, regid) = reg_consume(b);
        if regacc {
            self.bump("reg2_accepted_by_awaiting_manager");
        }
        json!({
            "regacc": regacc, "regid": regid,
            "ty": opt(d.ty, |t| json!(t)), "seq": opt(d.seq, pair), "rex": d.rex, "ack": opt(d.ack, pair),
            "nak_n": d.nak.len(), "nak_at": at_json(&d.nak, &nak_idx),
            "lack_n": d.lack.len(), "lack_at": at_json(&d.lack, &lack_idx),
            "ts": opt(d.ts, limbs), "info": opt(d.info, |i| info_json(&i)),
            "reg1": d.reg1, "reg2": d.reg2, "reg3": d.reg3, "ka": d.ka, "isack": d.isack,
        })
    }

    /// Real builder (where the crate has one) + real decoders on the real frame
    /// (`rt`) and on the reference frame (`rt_ref`, replay only).
    fn build(&mut self, ev: &Value) -> Value {
        let what = gets(ev, "what");
        let refb = ev.get("ref").map(bytes_of);
        let (bytes, rt, rt_ref): (Vec<u8>, bool, bool) = match what {
            "reg1" | "reg2" => {
                let idv = bytes_of(&ev["b"]);
                let mut id = [0u8; SRTLA_ID_LEN];
                id.copy_from_slice(&idv);
                let one = what == "reg1";
                let pkt: Vec<u8> = if one { create_reg1_packet(&id).to_vec() } else { create_reg2_packet(&id).to_vec() };
                let dec = |p: &[u8]| {
                    let t = if one { 0x9200 } else { 0x9201 };
                    p.len() == 2 + SRTLA_ID_LEN
                        && get_packet_type(p) == Some(t)
                        && is_srtla_reg1(p) == one
                        && is_srtla_reg2(p) == !one
                        && !is_srtla_reg3(p)
                        && p[2..] == id[..]
                };
                self.bump(if one { "built_reg1" } else { "built_reg2" });
                let r = dec(&pkt) && SRTLA_TYPE_REG1_LEN == 258 && SRTLA_TYPE_REG2_LEN == 258;
                (pkt, r, refb.as_deref().map(dec).unwrap_or(true))
            }
            "reg3" => {
                let f = refb.clone().unwrap_or_else(|| vec![0x92, 0x02]);
                let ok = is_srtla_reg3(&f) && SRTLA_TYPE_REG3_LEN == 2 && !is_srtla_reg1(&f) && !is_srtla_reg2(&f);
                self.bump("reg3_frame");
                (f, ok, ok)
            }
            "ack" => {
                let ws = words_of(&ev["ws"]);
                let pkt: Vec<u8> = create_ack_packet(&ws).iter().copied().collect();
                let dec = |p: &[u8]| parse_srtla_ack(p).as_slice() == ws.as_slice();
                self.bump("built_ack");
                if ws.len() > 15 {
                    self.bump("built_ack_spilled");
                }
                let r = dec(&pkt) && get_packet_type(&pkt) == Some(0x9100);
                (pkt, r, refb.as_deref().map(dec).unwrap_or(true))
            }
            "ka" => {
                let ts = unlimbs(&ev["ts"]);
                let pkt = create_keepalive_packet(ts).to_vec();
                let dec = |p: &[u8]| {
                    extract_keepalive_timestamp(p) == Some(ts) && extract_keepalive_conn_info(p).is_none() && is_srtla_keepalive(p)
                };
                self.bump("built_keepalive");
                let r = dec(&pkt);
                (pkt, r, refb.as_deref().map(dec).unwrap_or(true))
            }
            "kaext" => {
                let ts = unlimbs(&ev["ts"]);
                let info = info_from(&ev["info"]);
                let pkt = create_keepalive_packet_ext(info, ts).to_vec();
                let dec = |p: &[u8]| {
                    extract_keepalive_timestamp(p) == Some(ts) && extract_keepalive_conn_info(p) == Some(info) && is_srtla_keepalive(p)
                };
                self.bump("built_keepalive_ext");
                let r = dec(&pkt);
                (pkt, r, refb.as_deref().map(dec).unwrap_or(true))
            }
            "srtack" => {
                // the peer's frame: no builder in the crate, the reference frame is decoded
                let w = unpair(&ev["ws"][0]);
                let f = refb.clone().expect("ref frame");
                let ok = parse_srt_ack(&f) == Some(w) && is_srt_ack(&f);
                self.bump("srt_ack_frame");
                (f, ok, ok)
            }
            "data" => {
                let w = unpair(&ev["ws"][0]);
                let rex = ev["b"][0].as_u64() == Some(1);
                let f = refb.clone().expect("ref frame");
                let ok = get_srt_sequence_number(&f) == Some(w) && is_srt_data_retransmit(&f) == rex;
                self.bump("data_frame");
                (f, ok, ok)
            }
            other => panic!("unknown builder {other}"),
        };
        json!({"bytes": bytes, "rt": rt, "rt_ref": rt_ref})
    }

    /// (severity, canonical key) of one comparison.
    fn verdict(&self, ev: &Value, exp: &Value, got: &Value) -> (u8, Option<String>) {
        let kind = ev["ev"].as_str().unwrap_or("");
        if kind == "Build" {
            let what = ev["what"].as_str().unwrap_or("?");
            let mut sev = 0u8;
            if exp["bytes"] != got["bytes"] {
                let e = bytes_of(&exp["bytes"]);
                let g = bytes_of(&got["bytes"]);
                let pad_only = what == "ack"
                    && e.len() == g.len()
                    && e.iter().zip(g.iter()).enumerate().all(|(i, (a, b))| a == b || i == 2 || i == 3);
                if !pad_only {
                    return (2, Some(format!("C15/build_{what}/layout")));
                }
                sev = 1;
            }
            if got["rt"] != json!(true) {
                return (2, Some(format!("C15/build_{what}/roundtrip")));
            }
            if got["rt_ref"] != json!(true) {
                return (2, Some(format!("C15/build_{what}/decode-of-reference-frame")));
            }
            return (sev, None);
        }
        if kind != "Dec" {
            return (0, None);
        }
        if let Some(acc) = got.get("regacc").and_then(Value::as_bool) {
            // (the reference says what a REG2 frame is; the manager takes the id from any frame of that type that is long
            // enough, which the statement leaves open for longer frames)
            let b = frame_of(ev);
            if exp["reg2"] == json!(true) && !acc {
                return (2, Some("C15/reg2-frame/not-accepted-by-awaiting-manager".into()));
            }
            if acc && (b.len() < 258 || exp["ty"] != json!([0x9201])) {
                return (2, Some("C15/reg2-frame/short-or-foreign-frame-accepted".into()));
            }
            if got["regid"] != json!(true) {
                return (2, Some("C15/reg2-frame/adopted-id-differs".into()));
            }
        }
        for (f, name) in FNAME {
            if exp[f] != got[f] {
                return (2, Some(format!("C15/{name}/differs-from-layout")));
            }
        }
        let mut sev = 0u8;
        if exp["rex"] != got["rex"] {
            let len = frame_of(ev).len();
            if (5..=7).contains(&len) {
                sev = 1;
            } else {
                return (2, Some("C15/is_srt_data_retransmit/differs-from-layout".into()));
            }
        }
        let want = expand_segs(&exp["nak"]);
        let have: Vec<u32> = got["nak_list"].as_array().map(|a| a.iter().map(|x| x.as_u64().unwrap() as u32).collect()).unwrap_or_default();
        if want != have {
            // at most 1000 range-expanded entries + one per word outside a complete start/end pair
            let allow = exp["nak_allow"].as_u64().unwrap_or(CAP as u64) as usize;
            if have.len() > allow {
                return (2, Some("C15/parse_srt_nak/more-than-1000-range-entries".into()));
            }
            if exp["ty"] != json!([0x8003]) {
                return (2, Some("C15/parse_srt_nak/decodes-a-frame-of-another-type".into()));
            }
            if exp["nak_wf"] == json!(true) {
                return (2, Some("C15/parse_srt_nak/wellformed-list-differs".into()));
            }
            sev = 1;
        }
        (sev, None)
    }

    // ---------------------------------------------------------------- generator

    fn word(&self, rng: &mut StdRng) -> u32 {
        const B: [u32; 16] = [
            0, 1, 998, 999, 1000, 0xffff, 0x1_0000, 0x1_0001, 0x7fff_fffe, 0x7fff_ffff, 0x8000_0000, 0x8000_0001,
            0x8000_ffff, 0x8000_03e7, 0xffff_fffe, 0xffff_ffff,
        ];
        match rng.random_range(0..10) {
            0..=4 => B[rng.random_range(0..B.len())],
            5 => rng.random_range(0..5000),
            6 => 0x8000_0000 | rng.random_range(0..5000),
            7 => rng.random_range(0x7fff_f000..=0x7fff_ffffu32),
            _ => rng.random(),
        }
    }

    fn explicit(b: Vec<u8>) -> Value {
        json!({"ev": "Dec", "head": b, "pat": [], "reps": 0, "tail": []})
    }

    /// One frame of the sweep: length `len` of type `ti`, as a truncation of
    /// header ++ pattern^k.
    fn sweep(&mut self, idx: u64) -> Value {
        let ti = (idx % 8) as usize;
        let len = ((idx / 8) % 1501) as usize;
        let h = mix(self.seed ^ idx.wrapping_mul(0x9e37));
        let hb = h.to_be_bytes();
        let header: Vec<u8> = match ti {
            0 => vec![0x80, 0x03, 0, 0],
            1 => vec![0x91, 0x00, 0, 0],
            2 => {
                let mut v = vec![0x80, 0x02, 0, 0];
                v.extend_from_slice(&hb);
                v.extend_from_slice(&hb[..4]);
                v
            }
            3 => {
                let mut v = vec![0x90, 0x00];
                v.extend_from_slice(&hb);
                let (m, ver): ([u8; 2], [u8; 2]) = match h % 5 {
                    0 => ([0xc0, 0x1e], [0, 1]),
                    1 => ([0xc0, 0x1f], [1, 1]),
                    _ => ([0xc0, 0x1f], [0, 1]),
                };
                v.extend_from_slice(&m);
                v.extend_from_slice(&ver);
                v
            }
            4 => vec![0x92, 0x00],
            5 => vec![0x92, 0x01],
            6 => vec![0x92, 0x02],
            _ => {
                let seq = (h as u32) & 0x7fff_ffff;
                let mut v = seq.to_be_bytes().to_vec();
                v.extend_from_slice(&[match h % 3 { 0 => 0x04, 1 => 0xfb, _ => hb[7] }, 0, 0, 1]);
                v
            }
        };
        let s = (h >> 8) as u32 & 0x7fff_ffff;
        let pat: Vec<u8> = match (h >> 40) % 7 {
            0 => ((h >> 16) as u32 & 0xffff).to_be_bytes().to_vec(),
            1 => {
                let s = s & 0x7fff_fff0;
                let mut v = (s | 0x8000_0000).to_be_bytes().to_vec();
                v.extend_from_slice(&(s + (h % 6) as u32).to_be_bytes());
                v
            }
            2 => vec![0xff; 4],
            3 => (h as u32).to_be_bytes().to_vec(),
            4 => vec![0x80, 0, 0, 0, 0xff, 0xff, 0xff, 0xff],
            5 => {
                let s = s & 0x0fff_ffff;
                let mut v = (s | 0x8000_0000).to_be_bytes().to_vec();
                v.extend_from_slice(&(s + 299).to_be_bytes());
                v
            }
            _ => vec![0, 0, 0, 7],
        };
        let hl = header.len().min(len);
        let rem = len - hl;
        self.bump("sweep_frames");
        json!({"ev": "Dec", "head": header[..hl], "pat": pat, "reps": rem / pat.len(), "tail": pat[..rem % pat.len()]})
    }

    fn valid_frame(&self, rng: &mut StdRng) -> Vec<u8> {
        match rng.random_range(0..7) {
            0 => {
                // NAK loss list
                let mut f = vec![0x80, 0x03, 0, 0];
                for _ in 0..rng.random_range(0..=14) {
                    f.extend_from_slice(&self.word(rng).to_be_bytes());
                }
                f
            }
            1 => {
                // well-formed NAK: singles and small ranges
                let mut f = vec![0x80, 0x03, 0, 0];
                for _ in 0..rng.random_range(1..=6) {
                    let s: u32 = rng.random_range(0..0x7fff_0000);
                    if rng.random_range(0..2) == 0 {
                        f.extend_from_slice(&s.to_be_bytes());
                    } else {
                        f.extend_from_slice(&(s | 0x8000_0000).to_be_bytes());
                        f.extend_from_slice(&(s + rng.random_range(0..40)).to_be_bytes());
                    }
                }
                f
            }
            2 => {
                let ws: Vec<u32> = (0..rng.random_range(0..=15)).map(|_| self.word(rng)).collect();
                create_ack_packet(&ws).iter().copied().collect()
            }
            3 => {
                let mut f = vec![0u8; rng.random_range(20..=48)];
                f[0] = 0x80;
                f[1] = 0x02;
                for x in f.iter_mut().skip(2) {
                    *x = rng.random();
                }
                let w = self.word(rng);
                f[16..20].copy_from_slice(&w.to_be_bytes());
                f
            }
            4 => create_keepalive_packet(rng.random()).to_vec(),
            5 => {
                let info = ConnectionInfo {
                    conn_id: self.word(rng),
                    window: self.word(rng) as i32,
                    in_flight: self.word(rng) as i32,
                    rtt_ms: self.word(rng),
                    nak_count: self.word(rng),
                    bitrate_bytes_per_sec: self.word(rng),
                };
                create_keepalive_packet_ext(info, rng.random()).to_vec()
            }
            _ => {
                let mut f = vec![0u8; rng.random_range(8..=64)];
                for x in f.iter_mut() {
                    *x = rng.random();
                }
                f[0] &= 0x7f;
                if rng.random_range(0..2) == 0 {
                    f[4] |= 0x04;
                } else {
                    f[4] &= !0x04;
                }
                f
            }
        }
    }
}

impl Engine for CodecEngine {
    fn reset(&mut self, _cfg: &Value, case_key: u64) {
        self.key = case_key;
    }

    fn apply(&mut self, ev: &Value) -> Value {
        match gets(ev, "ev") {
            "Init" => json!({}),
            "Dec" => {
                if self.recording {
                    let b = frame_of(ev);
                    self.dec_record(&b, false)
                } else {
                    self.dec_replay(ev)
                }
            }
            "Sum" => {
                let b = std::mem::take(&mut self.pending);
                self.bump("long_random_frames");
                self.dec_record(&b, true)
            }
            "Build" => {
                let mut o = self.build(ev);
                if self.recording {
                    o.as_object_mut().unwrap().remove("rt_ref");
                }
                o
            }
            other => panic!("unknown event {other}"),
        }
    }

    fn gen_cfg(&mut self, rng: &mut StdRng) -> Value {
        if !self.recording {
            self.recording = true;
            self.seed = rng.random();
        }
        json!({})
    }

    fn gen_event(&mut self, rng: &mut StdRng) -> Option<Value> {
        let n = self.n;
        self.n += 1;
        if n % 2 == 0 {
            return Some(self.sweep(n / 2));
        }
        let r = rng.random_range(0..100);
        Some(if r < 12 {
            // random bytes, short
            let len = if rng.random_range(0..3) == 0 { rng.random_range(0..=8) } else { rng.random_range(0..=64) };
            Self::explicit((0..len).map(|_| rng.random()).collect())
        } else if r < 45 {
            // a valid frame, as is or with trailing garbage / truncated / one byte changed / retyped
            let mut f = self.valid_frame(rng);
            match rng.random_range(0..8) {
                0 | 1 => {}
                2 | 3 => {
                    for _ in 0..rng.random_range(1..=5) {
                        f.push(rng.random());
                    }
                }
                4 | 5 => {
                    let k = rng.random_range(0..=f.len());
                    f.truncate(k);
                }
                6 => {
                    if !f.is_empty() {
                        let k = rng.random_range(0..f.len());
                        f[k] ^= 1 << rng.random_range(0..8);
                    }
                }
                _ => {
                    if f.len() >= 2 {
                        let t: [u16; 8] = [0x8002, 0x8003, 0x9000, 0x9100, 0x9200, 0x9201, 0x9202, 0x0000];
                        let t = t[rng.random_range(0..8)];
                        f[0] = (t >> 8) as u8;
                        f[1] = t as u8;
                    }
                }
            }
            Self::explicit(f)
        } else if r < 60 {
            // NAK built from boundary words, optional partial tail
            let mut f = vec![0x80, 0x03, rng.random(), rng.random()];
            for _ in 0..rng.random_range(0..=10) {
                f.extend_from_slice(&self.word(rng).to_be_bytes());
            }
            for _ in 0..rng.random_range(0..4) {
                f.push(0x80);
            }
            Self::explicit(f)
        } else if r < 66 {
            // REG frames at and around 258 bytes
            let len = [2usize, 3, 257, 258, 259][rng.random_range(0..5)];
            let mut f: Vec<u8> = (0..len).map(|_| rng.random()).collect();
            f[0] = 0x92;
            f[1] = rng.random_range(0..4);
            Self::explicit(f)
        } else if r < 84 {
            // a long frame with a typed prefix and random content: summary only
            let len = rng.random_range(65..=1500usize);
            let mut f: Vec<u8> = (0..len).map(|_| rng.random()).collect();
            let t: [u16; 6] = [0x8002, 0x8003, 0x9000, 0x9100, 0x9200, 0x0000];
            let t = t[rng.random_range(0..6)];
            f[0] = (t >> 8) as u8 | if t == 0 { f[0] & 0x7f } else { 0 };
            f[1] = t as u8;
            if t == 0x9000 && rng.random_range(0..2) == 0 {
                f[10..14].copy_from_slice(&[0xc0, 0x1f, 0, 1]);
            }
            if t == 0x8003 && rng.random_range(0..2) == 0 {
                // mostly singles, a few ranges: long lists below the cap
                for i in (4..len.saturating_sub(3)).step_by(4) {
                    if rng.random_range(0..8) != 0 {
                        f[i] &= 0x7f;
                    }
                }
            }
            let pre: Vec<u8> = f[..40].to_vec();
            self.pending = f;
            json!({"ev": "Sum", "len": len, "pre": pre})
        } else {
            // builders
            match rng.random_range(0..5) {
                0 | 1 => {
                    let id: Vec<u8> = (0..SRTLA_ID_LEN).map(|_| rng.random()).collect();
                    json!({"ev": "Build", "what": if rng.random_range(0..2) == 0 { "reg1" } else { "reg2" }, "b": id,
                           "ws": [], "ts": [0, 0, 0, 0], "info": []})
                }
                2 => {
                    let k = if rng.random_range(0..6) == 0 { rng.random_range(16..=374) } else { rng.random_range(0..=16) };
                    let ws: Vec<Value> = (0..k).map(|_| pair(self.word(rng))).collect();
                    json!({"ev": "Build", "what": "ack", "b": [], "ws": ws, "ts": [0, 0, 0, 0], "info": []})
                }
                3 => json!({"ev": "Build", "what": "ka", "b": [], "ws": [], "ts": limbs(rng.random()), "info": []}),
                _ => {
                    let info: Vec<Value> = (0..6).map(|_| pair(self.word(rng))).collect();
                    json!({"ev": "Build", "what": "kaext", "b": [], "ws": [], "ts": limbs(rng.random()), "info": info})
                }
            }
        })
    }

    fn matches(&self, exp: &Value, got: &Value) -> bool {
        exp == got
    }

    fn judge(&self, ev: &Value, exp: &Value, got: &Value) -> u8 {
        self.verdict(ev, exp, got).0
    }

    fn finding_key(&self, ev: &Value, exp: &Value, got: &Value) -> Option<String> {
        // called exactly once per replayed case, before judge: the place to count what the case exercises
        if ev["ev"] == "Dec" {
            self.count(&frame_of(ev), &Features::of_expected(exp));
        }
        self.verdict(ev, exp, got).1
    }

    fn counters(&self) -> Value {
        json!(*self.c.borrow())
    }
}
