//! C11 (histories): the enhanced selector driven over seeded timed histories
//! of 2..4 real links -- NAKs and NAK bursts, RTT samples, load / window
//! changes, CC targets vs measured rate, classifier flags, phases, silence,
//! connection age across the 30 s grace boundary -- with the selector's answer
//! fed back as `last_idx` the way the packet path does.
//!
//! Every `Select` line carries, per link, the inputs of the decision as the
//! code exposes them after the call, the factors of the score and the state of
//! the 50 ms quality cache; Trace_Selection.tla decides skip / gate
//! precedence, argmax, hysteresis, stability, factor ranges and the cache
//! contract from them.  record only.

use rand::Rng;
use rand::rngs::StdRng;
use serde_json::{Value, json};
use srtla_core::config_snapshot::ConfigSnapshot;
use srtla_core::connection::{LinkPhase, SrtlaConnection};
use srtla_core::mode::SchedulingMode;
use srtla_core::selection::enhanced::in_flight_cap_exceeded;
use srtla_core::selection::{calculate_quality_multiplier, select_connection_idx};

use crate::engine::Engine;
use crate::util::{T0, getb, geti, gets, live_conn};

pub struct SelHistEngine {
    conns: Vec<SrtlaConnection>,
    silenced: Vec<bool>,
    base_t: u64,
    now: u64,
    quality: bool,
    guard: bool,
    last: Option<usize>,
    prev_dec: Option<usize>,
    prev_sel_t: u64,
    next_seq: i32,
    // counters
    c_select: u64,
    c_hold: u64,
    c_switch: u64,
    c_last_skipped: u64,
    c_cache_hit: u64,
    c_cache_refresh: u64,
    c_gated_pen: u64,
    c_capx: u64,
    c_post_grace_nak: u64,
    c_burst_pen: u64,
    c_again: u64,
    c_warm: u64,
    c_softcap: u64,
}

impl SelHistEngine {
    pub fn new() -> Self {
        Self {
            conns: Vec::new(), silenced: Vec::new(), base_t: T0, now: T0, quality: true, guard: false, last: None,
            prev_dec: None, prev_sel_t: 0, next_seq: 1000,
            c_select: 0, c_hold: 0, c_switch: 0, c_last_skipped: 0, c_cache_hit: 0, c_cache_refresh: 0,
            c_gated_pen: 0, c_capx: 0, c_post_grace_nak: 0, c_burst_pen: 0, c_again: 0, c_warm: 0, c_softcap: 0,
        }
    }

    fn snap(&self) -> ConfigSnapshot {
        ConfigSnapshot {
            mode: SchedulingMode::Enhanced,
            quality_enabled: self.quality,
            stall_deselect: self.guard,
            stall_min_in_flight: 32,
            stall_ack_stale_ms: 3000,
            conn_timeout_ms: 5000,
        }
    }

    fn rel(&self, abs: u64) -> i64 {
        if abs == 0 { -1 } else { abs as i64 - self.base_t as i64 }
    }

    /// the documented soft-cap factor, recomputed here from the link's published target and measured rate
    fn soft_cap(c: &SrtlaConnection) -> f64 {
        let cap = c.cc_target_bps;
        let measured = c.bitrate.current_bitrate_bps;
        if cap == 0 || measured <= 0.0 {
            return 1.0;
        }
        let capf = cap as f64;
        ((capf - measured).max(0.0) / capf).clamp(0.10, 1.0)
    }

    fn set_load(c: &mut SrtlaConnection, n: i32, now: u64) {
        c.packet_log.clear();
        for s in 0..n.min(400) {
            c.packet_log.insert(9_000_000 + s, now);
        }
        c.in_flight_packets = n;
    }

    fn phase_name(p: LinkPhase) -> &'static str {
        match p {
            LinkPhase::Registering => "Reg",
            LinkPhase::Warming { .. } => "Warm",
            LinkPhase::Live => "Live",
            LinkPhase::Degraded => "Deg",
        }
    }

    fn select(&mut self, last: Option<usize>, again: bool) -> Value {
        let now = self.now;
        let snap = self.snap();
        let pre_cache: Vec<u64> = self.conns.iter().map(|c| c.verif_view().quality_last_calculated_ms).collect();
        let dec = select_connection_idx(&mut self.conns, last, now, &snap);
        let mut links = Vec::new();
        let mut any_gated_pen = false;
        for (k, c) in self.conns.iter().enumerate() {
            let v = c.verif_view();
            let q_used = v.quality_multiplier;
            let q_true = calculate_quality_multiplier(c, now);
            let cf = Self::soft_cap(c);
            let base = c.get_score();
            let pw = c.phase_weight();
            let raw = base as f64 * pw * if self.quality { q_used } else { 1.0 } * cf;
            let fin = q_used.is_finite() && q_true.is_finite() && cf.is_finite() && raw.is_finite();
            let nak_age = c.time_since_last_nak_ms(now).map(|a| a.min(2_000_000_000) as i64).unwrap_or(-1);
            let age = now.saturating_sub(c.connection_established_ms()).min(2_000_000_000);
            let rtt_min_us = {
                let r = c.get_rtt_min_ms();
                if r.is_finite() && r > 0.0 { (r * 1000.0).round().min(2.0e9) as i64 } else { -1 }
            };
            if v.quality_last_calculated_ms == now && pre_cache[k] != now { self.c_cache_refresh += 1; }
            if v.quality_last_calculated_ms != now && v.quality_last_calculated_ms != 0 { self.c_cache_hit += 1; }
            if age >= 30_000 && nak_age >= 0 && nak_age < 8000 { self.c_post_grace_nak += 1; }
            if age >= 30_000 && nak_age >= 0 && nak_age < 3000 && c.nak_burst_count() >= 5 { self.c_burst_pen += 1; }
            if matches!(c.phase, LinkPhase::Warming { .. }) { self.c_warm += 1; }
            if cf < 1.0 { self.c_softcap += 1; }
            if c.weak || c.loss_degraded { any_gated_pen = true; }
            links.push(json!({
                "conn": c.connected,
                "to": c.is_timed_out(now),
                "sched": c.is_schedulable(),
                "sg": c.stall_gated,
                "wk": c.weak || c.loss_degraded,
                "capx": in_flight_cap_exceeded(c),
                "phase": Self::phase_name(c.phase),
                "pw5": (pw * 5.0).round() as i64,
                "base": base,
                "qu": (q_used * 1000.0).round() as i64,
                "qt": (q_true * 1000.0).round() as i64,
                "qcalc": self.rel(v.quality_last_calculated_ms),
                "c": (cf * 1000.0).round() as i64,
                "raw": (raw * 1000.0).round() as i64,
                "fin": fin,
                // inputs of the quality formula and of the in-flight cap
                "age": age,
                "naks": c.total_nak_count(),
                "nakAge": nak_age,
                "burst": c.nak_burst_count(),
                "srttUs": (c.get_smooth_rtt_ms() * 1000.0).round().clamp(-1.0, 2.0e9) as i64,
                "rttMinUs": rtt_min_us,
                "tgtKbps": (c.cc_target_bps / 1000) as i64,
                "tgtExact": c.cc_target_bps % 1000 == 0,
                "measKbps": (c.bitrate.current_bitrate_bps / 1000.0).round() as i64,
                "infl": c.in_flight_packets,
            }));
        }
        self.c_select += 1;
        if again { self.c_again += 1; }
        if let Some(l) = last {
            let skipped = {
                let c = &self.conns[l];
                c.is_timed_out(now) || !c.is_schedulable() || c.stall_gated
            };
            if skipped { self.c_last_skipped += 1; }
            else if dec == Some(l) { self.c_hold += 1; }
            else { self.c_switch += 1; }
        }
        if any_gated_pen { self.c_gated_pen += 1; }
        if self.conns.iter().any(in_flight_cap_exceeded) { self.c_capx += 1; }
        self.prev_dec = dec;
        self.prev_sel_t = now;
        self.last = dec;
        json!({
            "t": self.rel(now),
            "quality": self.quality,
            "guard": self.guard,
            "last": last.map(|i| i as i64 + 1).unwrap_or(0),
            "dec": dec.map(|i| i as i64 + 1).unwrap_or(0),
            "again": again,
            "links": links,
        })
    }
}

impl Engine for SelHistEngine {
    fn reset(&mut self, cfg: &Value, _case_key: u64) {
        let n = cfg.get("n").and_then(Value::as_u64).unwrap_or(2) as usize;
        self.quality = cfg.get("quality").and_then(Value::as_bool).unwrap_or(true);
        self.guard = cfg.get("guard").and_then(Value::as_bool).unwrap_or(false);
        self.base_t = T0 + 400_000;
        self.now = T0 + 500_000;
        let now = self.now;
        self.conns = (0..n).map(|i| live_conn(i, now - 60_000)).collect();
        for c in self.conns.iter_mut() {
            c.last_received = Some(now);
        }
        self.silenced = vec![false; n];
        self.last = None;
        self.prev_dec = None;
        self.prev_sel_t = 0;
        self.next_seq = 1000;
    }

    fn apply(&mut self, ev: &Value) -> Value {
        srtla_core::verif::set_clock(Some(self.now));
        let now = self.now;
        let name = gets(ev, "ev").to_string();
        let l = ev.get("l").and_then(Value::as_u64).map(|x| x as usize - 1).unwrap_or(0);
        match name.as_str() {
            "Init" => return json!({"n": self.conns.len(), "quality": self.quality, "guard": self.guard}),
            "Advance" => {
                self.now += geti(ev, "d") as u64;
                let t = self.now;
                for (k, c) in self.conns.iter_mut().enumerate() {
                    if !self.silenced[k] && c.connected {
                        c.last_received = Some(t);
                        c.last_ack_or_rtt_sample_ms = t;
                    }
                }
            }
            "Select" => {
                let last = match gets(ev, "use") {
                    "none" => None,
                    "prev" => self.last,
                    _ => Some((geti(ev, "k") as usize - 1).min(self.conns.len() - 1)),
                };
                return self.select(last, false);
            }
            "SelectAgain" => {
                // the same state, the same instant, the previous answer as last_idx
                if self.prev_sel_t != now || self.prev_dec.is_none() {
                    let last = self.last;
                    let mut o = self.select(last, false);
                    o["ev"] = json!("Select");
                    return json!({"_lines": [o]});
                }
                let mut o = self.select(self.prev_dec, true);
                o["ev"] = json!("Select");
                return json!({"_lines": [o]});
            }
            "Nak" => {
                let k = geti(ev, "k").max(1);
                for _ in 0..k {
                    let s = self.next_seq;
                    self.next_seq += 1;
                    self.conns[l].register_packet(s, now);
                    self.conns[l].handle_nak(s, now);
                }
            }
            "Rtt" => {
                let r = geti(ev, "rtt") as u64;
                self.conns[l].rtt.update_estimate(r, now);
            }
            "Load" => Self::set_load(&mut self.conns[l], geti(ev, "n") as i32, now),
            "Window" => self.conns[l].window = geti(ev, "w") as i32,
            "Cc" => {
                let kbps = geti(ev, "kbps") as u64;
                self.conns[l].cc_target_bps = kbps * 1000;
                self.conns[l].bitrate.current_bitrate_bps = (kbps * 1000) as f64 * geti(ev, "pct") as f64 / 100.0;
            }
            "Flags" => {
                self.conns[l].weak = getb(ev, "weak");
                self.conns[l].loss_degraded = getb(ev, "lossdeg");
            }
            "Phase" => {
                self.conns[l].phase = match gets(ev, "p") {
                    "Reg" => LinkPhase::Registering,
                    "Warm" => LinkPhase::Warming { rtt_probes: 0, entered_ms: now },
                    "Deg" => LinkPhase::Degraded,
                    _ => LinkPhase::Live,
                };
            }
            "Silence" => {
                self.silenced[l] = true;
                self.conns[l].last_received = Some(now.saturating_sub(70_000));
            }
            "Recv" => {
                self.silenced[l] = false;
                self.conns[l].last_received = Some(now);
            }
            "Establish" => {
                self.conns[l].reconnection.connection_established_ms = now - geti(ev, "age") as u64;
            }
            "Reg3" => {
                self.conns[l].clear_pre_registration_state(now);
                self.conns[l].connected = true;
                self.conns[l].last_received = Some(now);
                self.silenced[l] = false;
            }
            other => panic!("unknown event {other}"),
        }
        // the state changed: the next decision is not a re-run of the previous one
        self.prev_sel_t = 0;
        json!({"t": self.rel(self.now)})
    }

    fn gen_cfg(&mut self, rng: &mut StdRng) -> Value {
        json!({
            "n": rng.random_range(2..=4),
            "quality": rng.random_range(0..8) != 0,
            "guard": rng.random_range(0..4) == 0,
        })
    }

    fn gen_event(&mut self, rng: &mut StdRng) -> Option<Value> {
        let n = self.conns.len() as u64;
        let l = rng.random_range(1..=n);
        let r = rng.random_range(0..100);
        Some(if r < 36 {
            match rng.random_range(0..12) {
                0 => json!({"ev": "Select", "use": "none"}),
                1 => json!({"ev": "Select", "use": "idx", "k": rng.random_range(1..=n)}),
                _ => json!({"ev": "Select", "use": "prev"}),
            }
        } else if r < 42 {
            json!({"ev": "SelectAgain"})
        } else if r < 64 {
            let d = match rng.random_range(0..16) {
                0 => rng.random_range(45..56),
                1 => rng.random_range(100..600),
                2 => rng.random_range(1900..2100),
                3 => rng.random_range(2950..3050),
                4 => rng.random_range(600..9000),
                5 => rng.random_range(25..50),
                _ => rng.random_range(1..16),
            };
            json!({"ev": "Advance", "d": d})
        } else if r < 72 {
            json!({"ev": "Nak", "l": l, "k": 1})
        } else if r < 75 {
            json!({"ev": "Nak", "l": l, "k": rng.random_range(3..8)})
        } else if r < 80 {
            let rtt = match rng.random_range(0..5) {
                0 => rng.random_range(20..60),
                1 => rng.random_range(100..190),
                2 => rng.random_range(190..212),
                3 => rng.random_range(300..2000),
                _ => rng.random_range(20..400),
            };
            json!({"ev": "Rtt", "l": l, "rtt": rtt})
        } else if r < 87 {
            let nfl = match rng.random_range(0..5) {
                0 => 0,
                1 => rng.random_range(1..10),
                2 => rng.random_range(10..60),
                3 => rng.random_range(60..400),
                _ => rng.random_range(0..30),
            };
            json!({"ev": "Load", "l": l, "n": nfl})
        } else if r < 90 {
            let w = match rng.random_range(0..4) {
                0 => 1000,
                1 => 60_000,
                _ => rng.random_range(1000..60_000),
            };
            json!({"ev": "Window", "l": l, "w": w})
        } else if r < 94 {
            let kbps = match rng.random_range(0..5) {
                0 => 0,
                1 => rng.random_range(100..1000),
                _ => rng.random_range(1000..20_000),
            };
            let pct = [0, 40, 80, 90, 95, 100, 130][rng.random_range(0..7)];
            json!({"ev": "Cc", "l": l, "kbps": kbps, "pct": pct})
        } else if r < 96 {
            json!({"ev": "Flags", "l": l, "weak": rng.random_range(0..2) == 0, "lossdeg": rng.random_range(0..3) == 0})
        } else if r < 97 {
            let p = ["Warm", "Live", "Deg", "Live", "Warm", "Reg"][rng.random_range(0..6)];
            json!({"ev": "Phase", "l": l, "p": p})
        } else if r < 98 {
            if rng.random_range(0..2) == 0 { json!({"ev": "Silence", "l": l}) } else { json!({"ev": "Recv", "l": l}) }
        } else if r < 99 {
            let age = match rng.random_range(0..4) {
                0 => rng.random_range(0..100),
                1 => rng.random_range(29_900..30_000),
                2 => rng.random_range(30_000..30_100),
                _ => 60_000,
            };
            json!({"ev": "Establish", "l": l, "age": age})
        } else {
            json!({"ev": "Reg3", "l": l})
        })
    }

    fn counters(&self) -> Value {
        json!({
            "selects": self.c_select, "held_last": self.c_hold, "left_last": self.c_switch,
            "last_skipped": self.c_last_skipped, "cache_hit": self.c_cache_hit,
            "cache_refresh": self.c_cache_refresh, "quality_gated_present": self.c_gated_pen,
            "cap_exceeded_present": self.c_capx, "post_grace_nak_decay": self.c_post_grace_nak,
            "burst_penalty": self.c_burst_pen, "rerun_same_state": self.c_again, "warming_links": self.c_warm,
            "soft_cap_active": self.c_softcap,
        })
    }
}
