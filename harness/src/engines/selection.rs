//! C03 / C04 / C10 / C11 / C12 engine: materialises an abstract selector input
//! vector as real `SrtlaConnection`s and calls the real
//! `select_connection_idx` (event "Select") and the real shell entry point
//! `handle_srt_packet` (routing incl. the best-path override, event kinds
//! data / rexmit / ctrl with the critical window open or closed).
//!
//! Abstract bits are expanded into concrete variants chosen by the per-case
//! key: latched -> {latched, pulled, both}, weak -> {weak, loss_degraded,
//! both}, the several ways a link can be (not) timed out, Live vs Degraded.

use rand::Rng;
use rand::rngs::StdRng;
use serde_json::{Value, json};
use srtla_core::config_snapshot::ConfigSnapshot;
use srtla_core::connection::{LinkPhase, RttTracker, SrtlaConnection};
use srtla_core::mode::SchedulingMode;
use srtla_core::priority::CriticalWindow;
use srtla_core::selection::select_connection_idx;
use srtla_send::sender::verif_hooks::{ConnIoMap, SequenceTracker, handle_srt_packet};

use crate::engine::Engine;
use crate::util::{T0, getb, geti, gets, live_conn, mix, rt, srt_data};

pub struct SelectionEngine {
    rt: tokio::runtime::Runtime,
    key: u64,
    n: u64,
    timeout_ms: u64,
    focus: String,
    c_none: u64,
    c_gated: u64,
    c_hyst_hold: u64,
    c_override: u64,
    c_capskip: u64,
    c_guard_off_clear: u64,
}


impl SelectionEngine {
    pub fn new() -> Self {
        Self { rt: rt(), key: 0, n: 0, timeout_ms: 5000, focus: "all".into(), c_none: 0, c_gated: 0, c_hyst_hold: 0, c_override: 0, c_capskip: 0, c_guard_off_clear: 0 }
    }

    fn pick(&mut self, n: u64) -> u64 {
        self.n += 1;
        mix(self.key ^ self.n.wrapping_mul(0x9e37)) % n
    }

    /// Build one real link from an abstract record.
    fn materialise(&mut self, i: usize, k: &Value, now: u64, cfg: &Value, qden: f64, cden: f64) -> SrtlaConnection {
        let mut c = live_conn(i, now - 60_000);
        c.conn_id = 0x2000 + i as u64;
        // --- phase
        c.phase = match gets(k, "phase") {
            "Reg" => LinkPhase::Registering,
            "Warm" => LinkPhase::Warming { rtt_probes: self.pick(2) as u32, entered_ms: now - 100 },
            "Deg" => LinkPhase::Degraded,
            _ => if self.pick(4) == 0 { LinkPhase::Degraded } else { LinkPhase::Live },
        };
        // --- connected / timed out
        let conn = getb(k, "conn");
        let to = getb(k, "to");
        let held = getb(k, "latched") || getb(k, "pulled");
        c.connected = conn;
        // age of the last received byte; a held (pulled) link must have been silent >= 250 ms
        let fresh_age = if held { 400 + self.pick(600) } else { self.pick(200) };
        // a link that is not timed out may be silent for anything up to just under the configured timeout
        let fresh_age = if !to && self.pick(3) == 0 { (self.timeout_ms - 1 - self.pick(40)).max(fresh_age) } else { fresh_age };
        if conn {
            c.reconnection.connection_established_ms = now - 60_000;
            c.last_received = Some(if to { now - self.timeout_ms - self.pick(3) * 1000 } else { now - fresh_age });
        } else {
            match (to, self.pick(3)) {
                (false, 0) if !held => {
                    // never established, still inside the start-up grace
                    c.reconnection.connection_established_ms = 0;
                    c.reconnection.startup_grace_deadline_ms = now + 1 + self.pick(4000);
                    c.last_received = None;
                }
                (false, _) => {
                    // REG_ERR earlier, then some other datagram: disconnected but heard recently
                    c.reconnection.connection_established_ms = now - 60_000;
                    c.last_received = Some(now - fresh_age);
                }
                (true, 0) => {
                    c.reconnection.connection_established_ms = 0;
                    c.reconnection.startup_grace_deadline_ms = now - self.pick(2);
                    c.last_received = None;
                }
                (true, 1) => {
                    c.reconnection.connection_established_ms = now - 60_000;
                    c.last_received = None;
                }
                (true, _) => {
                    c.reconnection.connection_established_ms = now - 60_000;
                    c.last_received = Some(now - self.timeout_ms);
                }
            }
        }
        // the mirrored timeout the link carries from an earlier pass is stale
        c.verif_set_conn_timeout_ms([1000u64, 5000, 60_000][self.pick(3) as usize]);
        // --- in-flight level / cap
        let capx = getb(k, "capx");
        let base = geti(k, "base") as i32;
        let cmul = geti(k, "c") as f64 / cden;
        // a link under its cap may still hold a batch that would take it over: queued packets count towards the
        // score (get_score) but not towards the cap
        let near_cap = !capx && self.pick(4) == 0;
        let infl: i32 = if capx { 29 + self.pick(40) as i32 } else if near_cap { 20 + self.pick(9) as i32 } else { self.pick(20) as i32 };
        let queued: i32 = if near_cap { 29 - infl + self.pick(8) as i32 } else { 0 };
        c.in_flight_packets = infl;
        for s in 0..infl {
            c.packet_log.insert(5_000_000 + s, now - 10);
        }
        for s in 0..queued {
            c.batch_sender.queue_packet(&[0u8; 32], Some(6_000_000 + s as u32), now);
        }
        c.window = base * (infl + queued + 1) + (self.pick((infl + queued) as u64 + 1) as i32).min(infl + queued);
        if capx || near_cap {
            // cap = floor(1e6 * 0.2 / 8 * 1.5 / 1316) = 28 < in-flight
            c.cc_target_bps = 1_000_000;
            c.bitrate.current_bitrate_bps = (1.0 - cmul) * 1_000_000.0;
            if cmul >= 1.0 {
                c.bitrate.current_bitrate_bps = 0.0;
            }
        } else if cmul < 1.0 {
            c.cc_target_bps = 10_000_000; // cap 284 packets: not exceeded
            c.bitrate.current_bitrate_bps = (1.0 - cmul) * 10_000_000.0;
            if (cmul - 0.1).abs() < 1e-9 && self.pick(2) == 0 {
                c.bitrate.current_bitrate_bps = 9_900_000.0; // clamps to the 0.1 floor
            }
        } else {
            c.cc_target_bps = if self.pick(2) == 0 { 0 } else { 10_000_000 };
            c.bitrate.current_bitrate_bps = 0.0;
        }
        // --- quality gates
        if getb(k, "weak") || getb(k, "lossdeg") {
            match self.pick(3) {
                0 => c.weak = true,
                1 => c.loss_degraded = true,
                _ => {
                    c.weak = true;
                    c.loss_degraded = true;
                }
            }
        }
        // --- quality multiplier: a fresh cache entry is used as is
        let q = geti(k, "q") as f64 / qden;
        let qc = geti(k, "qc") as f64 / qden;
        let quality_on = getb(cfg, "quality") && !getb(cfg, "classic");
        if quality_on {
            c.verif_set_quality_cache(q, now - self.pick(49));
        } else {
            c.verif_set_quality_cache(qc, now - 10_000);
        }
        // the gate flag left by an earlier pass is arbitrary: it is recomputed by every call
        c.stall_gated = self.pick(2) == 0;
        // --- stall history: the state AFTER this call's update must be `held`
        c.rtt = RttTracker::default();
        c.last_ack_or_rtt_sample_ms = 0; // no proof: never stalled, pull never escalates
        if held && conn {
            let variant = if getb(k, "latched") && getb(k, "pulled") { 2 } else if getb(k, "pulled") { 1 } else { self.pick(3) };
            match variant {
                0 => {
                    // latched, proof stale: stays latched
                    c.last_ack_or_rtt_sample_ms = now - 10_000;
                    c.verif_set_stall(now - 5_000, 0, false, self.pick(99) as u32);
                }
                1 => {
                    // pulled only: silent 400..1000 ms with no RTT baseline (window 250 ms)
                    c.verif_set_stall(0, 0, true, 0);
                }
                _ => {
                    c.last_ack_or_rtt_sample_ms = now - 10_000;
                    c.verif_set_stall(now - 5_000, 0, true, 0);
                }
            }
        } else if held {
            // a disconnected link cannot keep a pull (it releases on !connected); latch only
            c.last_ack_or_rtt_sample_ms = now - 10_000;
            c.verif_set_stall(now - 5_000, 0, false, 0);
        }
        c
    }
}

fn cfg_of(cfg: &Value, timeout_ms: u64) -> ConfigSnapshot {
    ConfigSnapshot {
        mode: if getb(cfg, "classic") { SchedulingMode::Classic } else { SchedulingMode::Enhanced },
        quality_enabled: getb(cfg, "quality"),
        stall_deselect: getb(cfg, "guard"),
        stall_min_in_flight: 1_000, // flags come from the stamped history, not from load
        stall_ack_stale_ms: 3_000,
        conn_timeout_ms: timeout_ms,
    }
}

impl Engine for SelectionEngine {
    fn reset(&mut self, _cfg: &Value, case_key: u64) {
        self.key = case_key;
        self.n = 0;
    }

    fn configure(&mut self, args: &[String]) {
        if let Some(i) = args.iter().position(|a| a == "--focus") {
            self.focus = args[i + 1].clone();
        }
    }

    fn apply(&mut self, ev: &Value) -> Value {
        let now = T0 + 500_000;
        srtla_core::verif::set_clock(Some(now));
        let cfg = &ev["cfg"];
        // every timeout setting of the clamped range, with a stale mirrored value on the links
        self.n = 1_000;
        self.timeout_ms = [1000u64, 5000, 5000, 12_000, 60_000][self.pick(5) as usize];
        self.n = 0;
        let snap = cfg_of(cfg, self.timeout_ms);
        let links = ev["links"].as_array().unwrap();
        let qden = ev.get("qden").and_then(Value::as_f64).unwrap_or(100.0);
        let cden = ev.get("cden").and_then(Value::as_f64).unwrap_or(10.0);
        let last = match geti(ev, "last") {
            0 => None,
            k => Some(k as usize - 1),
        };
        let mut conns: Vec<SrtlaConnection> = Vec::new();
        for (i, k) in links.iter().enumerate() {
            let c = self.materialise(i, k, now, cfg, qden, cden);
            conns.push(c);
        }
        // C12a projection before
        let proj = |c: &SrtlaConnection| {
            ((c.connected, c.last_received, c.last_sent, c.window, c.in_flight_packets, c.packet_log.len(),
              c.congestion.nak_count, c.congestion.nak_burst_count, c.congestion.fast_recovery_mode),
             (c.phase, c.reconnection.last_reconnect_attempt_ms, c.reconnection.reconnect_failure_count,
              c.reconnection.connection_established_ms, c.reconnection.startup_grace_deadline_ms,
              c.verif_view().last_keepalive_sent, c.batch_sender.queued_count()))
        };
        let before: Vec<_> = conns.iter().map(proj).collect();
        let dec1 = select_connection_idx(&mut conns, last, now, &snap);
        let after: Vec<_> = conns.iter().map(proj).collect();
        let frame_ok = before == after;
        let gated: Vec<bool> = conns.iter().map(|c| c.is_stall_gated()).collect();
        let held_after: Vec<bool> = conns.iter().map(|c| c.stall_latched() || c.verif_view().silence_pulled).collect();
        // idempotence on the unchanged state, then stability with the result fed back
        let dec2 = select_connection_idx(&mut conns, last, now, &snap);
        let dec3 = select_connection_idx(&mut conns, dec1, now, &snap);
        if dec1.is_none() {
            self.c_none += 1;
        }
        if gated.iter().any(|g| *g) {
            self.c_gated += 1;
        }
        if last.is_some() && dec1 == last {
            self.c_hyst_hold += 1;
        }
        if !snap.stall_deselect && links.iter().any(|k| getb(k, "latched") || getb(k, "pulled")) {
            self.c_guard_off_clear += 1;
        }
        if links.iter().any(|k| getb(k, "capx")) {
            self.c_capskip += 1;
        }
        let enc = |d: Option<usize>| d.map(|i| i as i64 + 1).unwrap_or(0);
        let mut o = json!({
            "dec": enc(dec1), "dec_again": enc(dec2), "dec_fed_back": enc(dec3),
            "gated": gated, "held_after": held_after, "frame_ok": frame_ok,
        });

        // routing through the real shell entry point (fresh copies of the same links)
        if ev.get("kind").is_some() {
            self.n = 0; // same concretisation choices as above
            let mut conns2: Vec<SrtlaConnection> = Vec::new();
            for (i, k) in links.iter().enumerate() {
                let c = self.materialise(i, k, now, cfg, qden, cden);
                conns2.push(c);
            }
            let kind = gets(ev, "kind");
            let crit = getb(ev, "crit");
            let cw = CriticalWindow::new();
            if crit {
                cw.extend_to(now + 50);
            } else if self.pick(2) == 0 {
                cw.extend_to(now); // deadline == now is closed
            }
            let mut pkt = match kind {
                "ctrl" => {
                    let mut p = vec![0u8; 44];
                    p[0] = 0x80;
                    p[1] = 0x02;
                    p[4] = 0x04;
                    p
                }
                "rexmit" => srt_data(777, 1316, true, 0x5a),
                _ => srt_data(777, 1316, false, 0x5a),
            };
            let n = pkt.len();
            let q0: Vec<i32> = conns2.iter().map(|c| c.batch_sender.queued_count()).collect();
            let io = ConnIoMap::new();
            let mut last_sel = last;
            let mut tracker = SequenceTracker::new();
            let mut client = None;
            let src = "127.0.0.1:5555".parse().unwrap();
            self.rt.block_on(async {
                handle_srt_packet(Ok((n, src)), &mut pkt, &mut conns2, &io, &mut last_sel, &mut tracker,
                                  &mut client, true, &snap, &cw).await;
            });
            let grew: Vec<usize> = conns2.iter().enumerate()
                .filter(|(i, c)| c.batch_sender.queued_count() > q0[*i]).map(|(i, _)| i).collect();
            // unique copy = the link recorded as last selected if its queue grew; the others are probes
            let routed = match last_sel {
                Some(i) if grew.contains(&i) => i as i64 + 1,
                _ => 0,
            };
            let probes: Vec<i64> = grew.iter().filter(|i| Some(**i) != last_sel).map(|i| *i as i64 + 1).collect();
            let probes_on_gated_only = probes.iter().all(|p| conns2[*p as usize - 1].is_stall_gated());
            if routed != enc(dec1) && routed != 0 {
                self.c_override += 1;
            }
            o["routed"] = json!(routed);
            o["probes"] = json!(probes);
            o["probes_ok"] = json!(probes_on_gated_only);
            o["tracked"] = json!(tracker.get(777, now).is_some());
        }
        o
    }

    fn matches(&self, exp: &Value, got: &Value) -> bool {
        let inset = |set: &Value, v: &Value| set.as_array().is_some_and(|a| a.iter().any(|x| x.as_i64() == v.as_i64()));
        let f = self.focus.as_str();
        let all = f == "all";
        let elig = |v: &Value| -> bool {
            match v.as_i64() {
                Some(0) | None => true,
                Some(k) => exp["elig"].as_array().is_some_and(|a| a.get(k as usize - 1) == Some(&json!(true))),
            }
        };
        if all || f == "C03" {
            // no blackout: the spec never allows None here => the code must not return it
            if !inset(&exp["allowed"], &json!(0)) && got["dec"].as_i64() == Some(0) {
                return false;
            }
            // the last usable link is never gated
            if let (Some(a), Some(u)) = (got["gated"].as_array(), exp["sole_usable"].as_i64()) {
                if u > 0 && a[u as usize - 1] == json!(true) {
                    return false;
                }
            }
        }
        if all || f == "C04" {
            if !elig(&got["dec"]) {
                return false;
            }
            if let Some(r) = got.get("routed") {
                if !elig(r) || got["probes_ok"] != json!(true) {
                    return false;
                }
                // a probe copy must not displace the tracker record of the unique copy,
                // and an ineligible link gets at most probes
            }
        }
        if all || f == "C10" {
            if exp.get("ref").is_some() && exp["ref_applies"] == json!(true) {
                if got["dec"] != exp["ref"] {
                    return false;
                }
                if let Some(r) = got.get("routed") {
                    if *r != exp["ref"] {
                        return false;
                    }
                }
            }
        }
        if all || f == "C11" {
            if !inset(&exp["allowed"], &got["dec"]) {
                return false;
            }
            // re-running on the unchanged state gives the same answer; fed back it stays
            if got["dec_again"] != got["dec"] {
                return false;
            }
            if got["dec"].as_i64() != Some(0) && got["dec_fed_back"] != got["dec"] {
                return false;
            }
        }
        if all || f == "C12" {
            // selection never touches liveness / accounting state
            if got["frame_ok"] != json!(true) {
                return false;
            }
            if exp["guard"] == json!(false) {
                // guard off: nothing gated, every latch / pull cleared, decision as without history
                let clear = |v: &Value| v.as_array().is_some_and(|a| a.iter().all(|x| x == &json!(false)));
                if !clear(&got["gated"]) || !clear(&got["held_after"]) {
                    return false;
                }
                if !inset(&exp["allowed_nohist"], &got["dec"]) {
                    return false;
                }
            } else if exp["gated"] != got["gated"] {
                return false;
            }
        }
        if all {
            if exp["gated"] != got["gated"] {
                return false;
            }
            if let Some(r) = got.get("routed") {
                if !inset(&exp["routed"], r) {
                    return false;
                }
            }
        }
        true
    }

    fn gen_event(&mut self, _rng: &mut StdRng) -> Option<Value> {
        None
    }

    fn counters(&self) -> Value {
        json!({
            "decision_none": self.c_none,
            "some_link_gated": self.c_gated,
            "stayed_on_last": self.c_hyst_hold,
            "override_changed_route": self.c_override,
            "cap_exceeded_present": self.c_capskip,
            "guard_off_with_history": self.c_guard_off_clear,
        })
    }
}

#[allow(dead_code)]
fn _unused(_r: &mut StdRng) -> u32 {
    _r.random_range(0..2)
}
