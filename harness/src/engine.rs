//! Engine trait and the two generic runners (spec -> impl replay, impl -> spec
//! recording).

use std::io::{BufRead, Write};
use std::panic::{AssertUnwindSafe, catch_unwind};

use rand::SeedableRng;
use rand::rngs::StdRng;
use serde_json::{Value, json};

use crate::util::{json_sub, mix, parse_tlc_line};

pub trait Engine {
    /// Start a fresh run. `case_key` seeds per-case concretisation choices
    /// (sequence-number base, reset flavour, payload bytes ...).
    fn reset(&mut self, cfg: &Value, case_key: u64);
    /// Perform one abstract event on the real code; return the observation.
    fn apply(&mut self, ev: &Value) -> Value;
    /// Produce the next random event for recording (None = end run).
    fn gen_event(&mut self, _rng: &mut StdRng) -> Option<Value> {
        None
    }
    /// Config for a recorded run.
    fn gen_cfg(&mut self, _rng: &mut StdRng) -> Value {
        json!({})
    }
    /// Engine-specific comparison; default: expected is a sub-structure of got.
    fn matches(&self, expected: &Value, got: &Value) -> bool {
        json_sub(expected, got)
    }
    /// Severity of a comparison: 0 = agrees, 1 = MODEL-DRIFT (the code differs
    /// from the code-shaped model on something the property does not state),
    /// 2 = the property itself is broken. Default: every mismatch is a
    /// violation (right whenever the property fixes the value exactly).
    fn judge(&self, _ev: &Value, expected: &Value, got: &Value) -> u8 {
        if self.matches(expected, got) { 0 } else { 2 }
    }
    /// A deviation that matches a specific, separately recorded finding: the
    /// canonical key (the driver decides whether it is listed).
    fn finding_key(&self, _ev: &Value, _expected: &Value, _got: &Value) -> Option<String> {
        None
    }
    /// Extra command-line arguments (e.g. `--focus C03`).
    fn configure(&mut self, _args: &[String]) {}
    /// Counters proving the antecedents were exercised (vacuity guard).
    fn counters(&self) -> Value {
        json!({})
    }
}

pub struct ReplayOpts {
    pub tag: String,
    pub stride: u64,     // replay 1 case in `stride` (seeded)
    pub seed: u64,
    pub max_report: usize,
    pub check_all_steps: bool,
}

/// Read TLC output (or plain ndjson) from `input`; every case is a JSON array
/// of `{e, o}` steps, or an object `{cfg, steps}`.
pub fn replay<E: Engine>(eng: &mut E, input: &mut dyn BufRead, opts: &ReplayOpts) -> Value {
    let mut cases = 0u64;
    let mut emitted = 0u64;
    let mut steps = 0u64;
    let mut mismatches: Vec<Value> = Vec::new();
    let mut n_mismatch = 0u64;
    let mut n_drift = 0u64;
    let mut drifts: Vec<Value> = Vec::new();
    let mut n_panic = 0u64;
    let mut findings: std::collections::BTreeMap<String, Value> = Default::default();
    let mut samples: Vec<Value> = Vec::new();
    let mut line = String::new();
    let mut tlc_tail: Vec<String> = Vec::new();
    loop {
        line.clear();
        match input.read_line(&mut line) {
            Ok(0) => break,
            Ok(_) => {}
            Err(_) => break,
        }
        let case: Value = if line.starts_with("<<\"") {
            match parse_tlc_line(&line, &opts.tag) {
                Some(v) => v,
                None => continue,
            }
        } else if line.starts_with('{') || line.starts_with('[') {
            match serde_json::from_str(line.trim()) {
                Ok(v) => v,
                Err(_) => continue,
            }
        } else {
            // TLC chatter: keep it so the driver can read counts/errors.
            let t = line.trim_end().to_string();
            if !t.is_empty() {
                tlc_tail.push(t);
                if tlc_tail.len() > 400 {
                    tlc_tail.remove(0);
                }
            }
            continue;
        };
        emitted += 1;
        if opts.stride > 1 && mix(emitted ^ opts.seed) % opts.stride != 0 {
            continue;
        }
        let (cfg, steps_v) = match &case {
            Value::Array(a) => (json!({}), a.clone()),
            Value::Object(o) => (
                o.get("cfg").cloned().unwrap_or(json!({})),
                o.get("steps").and_then(Value::as_array).cloned().unwrap_or_default(),
            ),
            _ => continue,
        };
        cases += 1;
        if samples.len() < 3 || (cases % 9973 == 0 && samples.len() < 6) {
            samples.push(case.clone());
        }
        let case_key = mix(emitted.wrapping_mul(31) ^ opts.seed);
        let r = catch_unwind(AssertUnwindSafe(|| eng.reset(&cfg, case_key)));
        if r.is_err() {
            n_panic += 1;
            if mismatches.len() < opts.max_report {
                mismatches.push(json!({"case": case, "step": 0, "panic": "reset"}));
            }
            continue;
        }
        let last = steps_v.len().saturating_sub(1);
        for (i, st) in steps_v.iter().enumerate() {
            let e = &st["e"];
            let o = &st["o"];
            steps += 1;
            let r = catch_unwind(AssertUnwindSafe(|| eng.apply(e)));
            match r {
                Ok(got) => {
                    if opts.check_all_steps || i == last {
                        if let Some(k) = eng.finding_key(e, o, &got) {
                            let ent = findings.entry(k).or_insert_with(|| json!({"count": 0, "first": null}));
                            ent["count"] = json!(ent["count"].as_u64().unwrap() + 1);
                            if ent["first"].is_null() {
                                ent["first"] = json!({"case": case, "step": i, "expected": o, "got": got});
                            }
                            break;
                        }
                        match eng.judge(e, o, &got) {
                            0 => {}
                            1 => {
                                n_drift += 1;
                                if drifts.len() < opts.max_report {
                                    drifts.push(json!({"case": case, "step": i, "expected": o, "got": got}));
                                }
                                break;
                            }
                            _ => {
                                n_mismatch += 1;
                                if mismatches.len() < opts.max_report {
                                    mismatches.push(json!({"case": case, "step": i, "expected": o, "got": got}));
                                }
                                break;
                            }
                        }
                    }
                }
                Err(p) => {
                    n_panic += 1;
                    let msg = p
                        .downcast_ref::<String>()
                        .cloned()
                        .or_else(|| p.downcast_ref::<&str>().map(|s| s.to_string()))
                        .unwrap_or_else(|| "panic".into());
                    if mismatches.len() < opts.max_report {
                        mismatches.push(json!({"case": case, "step": i, "panic": msg}));
                    }
                    break;
                }
            }
        }
    }
    json!({
        "emitted": emitted,
        "cases": cases,
        "steps": steps,
        "mismatch_count": n_mismatch,
        "drift_count": n_drift,
        "drifts": drifts,
        "findings": findings,
        "panic_count": n_panic,
        "mismatches": mismatches,
        "samples": samples,
        "counters": eng.counters(),
        "tlc_tail": tlc_tail,
    })
}

pub struct RecordOpts {
    pub seed: u64,
    pub runs: u64,
    pub steps: u64,
}

/// Drive the real code from the engine's seeded generator; write one ndjson
/// event per step (`Init` lines separate runs). Panics of the code under test
/// are recorded as `{"ev":"Panic"}` events, which no trace spec accepts.
pub fn record<E: Engine>(eng: &mut E, out: &mut dyn Write, opts: &RecordOpts) -> Value {
    let mut rng = StdRng::seed_from_u64(opts.seed);
    let mut events = 0u64;
    let mut panics = 0u64;
    for run in 0..opts.runs {
        let cfg = eng.gen_cfg(&mut rng);
        eng.reset(&cfg, mix(opts.seed ^ run));
        let mut init = json!({"ev": "Init", "run": run});
        if let (Value::Object(i), Value::Object(c)) = (&mut init, &cfg) {
            for (k, v) in c {
                i.insert(k.clone(), v.clone());
            }
        }
        // engines may add their initial observation
        let o0 = eng.apply(&json!({"ev": "Init"}));
        if let (Value::Object(i), Value::Object(o)) = (&mut init, &o0) {
            for (k, v) in o {
                i.insert(k.clone(), v.clone());
            }
        }
        writeln!(out, "{init}").unwrap();
        events += 1;
        for _ in 0..opts.steps {
            let Some(ev) = eng.gen_event(&mut rng) else { break };
            let r = catch_unwind(AssertUnwindSafe(|| eng.apply(&ev)));
            let mut line = ev.clone();
            match r {
                Ok(o) => {
                    if let (Value::Object(l), Value::Object(o)) = (&mut line, &o) {
                        for (k, v) in o {
                            l.insert(k.clone(), v.clone());
                        }
                    }
                }
                Err(_) => {
                    panics += 1;
                    line = json!({"ev": "Panic", "during": ev});
                }
            }
            // an engine may expand one driven step into several trace lines
            if let Some(Value::Array(ls)) = line.get("_lines") {
                for l in ls {
                    writeln!(out, "{l}").unwrap();
                    events += 1;
                }
            } else {
                writeln!(out, "{line}").unwrap();
                events += 1;
            }
            if line["ev"] == "Panic" {
                break;
            }
        }
    }
    json!({"events": events, "runs": opts.runs, "panics": panics, "counters": eng.counters()})
}
