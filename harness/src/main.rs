//! vh -- verification harness binding the TLA+ specifications to the real
//! srtla_send code.
//!
//!   vh replay <engine> [--tag EDGE] [--stride N] [--seed S] [--last-only] [FILE|-]
//!   vh record <engine> --seed S --runs R --steps N --out FILE
//!
//! `replay` reads behaviours exported by TLC (one JSON array of {e, o} steps
//! per line, raw TLC `<<"EDGE", "...">>` lines accepted) and steps them
//! through the real objects, comparing the observable projection.
//! `record` drives the real code from a seeded generator and writes an ndjson
//! trace for TLC to validate against the Trace_* specifications.

mod engine;
mod engines;
mod util;

use std::io::{BufRead, BufReader, BufWriter, Write};

use engine::{Engine, RecordOpts, ReplayOpts};

fn arg_val(args: &[String], name: &str) -> Option<String> {
    args.iter().position(|a| a == name).and_then(|i| args.get(i + 1).cloned())
}

fn run_engine<E: Engine>(mut eng: E, mode: &str, args: &[String]) -> serde_json::Value {
    eng.configure(args);
    match mode {
        "replay" => {
            let opts = ReplayOpts {
                tag: arg_val(args, "--tag").unwrap_or_else(|| "EDGE".into()),
                stride: arg_val(args, "--stride").and_then(|s| s.parse().ok()).unwrap_or(1),
                seed: arg_val(args, "--seed").and_then(|s| s.parse().ok()).unwrap_or(0),
                max_report: 5,
                check_all_steps: !args.iter().any(|a| a == "--last-only"),
            };
            let path = args.last().cloned().unwrap_or_else(|| "-".into());
            let mut input: Box<dyn BufRead> = if path == "-" || path.starts_with("--") {
                Box::new(BufReader::with_capacity(1 << 20, std::io::stdin()))
            } else {
                Box::new(BufReader::with_capacity(
                    1 << 20,
                    std::fs::File::open(&path).unwrap_or_else(|e| {
                        eprintln!("cannot open {path}: {e}");
                        std::process::exit(2)
                    }),
                ))
            };
            engine::replay(&mut eng, &mut *input, &opts)
        }
        "record" => {
            let opts = RecordOpts {
                seed: arg_val(args, "--seed").and_then(|s| s.parse().ok()).unwrap_or(0),
                runs: arg_val(args, "--runs").and_then(|s| s.parse().ok()).unwrap_or(10),
                steps: arg_val(args, "--steps").and_then(|s| s.parse().ok()).unwrap_or(100),
            };
            let out = arg_val(args, "--out").unwrap_or_else(|| "/dev/stdout".into());
            let mut w = BufWriter::new(std::fs::File::create(&out).unwrap_or_else(|e| {
                eprintln!("cannot create {out}: {e}");
                std::process::exit(2)
            }));
            let r = engine::record(&mut eng, &mut w, &opts);
            w.flush().unwrap();
            r
        }
        _ => {
            eprintln!("unknown mode {mode}");
            std::process::exit(2)
        }
    }
}

unsafe extern "C" {
    fn sched_getcpu() -> i32;
    fn sched_setaffinity(pid: i32, cpusetsize: usize, mask: *const u64) -> i32;
}

/// Keep the whole process on the CPU it is on.  Datagrams sent to a loopback socket by two separate system calls
/// are queued on the backlog of the CPU that made each call; if the sending thread migrates in between, the second
/// can overtake the first.  The engines that read frames back from loopback sockets rely on "received order = sent
/// order", which holds exactly when everything runs on one CPU.
fn pin_to_current_cpu() {
    unsafe {
        let cpu = sched_getcpu();
        if cpu >= 0 && cpu < 1024 {
            let mut mask = [0u64; 16];
            mask[cpu as usize / 64] = 1u64 << (cpu as usize % 64);
            let _ = sched_setaffinity(0, std::mem::size_of_val(&mask), mask.as_ptr());
        }
    }
}

fn main() {
    // panics of the code under test are data; keep stderr quiet
    std::panic::set_hook(Box::new(|_| {}));
    let args: Vec<String> = std::env::args().collect();
    if args.len() >= 3 && matches!(args[2].as_str(), "shellsim" | "loopsim" | "reload" | "reloadloop") {
        pin_to_current_cpu();
    }
    if args.len() < 3 {
        eprintln!("usage: vh replay|record <engine> ...");
        std::process::exit(2);
    }
    let mode = args[1].as_str();
    let engine = args[2].as_str();
    let rest = &args[3..];
    let out = match engine {
        "inflight" => run_engine(engines::inflight::InFlightEngine::new(), mode, rest),
        "window" => run_engine(engines::window::WindowEngine::new(), mode, rest),
        "selection" => run_engine(engines::selection::SelectionEngine::new(), mode, rest),
        "stallguard" => run_engine(engines::stallguard::StallGuardEngine::new(), mode, rest),
        "weakfilter" => run_engine(engines::weakfilter::WeakFilterEngine::new(), mode, rest),
        "registration" => run_engine(engines::registration::RegistrationEngine::new(), mode, rest),
        "linkcc" => run_engine(engines::linkcc::LinkCcEngine::new(), mode, rest),
        "shellsim" => run_engine(engines::shellsim::ShellSim::new(), mode, rest),
        "codec" => run_engine(engines::codec::CodecEngine::new(), mode, rest),
        "hub" => run_engine(engines::hub::HubEngine::new(), mode, rest),
        "reload" => run_engine(engines::reload::ReloadEngine::new(), mode, rest),
        "reloadloop" => run_engine(engines::reload::ReloadLoopEngine::new(), mode, rest),
        "control" => run_engine(engines::control::ControlEngine::new(), mode, rest),
        "selhist" => run_engine(engines::selhist::SelHistEngine::new(), mode, rest),
        "loopsim" => run_engine(engines::loopsim::LoopSim::new(), mode, rest),
        _ => {
            eprintln!("unknown engine {engine}");
            std::process::exit(2)
        }
    };
    println!("{}", serde_json::to_string(&out).unwrap());
}
